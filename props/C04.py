from props.common import ASSUME_BOUNDED
from pv import bounded as B

NAMES = ['bnd:C04.update.total', 'bnd:C04.code', 'bnd:C04.equals_fresh_parse', 'bnd:C04.parent_links', 'bnd:C04.used_names_fresh']


def run(report):
    tier = report.tier
    args = ['--seed', str(report.seed)]
    if tier == 'quick':
        args += ['--bases', '0,1,3,8', '--cap', '7000', '--random', '3000', '--versions', '3.9']
    else:
        args += ['--bases', '0,1,2,3,4,5,6,7,8', '--cap', '40000', '--random', '30000', '--versions', '3.6,3.9,3.14']
    res = B.run_script('harness.c04_run', args)
    B.bounded_obligations(report, 'C04', NAMES, res, functions=['parso.python.diff.DiffParser.update', 'parso.grammar.Grammar.parse'])
    report.assume(ASSUME_BOUNDED,
                  "the core of C04 (the copy conditions of the diff parser never keep a node a fresh parse would build "
                  "differently) has no inductive invariant within reach; it is decided only by this bounded stand-in with the "
                  "batch parser as oracle")
