"""Obligation model, verdict aggregation, evidence / replay / known-finding plumbing.

Exit codes of a check (DESIGN 2.8):
  0  every obligation discharged (or matched by a listed known finding)
  1  an obligation is refuted and not a listed known finding  -> VIOLATION line
  2  an obligation is undecided and no bounded stand-in passed (never a VIOLATION)
  3  internal error of the checker
"""
import json
import os
import sys
import time
import traceback

VERIF = os.path.dirname(os.path.dirname(os.path.abspath(__file__)))
REPO = os.environ.get("PARSO_REPO", "/repo")
VENV_PY = os.environ.get("PARSO_TEST_PY", "/venv/bin/python")

DISCHARGED, REFUTED, UNDECIDED = "discharged", "refuted", "undecided"


class Ob:
    """One named proof obligation and its verdict.

    kind:  'D' deductive (SMT, for all inputs)   'T' exact decision over a complete finite
           domain (all tables / classes / live regexes)   'B' bounded stand-in (run-time contract)
    """

    def __init__(self, name, kind, backend, status, time_s=0.0, detail="", witness=None,
                 functions=(), signature=None, standin=None, replayed=None, sample=None):
        self.name = name
        self.kind = kind
        self.backend = backend
        self.status = status
        self.time_s = time_s
        self.detail = detail
        self.witness = witness          # dict describing the failing input / model
        self.functions = tuple(functions)
        # what a known finding is matched against: stable text naming the failing site
        self.signature = signature or name
        self.standin = standin          # name of the B obligation that stands in when undecided
        self.replayed = replayed        # True: witness reproduced natively; False: did not; None: n/a
        self.sample = sample

    def to_json(self):
        d = dict(name=self.name, kind=self.kind, backend=self.backend, status=self.status,
                 time_s=round(self.time_s, 4))
        if self.detail:
            d["detail"] = self.detail if len(self.detail) < 2000 else self.detail[:2000] + "..."
        if self.witness is not None:
            d["witness"] = self.witness
        if self.signature != self.name:
            d["signature"] = self.signature
        if self.replayed is not None:
            d["replayed"] = self.replayed
        return d


def load_known_findings():
    p = os.path.join(VERIF, "known_findings.json")
    if not os.path.exists(p):
        return []
    with open(p) as f:
        return json.load(f)["findings"]


def match_finding(findings, prop, ob):
    """A known finding suppresses exactly the (property, obligation, signature) it names."""
    for f in findings:
        if f.get("status", "open") != "open":
            continue            # 'fixed' entries suppress nothing
        if f["property"] != prop:
            continue
        if f["obligation"] != ob.name:
            continue
        sig = f.get("signature")
        if sig is None or sig == ob.signature:
            return f
    return None


class Report:
    def __init__(self, prop, tier, seed):
        self.prop, self.tier, self.seed = prop, tier, seed
        self.obs = []
        self.assumptions = []
        self.functions = set()
        self.bounded = {}     # scope statistics of the bounded back end
        self.extra = {}
        self.t0 = time.time()

    def add(self, ob):
        self.obs.append(ob)
        self.functions.update(ob.functions)
        return ob

    def extend(self, obs):
        for o in obs:
            self.add(o)

    def assume(self, *texts):
        for t in texts:
            if t not in self.assumptions:
                self.assumptions.append(t)


OUT = os.environ.get("PV_OUT_DIR", VERIF)      # scratch runs (mutant self-test) write evidence / replay elsewhere


def _write_replay(prop, idx, ob):
    os.makedirs(os.path.join(OUT, "replay"), exist_ok=True)
    path = os.path.join("replay", "%s-%d.json" % (prop, idx))
    with open(os.path.join(OUT, path), "w") as f:
        json.dump(dict(property=prop, obligation=ob.name, kind=ob.kind, backend=ob.backend,
                       signature=ob.signature, solver_output=ob.detail, witness=ob.witness,
                       replayed_on_real_code=ob.replayed), f, indent=1, default=repr)
    return path


def _explain(report, kinds, backends, all_proved, known_hit):
    parts = []
    for k, label in (('D', 'deductive obligations (VCs / RegLan / effect inclusions generated from the real source, for all inputs)'),
                     ('T', 'exact obligations over a complete finite domain (tables / classes / live patterns)'),
                     ('B', 'bounded stand-in obligations (run-time contracts over the stated scope; never counted as proved)')):
        if k in kinds:
            d = kinds[k]
            parts.append('%d/%d %s discharged' % (d['discharged'], d['obligations'], label))
    be = ', '.join('%s: %d in %.1fs' % (b, v['obligations'], v['time_s']) for b, v in sorted(backends.items()))
    txt = '; '.join(parts) + '. Back ends: ' + be + '.'
    if not all_proved:
        txt += (' Level is "other" and not "proof" because the property is not decided by D/T obligations alone: the '
                'contracts listed under functions_under_contract are discharged, the rest of the property rests on the '
                'bounded obligations (see rule / bounded_scope) and on the assumptions listed.')
    if known_hit:
        txt += ' %d refuted obligation(s) match listed known findings of the unchanged tree.' % len(known_hit)
    return txt


def finish(report, level_if_all_proved="proof"):
    """Print verdict lines, write evidence, return the exit code."""
    prop = report.prop
    findings = load_known_findings()
    by_name = {o.name: o for o in report.obs}
    violations, known_hit, undecided_hard, degraded = [], [], [], []
    # An undecided D/T obligation (code outside the subset, a binding that no longer resolves) does not fail the run when
    # the bounded stand-in of the property passed: every bounded obligation of this run discharged or a listed finding
    # (DESIGN 2.8: "held on everything explored", printed as DEGRADED, never counted as proved).
    b_obs = [o for o in report.obs if o.kind == 'B']
    b_ok = bool(b_obs) and all(o.status == DISCHARGED or (o.status == REFUTED and match_finding(findings, prop, o) is not None)
                               for o in b_obs)
    for o in report.obs:
        if o.status == REFUTED:
            f = match_finding(findings, prop, o)
            if f is not None:
                known_hit.append((o, f))
            else:
                violations.append(o)
        elif o.status == UNDECIDED:
            s = by_name.get(o.standin) if o.standin else None
            if s is not None and s.status == DISCHARGED:
                degraded.append(o)
            elif o.standin is None and o.kind in 'DT' and b_ok:
                o.standin = 'the bounded obligations of %s' % prop
                degraded.append(o)
            else:
                undecided_hard.append(o)
    seen = set()
    for o, f in known_hit:
        key = (o.name, o.signature)
        if key in seen:
            continue
        seen.add(key)
        print("KNOWN-FINDING: property=%s %s %s" % (prop, o.name, f.get("what", o.signature)))
    for o in degraded:
        print("DEGRADED: %s %s (stand-in %s passed)" % (o.name, o.detail[:200], o.standin))
    for o in undecided_hard:
        print("UNDECIDED: %s %s" % (o.name, o.detail[:300]))
    # clear stale replay files of this property
    rdir = os.path.join(OUT, "replay")
    os.makedirs(rdir, exist_ok=True)
    for fn in os.listdir(rdir):
        if fn.startswith(prop + "-"):
            os.remove(os.path.join(rdir, fn))
    for i, o in enumerate(violations):
        path = _write_replay(prop, i, o)
        tail = "" if o.replayed else " no-failing-input-found"
        print("VIOLATION property=%s replay=%s obligation=%s%s" % (prop, path, o.name, tail))

    n = len(report.obs)
    nd = sum(1 for o in report.obs if o.status == DISCHARGED)
    kinds = {}
    for o in report.obs:
        k = kinds.setdefault(o.kind, dict(obligations=0, discharged=0, refuted=0, undecided=0))
        k["obligations"] += 1
        k[o.status] += 1
    backends = {}
    for o in report.obs:
        b = backends.setdefault(o.backend, dict(obligations=0, discharged=0, time_s=0.0))
        b["obligations"] += 1
        b["discharged"] += int(o.status == DISCHARGED)
        b["time_s"] = round(b["time_s"] + o.time_s, 3)
    all_proved = (n > 0 and nd == n and all(o.kind in "DT" for o in report.obs))
    level = level_if_all_proved if all_proved else "other"
    dt = [o for o in report.obs if o.kind in "DT"]
    cov = dict(
        obligations=n, discharged=nd,
        obligations_by_kind=kinds, by_backend=backends,
        deductive_obligations=len(dt),
        deductive_discharged=sum(1 for o in dt if o.status == DISCHARGED),
        checker_cmd="./check %s --tier %s" % (prop, report.tier),
        trusted_base=report.assumptions,
        functions_under_contract=sorted(report.functions),
        undecided=[o.to_json() for o in report.obs if o.status == UNDECIDED],
        refuted=[o.to_json() for o in report.obs if o.status == REFUTED][:40],
        known_findings_hit=sorted({"%s :: %s" % (o.name, o.signature) for o, _ in known_hit}),
        explanation=report.extra.pop("explanation", "") or _explain(report, kinds, backends, all_proved, known_hit),
        samples=[o.to_json() for o in report.obs[:6]] +
                [s for s in report.bounded.get("samples", [])][:6],
        obligation_list=[dict(name=o.name, kind=o.kind, backend=o.backend, status=o.status,
                              time_s=round(o.time_s, 3)) for o in report.obs],
    )
    if report.bounded:
        cov["evaluations"] = int(report.bounded.get("evaluations", 0))
        cov["distinct_nontrivial"] = int(report.bounded.get("distinct_nontrivial", 0))
        cov["rule"] = report.bounded.get("rule", "")
        cov["exhaustive"] = bool(report.bounded.get("exhaustive", False))
        cov["bounded_scope"] = report.bounded.get("scope", {})
    cov.update(report.extra)
    ev = dict(property_id=prop, tier=report.tier, seed=report.seed, level=level, coverage=cov,
              assumptions=report.assumptions, wall_s=round(time.time() - report.t0, 2),
              violations=len(violations))
    os.makedirs(os.path.join(OUT, "evidence"), exist_ok=True)
    with open(os.path.join(OUT, "evidence", prop + ".json"), "w") as f:
        json.dump(ev, f, indent=1, default=repr)
    print("%s tier=%s obligations=%d discharged=%d (D/T %d/%d) refuted=%d (known %d) undecided=%d level=%s wall=%.1fs"
          % (prop, report.tier, n, nd, cov["deductive_discharged"], cov["deductive_obligations"],
             len(violations) + len(known_hit), len(known_hit), len(undecided_hard) + len(degraded),
             level, time.time() - report.t0))
    if n == 0:
        print("UNDECIDED: zero obligations generated (vacuous run)")
        return 2
    if violations:
        return 1
    if undecided_hard:
        return 2
    return 0


def run_guarded(fn):
    try:
        return fn()
    except SystemExit:
        raise
    except BaseException:
        traceback.print_exc()
        print("CHECKER-ERROR (exit 3): internal error, no verdict")
        return 3
