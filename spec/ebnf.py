"""Independent reading of pgen-style EBNF grammar text (own scanner, own parser, Thompson NFAs) and a small
automata library: epsilon closures, determinisation, language equivalence, FIRST / nullable / FOLLOW,
LL(1) conflicts, left recursion.  Pure stdlib; shares no code with parso.pgen2.

A label is the text of a symbol as written in the grammar: a NAME (token type in upper case or a rule name)
or a quoted string *value* prefixed with a quote mark, e.g. "'if" -- see lab().
"""
import ast
import re

_TOK = re.compile(r"""\s*(?:(\#[^\n]*)|([A-Za-z_][A-Za-z_0-9]*)|('(?:[^'\\]|\\.)*'|"(?:[^"\\]|\\.)*")|([:|()\[\]*+])|(\n))""")


class GrammarSyntaxError(Exception):
    pass


def scan(text):
    """-> list of (kind, value) with kinds NAME STRING OP NEWLINE END; NEWLINE only outside brackets."""
    out = []
    pos = 0
    depth = 0
    n = len(text)
    while pos < n:
        # skip blanks but not newlines
        m = re.compile(r'[ \t\r\f]*').match(text, pos)
        pos = m.end()
        if pos >= n:
            break
        c = text[pos]
        if c == '\n':
            if depth == 0 and out and out[-1][0] != 'NEWLINE':
                out.append(('NEWLINE', '\n'))
            pos += 1
            continue
        if c == '#':
            e = text.find('\n', pos)
            pos = n if e < 0 else e
            continue
        if c == '\\' and pos + 1 < n and text[pos + 1] == '\n':
            pos += 2
            continue
        m = re.compile(r'[A-Za-z_][A-Za-z_0-9]*').match(text, pos)
        if m:
            out.append(('NAME', m.group(0)))
            pos = m.end()
            continue
        m = re.compile(r"""'(?:[^'\\\n]|\\.)*'|"(?:[^"\\\n]|\\.)*\"""").match(text, pos)
        if m:
            out.append(('STRING', m.group(0)))
            pos = m.end()
            continue
        if c in ':|()[]*+':
            if c in '([':
                depth += 1
            elif c in ')]':
                depth -= 1
            out.append(('OP', c))
            pos += 1
            continue
        raise GrammarSyntaxError('unexpected character %r at offset %d' % (c, pos))
    if out and out[-1][0] != 'NEWLINE':
        out.append(('NEWLINE', '\n'))
    out.append(('END', ''))
    return out


def lab(kind, value):
    if kind == 'STRING':
        return "'" + ast.literal_eval(value)
    return value


# ---------------------------------------------------------------- EBNF abstract syntax
# ('sym', label) ('seq', [..]) ('alt', [..]) ('opt', x) ('star', x) ('plus', x)
class _P:
    def __init__(self, toks, spelled=False):
        self.t = toks
        self.i = 0
        self.spelled = spelled      # keep the spelling of quoted strings ('x' and "x" are then different labels)

    def peek(self):
        return self.t[self.i]

    def next(self):
        x = self.t[self.i]
        self.i += 1
        return x

    def expect(self, kind, value=None):
        k, v = self.next()
        if k != kind or (value is not None and v != value):
            raise GrammarSyntaxError('expected %s %r, got %s %r' % (kind, value, k, v))
        return v

    def grammar(self):
        rules = []
        while self.peek()[0] != 'END':
            if self.peek()[0] == 'NEWLINE':
                self.next()
                continue
            name = self.expect('NAME')
            self.expect('OP', ':')
            rhs = self.rhs()
            self.expect('NEWLINE')
            rules.append((name, rhs))
        return rules

    def rhs(self):
        alts = [self.items()]
        while self.peek() == ('OP', '|'):
            self.next()
            alts.append(self.items())
        return alts[0] if len(alts) == 1 else ('alt', alts)

    def items(self):
        xs = [self.item()]
        while self.peek()[0] in ('NAME', 'STRING') or self.peek() in (('OP', '('), ('OP', '[')):
            xs.append(self.item())
        return xs[0] if len(xs) == 1 else ('seq', xs)

    def item(self):
        if self.peek() == ('OP', '['):
            self.next()
            r = self.rhs()
            self.expect('OP', ']')
            return ('opt', r)
        a = self.atom()
        if self.peek() == ('OP', '*'):
            self.next()
            return ('star', a)
        if self.peek() == ('OP', '+'):
            self.next()
            return ('plus', a)
        return a

    def atom(self):
        k, v = self.next()
        if (k, v) == ('OP', '('):
            r = self.rhs()
            self.expect('OP', ')')
            return r
        if k in ('NAME', 'STRING'):
            return ('sym', v if (self.spelled and k == 'STRING') else lab(k, v))
        raise GrammarSyntaxError('expected atom, got %s %r' % (k, v))


def read_grammar(text, spelled=False):
    """-> ordered list of (rule name, ebnf tree)"""
    return _P(scan(text), spelled).grammar()


# ---------------------------------------------------------------- Thompson NFA
class NFA:
    """states are ints; eps[s] = set of states; arcs[s] = list of (label, state)"""

    def __init__(self):
        self.eps = []
        self.arcs = []
        self.start = self.final = None

    def new(self):
        self.eps.append(set())
        self.arcs.append([])
        return len(self.eps) - 1

    def build(self, t):
        k = t[0]
        if k == 'sym':
            a, z = self.new(), self.new()
            self.arcs[a].append((t[1], z))
            return a, z
        if k == 'seq':
            a, z = self.build(t[1][0])
            for x in t[1][1:]:
                b, y = self.build(x)
                self.eps[z].add(b)
                z = y
            return a, z
        if k == 'alt':
            a, z = self.new(), self.new()
            for x in t[1]:
                b, y = self.build(x)
                self.eps[a].add(b)
                self.eps[y].add(z)
            return a, z
        if k == 'opt':
            a, z = self.build(t[1])
            s, f = self.new(), self.new()
            self.eps[s].update([a, f])
            self.eps[z].add(f)
            return s, f
        if k in ('star', 'plus'):
            a, z = self.build(t[1])
            s, f = self.new(), self.new()
            self.eps[s].add(a)
            self.eps[z].update([a, f])
            if k == 'star':
                self.eps[s].add(f)
            return s, f
        raise ValueError(k)

    def closure(self, states):
        out = set(states)
        todo = list(states)
        while todo:
            s = todo.pop()
            for t in self.eps[s]:
                if t not in out:
                    out.add(t)
                    todo.append(t)
        return frozenset(out)

    def step(self, states, label):
        return self.closure({z for s in states for (l, z) in self.arcs[s] if l == label})

    def labels(self, states):
        return {l for s in states for (l, z) in self.arcs[s]}


def rule_nfa(tree):
    n = NFA()
    n.start, n.final = n.build(tree)
    return n


class DFA:
    """states 0..n-1, trans[s] = {label: state}, final = set; state 0 is the start"""

    def __init__(self, trans, final):
        self.trans, self.final = trans, final


def determinize(nfa):
    start = nfa.closure({nfa.start})
    index = {start: 0}
    order = [start]
    trans = [{}]
    i = 0
    while i < len(order):
        S = order[i]
        for l in sorted(nfa.labels(S)):
            T = nfa.step(S, l)
            if not T:
                continue
            if T not in index:
                index[T] = len(order)
                order.append(T)
                trans.append({})
            trans[i][l] = index[T]
        i += 1
    final = {i for i, S in enumerate(order) if nfa.final in S}
    return DFA(trans, final)


def equivalent(d1, d2):
    """Language equivalence of two DFAs without dead states -> (bool, distinguishing word or None)"""
    seen = {(0, 0): ()}
    todo = [(0, 0)]
    while todo:
        p, q = todo.pop()
        w = seen[(p, q)]
        if (p in d1.final) != (q in d2.final):
            return False, list(w)
        l1, l2 = set(d1.trans[p]), set(d2.trans[q])
        if l1 != l2:
            x = sorted(l1 ^ l2)[0]
            return False, list(w) + [x]
        for l in l1:
            nx = (d1.trans[p][l], d2.trans[q][l])
            if nx not in seen:
                seen[nx] = w + (l,)
                todo.append(nx)
    return True, None


def trim(d):
    """Remove states that cannot reach a final state (so equivalence can compare label sets)."""
    n = len(d.trans)
    rev = [set() for _ in range(n)]
    for s, tr in enumerate(d.trans):
        for l, t in tr.items():
            rev[t].add(s)
    live = set(d.final)
    todo = list(d.final)
    while todo:
        s = todo.pop()
        for p in rev[s]:
            if p not in live:
                live.add(p)
                todo.append(p)
    trans = [{l: t for l, t in tr.items() if t in live} if s in live else {} for s, tr in enumerate(d.trans)]
    return DFA(trans, set(d.final)), live


# ---------------------------------------------------------------- grammar-level analyses
class Grammar:
    def __init__(self, text):
        self.text = text
        self.rules = read_grammar(text)
        self.names = [n for n, _ in self.rules]
        self.tree = dict(self.rules)
        self.nfa = {n: rule_nfa(t) for n, t in self.rules}
        self.dfa = {n: determinize(a) for n, a in self.nfa.items()}
        self.nonterminals = set(self.names)
        self._first = None
        self._nullable = None

    def is_terminal(self, label):
        return label not in self.nonterminals

    def nullable(self):
        if self._nullable is None:
            nl = set()
            changed = True
            while changed:
                changed = False
                for n in self.names:
                    if n in nl:
                        continue
                    # does the DFA accept a word of nullable nonterminals only?
                    d = self.dfa[n]
                    seen = {0}
                    todo = [0]
                    ok = False
                    while todo:
                        s = todo.pop()
                        if s in d.final:
                            ok = True
                            break
                        for l, t in d.trans[s].items():
                            if l in nl and t not in seen:
                                seen.add(t)
                                todo.append(t)
                    if ok:
                        nl.add(n)
                        changed = True
            self._nullable = nl
        return self._nullable

    def first(self):
        """FIRST sets (terminal labels) as least fixpoint; nullable prefixes are skipped."""
        if self._first is None:
            nl = self.nullable()
            first = {n: set() for n in self.names}
            changed = True
            while changed:
                changed = False
                for n in self.names:
                    d = self.dfa[n]
                    seen = {0}
                    todo = [0]
                    acc = set()
                    while todo:
                        s = todo.pop()
                        for l, t in d.trans[s].items():
                            if self.is_terminal(l):
                                acc.add(l)
                            else:
                                acc |= first[l]
                                if l in nl and t not in seen:
                                    seen.add(t)
                                    todo.append(t)
                    if not acc <= first[n]:
                        first[n] |= acc
                        changed = True
            self._first = first
        return self._first

    def left_recursive(self):
        """Rules that can reach themselves through first symbols."""
        nl = self.nullable()
        g = {}
        for n in self.names:
            d = self.dfa[n]
            seen = {0}
            todo = [0]
            acc = set()
            while todo:
                s = todo.pop()
                for l, t in d.trans[s].items():
                    if not self.is_terminal(l):
                        acc.add(l)
                        if l in nl and t not in seen:
                            seen.add(t)
                            todo.append(t)
            g[n] = acc
        out = set()
        for n in self.names:
            seen = set()
            todo = list(g[n])
            while todo:
                x = todo.pop()
                if x == n:
                    out.add(n)
                    break
                if x in seen:
                    continue
                seen.add(x)
                todo.extend(g.get(x, ()))
        return out

    def first_conflicts(self):
        """(rule, dfa state, token, [symbols]) where two arcs of one state share a first token."""
        first = self.first()
        out = []
        for n in self.names:
            d = self.dfa[n]
            for s, tr in enumerate(d.trans):
                claim = {}
                for l in tr:
                    toks = {l} if self.is_terminal(l) else first[l]
                    for t in toks:
                        claim.setdefault(t, []).append(l)
                for t, ls in claim.items():
                    if len(ls) > 1:
                        out.append((n, s, t, sorted(ls)))
        return out

    def spelling_conflicts(self):
        """(rule, state, token, [spellings]): two terminal arcs of one state of the automaton over the labels *as written*
        that spell the same token differently ('x' and "x"): "two arcs of one state sharing a first token" too."""
        out = []
        for n, t in read_grammar(self.text, spelled=True):
            d = determinize(rule_nfa(t))
            for s, tr in enumerate(d.trans):
                claim = {}
                for l in tr:
                    if l[:1] in ('"', "'"):
                        claim.setdefault(ast.literal_eval(l), []).append(l)
                for tok, ls in claim.items():
                    if len(ls) > 1:
                        out.append((n, s, tok, sorted(ls)))
        return out

    def follow(self, starts):
        first = self.first()
        nl = self.nullable()
        fol = {n: set() for n in self.names}
        for s in starts:
            if s in fol:
                fol[s].add('$END')
        changed = True
        while changed:
            changed = False
            for n in self.names:
                d = self.dfa[n]
                for s, tr in enumerate(d.trans):
                    for l, t in tr.items():
                        if self.is_terminal(l):
                            continue
                        # what can follow l when leaving state s via l into t
                        acc = set()
                        seen = {t}
                        todo = [t]
                        while todo:
                            u = todo.pop()
                            if u in d.final:
                                acc |= fol[n]
                            for l2, t2 in d.trans[u].items():
                                if self.is_terminal(l2):
                                    acc.add(l2)
                                else:
                                    acc |= first[l2]
                                    if l2 in nl and t2 not in seen:
                                        seen.add(t2)
                                        todo.append(t2)
                        if not acc <= fol[l]:
                            fol[l] |= acc
                            changed = True
        return fol

    def unit_closure(self):
        """unit[X] = symbols Y such that X derives the one-symbol sentence Y through single-child collapsing."""
        unit = {n: {n} for n in self.names}
        changed = True
        while changed:
            changed = False
            for n in self.names:
                d = self.dfa[n]
                acc = set()
                for l, t in d.trans[0].items():
                    if t in d.final:
                        acc.add(l)
                        if l in unit:
                            acc |= unit[l]
                if not acc <= unit[n]:
                    unit[n] |= acc
                    changed = True
        return unit
