"""C19 (second half): Grammar.refactor / RefactoringNormalizer is an exact text splice.

Spec function (theory 'splice'), for a replacement map m and a tree object n:
    rcode(m, n) = m[n]                                   if n is a key of m
                = n.prefix + n.value                     if n is a leaf
                = rcat(m, n, nch(n))                     otherwise
    rcat(m, n, 0) = ''        rcat(m, n, i+1) = rcat(m, n, i) + rcode(m, child(n, i))
i.e. the text of the tree with every mapped node (and nothing else) replaced by its string.  The recursion of the real
code (RefactoringNormalizer.visit -> Normalizer.visit -> self.visit(child) / visit_leaf) is proved to compute rcode."""
import z3

from pv.contract import contract, theory, specfn, class_fields
from pv.values import VStr, I, B, S

F = z3.Function
_rcode = F('rcode', I, I, S)
_rcat = F('rcat', I, I, I, S)
_isleaf = F('$isleaf', I, B)

class_fields('RefactoringNormalizer', _node_to_str_map='map:ref:str')


@theory('splice')
def splice_axioms(eng, st):
    m, n, i, j = z3.Ints('m n i j')
    has = st.mhas(m, n, 'ref')
    val = st.mvals(m, n, 'ref')
    kids = st.rd('children', n)
    nch = st.llen(kids)
    child = lambda k: st.lget(kids, k, 'ref')      # noqa: E731
    pre, valf = st.rd('prefix', n, S), st.rd('value', n, S)
    return [
        z3.ForAll([m, n], z3.Implies(z3.And(n != 0, has), _rcode(m, n) == val), patterns=[_rcode(m, n)]),
        z3.ForAll([m, n], z3.Implies(z3.And(n != 0, z3.Not(has), _isleaf(n)), _rcode(m, n) == z3.Concat(pre, valf)),
                  patterns=[_rcode(m, n)]),
        z3.ForAll([m, n], z3.Implies(z3.And(n != 0, z3.Not(has), z3.Not(_isleaf(n))), _rcode(m, n) == _rcat(m, n, nch)),
                  patterns=[_rcode(m, n)]),
        z3.ForAll([m, n], _rcat(m, n, 0) == z3.StringVal(''), patterns=[_rcat(m, n, 0)]),
        # successor step: instantiated only for two partial concatenations that both occur (no matching loop)
        z3.ForAll([m, n, i, j], z3.Implies(z3.And(0 <= i, j == i + 1, j <= nch),
                                           _rcat(m, n, j) == z3.Concat(_rcat(m, n, i), _rcode(m, child(i)))),
                  patterns=[z3.MultiPattern(_rcat(m, n, i), _rcat(m, n, j))]),
    ]


@specfn('rcode')
def sp_rcode(eng, st, m, n):
    return VStr(_rcode(m.t, n.t))


@specfn('rcat')
def sp_rcat(eng, st, m, n, i):
    return VStr(_rcat(m.t, n.t, i.t))


M = 'self._node_to_str_map'
# a RefactoringNormalizer has no rules (its constructor does not instantiate any, the class-level tables are empty): the
# loops over rules in _check_type_rules / visit_leaf never run -- their bodies are shown unreachable by the VCs
# (cover:loop notes), so the frame check does not follow rule.feed_node
NO_RULES = {'feed_node': 'no rule instances exist for a RefactoringNormalizer (loop bodies unreachable: cover:loop obligations)'}
# self is a RefactoringNormalizer (no subclasses): self.visit / visit_leaf / visit_node / _check_type_rules are its own
# or Normalizer's implementations, never those of ErrorFinder / PEP8Normalizer
RN_DISPATCH = {'visit': ['parso.normalizer.RefactoringNormalizer.visit', 'parso.normalizer.Normalizer.visit'],
               'visit_leaf': ['parso.normalizer.RefactoringNormalizer.visit_leaf', 'parso.normalizer.Normalizer.visit_leaf'],
               'visit_node': ['parso.normalizer.Normalizer.visit_node'],
               '_check_type_rules': ['parso.normalizer.Normalizer._check_type_rules']}
TH = dict(theories=['tree', 'splice'], props=['C19'], frame_prune=NO_RULES, frame_dispatch=RN_DISPATCH)
RN = 'ref:RefactoringNormalizer'
CK = {'parso.normalizer.Normalizer.visit': 'parso.normalizer.Normalizer.visit#refactor',
      'parso.normalizer.Normalizer.visit_leaf': 'parso.normalizer.Normalizer.visit_leaf#refactor',
      'parso.normalizer.Normalizer._check_type_rules': 'parso.normalizer.Normalizer._check_type_rules#refactor'}

contract('parso.normalizer.RefactoringNormalizer.visit', params={'self': RN, 'node': 'ref:NodeOrLeaf'}, returns='str',
         requires=['node is not None', M + ' is not None'],
         ensures=['result == rcode(%s, node)' % M], decreases='2 * height(node) + 1', call_keys=CK, **TH)
contract('parso.normalizer.RefactoringNormalizer.visit_leaf', params={'self': RN, 'leaf': 'ref:NodeOrLeaf'}, returns='str',
         requires=['leaf is not None', 'is_leaf(leaf)', M + ' is not None'],
         ensures=['result == rcode(%s, leaf)' % M], call_keys=CK, **TH)
contract('parso.normalizer.Normalizer.visit#refactor', params={'self': RN, 'node': 'ref:NodeOrLeaf'}, returns='str',
         requires=['node is not None', M + ' is not None', 'node not in ' + M],
         ensures=['result == rcode(%s, node)' % M], decreases='2 * height(node)',
         joins={0: dict(acc='rcat(%s, node, _i)' % M, inv=[])}, call_keys=CK, **TH)
contract('parso.normalizer.Normalizer.visit_leaf#refactor', params={'self': RN, 'leaf': 'ref:NodeOrLeaf'}, returns='str',
         requires=['leaf is not None', 'is_leaf(leaf)'],
         ensures=['result == leaf.prefix + leaf.value'],
         loops={0: dict(invariant=[], may_be_empty=True)}, call_keys=CK, **TH)
contract('parso.normalizer.Normalizer._check_type_rules#refactor', params={'self': RN, 'node': 'ref:NodeOrLeaf'},
         requires=['node is not None'], loops={0: dict(invariant=[], may_be_empty=True)}, **TH)

# ---- the entry point: Grammar.refactor -> normalizer.walk(node) -> the spliced text (C19)
contract('parso.normalizer.Normalizer.initialize', params={'self': 'ref:Normalizer', 'node': 'ref:NodeOrLeaf'}, modifies=[], lists=[],
         props=['C19'])
contract('parso.normalizer.Normalizer.finalize', params={'self': 'ref:Normalizer'}, modifies=[], lists=[], props=['C19'])
contract('parso.normalizer.Normalizer.walk#refactor', params={'self': RN, 'node': 'ref:NodeOrLeaf'}, returns='str',
         requires=['node is not None', M + ' is not None'],
         ensures=['result == rcode(%s, node)' % M],
         call_keys=dict(CK, **{'parso.normalizer.Normalizer.visit': 'parso.normalizer.RefactoringNormalizer.visit'}),
         theories=['tree', 'splice'], props=['C19'], frame_prune=NO_RULES,
         frame_dispatch=dict(RN_DISPATCH, initialize=['parso.normalizer.Normalizer.initialize'],
                             finalize=['parso.normalizer.Normalizer.finalize']))
contract('parso.normalizer.RefactoringNormalizer.__init__', params={'self': RN, 'node_to_str_map': 'map:ref:str'},
         ensures=['self._node_to_str_map is node_to_str_map'], modifies=['self._node_to_str_map'], props=['C19'])
contract('parso.grammar.Grammar.refactor', params={'self': 'ref:Grammar', 'base_node': 'ref:NodeOrLeaf', 'node_to_str_map': 'map:ref:str'},
         returns='str', requires=['base_node is not None', 'node_to_str_map is not None'],
         ensures=['result == rcode(node_to_str_map, base_node)'],
         call_keys={'parso.normalizer.Normalizer.walk': 'parso.normalizer.Normalizer.walk#refactor'},
         modifies=['_node_to_str_map'], theories=['tree', 'splice'], props=['C19'], frame_prune=NO_RULES,
         frame_dispatch=dict(RN_DISPATCH, initialize=['parso.normalizer.Normalizer.initialize'],
                             finalize=['parso.normalizer.Normalizer.finalize']))
