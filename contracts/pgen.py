"""C08: the small helpers of the parser generator (parso/pgen2/generator.py) under contract.

DFAState.__eq__ is the state equivalence _simplify_dfas merges by (same finality, the same labels leading to the identical
states); unifystate redirects exactly the arcs that pointed to the merged state; add_arc never overwrites an arc;
_make_transition gives every spelling of a reserved string the one shared ReservedString of its value and a named token
its token type.  The dict loops are verified with the enumerated iteration (each entry exactly once)."""
from pv.contract import contract, class_fields, fields

class_fields('DFAState', arcs='map:str:ref:DFAState', is_final='bool', from_rule='str')

ARCS_NN = 'forall(lambda l: implies(l in self.arcs, self.arcs[l] is not None), kinds=dict(l="str"))'
contract('parso.pgen2.generator.DFAState.__eq__', params={'self': 'ref:DFAState', 'other': 'ref:DFAState'}, returns='bool',
         requires=['other is not None', 'self.arcs is not None', 'other.arcs is not None', 'isinstance(other, DFAState)'],
         ensures=['result == (self.is_final == other.is_final and len(self.arcs) == len(other.arcs) and '
                  'forall(lambda l: implies(l in self.arcs, l in other.arcs and self.arcs[l] is other.arcs[l]), kinds=dict(l="str")))'],
         loops={0: dict(enum=True, invariant=[
             'forall(lambda l: implies(l in self.arcs and key_idx(l) < _i, l in other.arcs and self.arcs[l] is other.arcs[l]), kinds=dict(l="str"))'])},
         raises=[], modifies=[], lists=[], props=['C08'])

contract('parso.pgen2.generator.DFAState.unifystate', params={'self': 'ref:DFAState', 'old': 'ref:DFAState', 'new': 'ref:DFAState'},
         requires=['self.arcs is not None', 'new is not None', 'old is not None', ARCS_NN],
         ensures=['forall(lambda l: (l in self.arcs) == old(l in self.arcs), kinds=dict(l="str"))',
                  # exactly the arcs that led to `old` lead to `new` now, every other arc is what it was
                  'forall(lambda l: implies(l in self.arcs, self.arcs[l] is ite(old(self.arcs[l]) is old, new, old(self.arcs[l]))), kinds=dict(l="str"))'],
         loops={0: dict(enum=True, invariant=[
             'forall(lambda l: implies(l in self.arcs and key_idx(l) < _i, self.arcs[l] is ite(old(self.arcs[l]) is old, new, old(self.arcs[l]))), kinds=dict(l="str"))',
             'forall(lambda l: implies(l in self.arcs and key_idx(l) >= _i, self.arcs[l] is old(self.arcs[l])), kinds=dict(l="str"))'])},
         raises=[], modifies=['arcs', '$maps'], lists=[], props=['C08'])

contract('parso.pgen2.generator.DFAState.add_arc', params={'self': 'ref:DFAState', 'next_': 'ref:DFAState', 'label': 'str'},
         requires=['self.arcs is not None', 'next_ is not None', 'isinstance(next_, DFAState)', 'not (label in self.arcs)'],
         ensures=['label in self.arcs', 'self.arcs[label] is next_',
                  'forall(lambda l: implies(l != label, (l in self.arcs) == old(l in self.arcs) and '
                  'implies(l in self.arcs, self.arcs[l] is old(self.arcs[l]))), kinds=dict(l="str"))'],
         raises=[], modifies=['arcs', '$maps'], lists=[], props=['C08'])


# ---- _make_transition: a quoted label of the grammar text becomes the ReservedString of its *value* -- one shared object
# per value whatever the spelling ('x' or "x"), created on first use, nothing else in the table touched
import z3  # noqa: E402
from pv.contract import specfn  # noqa: E402
from pv.values import VStr, S  # noqa: E402

_litval = z3.Function('literal_value', S, S)


@specfn('literal_value')
def sp_litval(eng, st, s):
    """what ast.literal_eval gives for the text of a string literal"""
    return VStr(_litval(s.t))


class_fields('ReservedString', value='str')
contract('ext:ast.literal_eval', params={'node_or_string': 'str'}, returns='str', trusted=True, raises=['ValueError', 'SyntaxError'],
         ensures=['result == literal_value(node_or_string)'],
         note='environment: the value of a string literal given as text (the grammar scanner only passes string tokens)')
contract('parso.pgen2.generator.ReservedString.__init__', params={'self': 'ref:ReservedString', 'value': 'str'},
         ensures=['self.value == value'], modifies=['self.value'], props=['C08'])
contract('parso.pgen2.generator._make_transition#string',
         params={'token_namespace': 'any', 'reserved_syntax_strings': 'map:str:ref:ReservedString', 'label': 'str'},
         returns='ref:ReservedString',
         requires=['reserved_syntax_strings is not None', 'allocated(reserved_syntax_strings)',
                   'forall(lambda v: implies(v in reserved_syntax_strings, allocated(reserved_syntax_strings[v])), kinds=dict(v="str"))',
                   'len(label) >= 1', 'label[0] == "\'" or label[0] == "\\""',
                   'not label.startswith("\'\'\'")', 'not label.startswith("\\"\\"\\"")',
                   'forall(lambda v: implies(v in reserved_syntax_strings, reserved_syntax_strings[v] is not None and '
                   'reserved_syntax_strings[v].value == v), kinds=dict(v="str"))'],
         ensures=['result is not None', 'literal_value(label) in reserved_syntax_strings',
                  'result is reserved_syntax_strings[literal_value(label)]', 'result.value == literal_value(label)',
                  'implies(old(literal_value(label) in reserved_syntax_strings), result is old(reserved_syntax_strings[literal_value(label)]))',
                  'forall(lambda v: implies(v != literal_value(label), (v in reserved_syntax_strings) == old(v in reserved_syntax_strings) and '
                  'implies(v in reserved_syntax_strings, reserved_syntax_strings[v] is old(reserved_syntax_strings[v]))), kinds=dict(v="str"))',
                  'forall(lambda v: implies(v in reserved_syntax_strings, reserved_syntax_strings[v] is not None and '
                  'reserved_syntax_strings[v].value == v), kinds=dict(v="str"))'],
         raises=['ValueError', 'SyntaxError'], modifies=['value', '$maps'], lists=[], props=['C08'])
