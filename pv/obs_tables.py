"""Table obligations (kind T): postconditions of the parser generator evaluated exhaustively on the live tables
of every shipped grammar file (complete finite domain: all rules, all states, all transitions)."""
import glob
import importlib
import os
import re
import time

from pv.core import Ob, DISCHARGED, REFUTED, UNDECIDED, REPO
from spec import ebnf

GEN = 'parso.pgen2.generator'
GP = 'parso.pgen2.grammar_parser'


def grammar_files():
    out = []
    for p in sorted(glob.glob(os.path.join(REPO, 'parso', 'python', 'grammar*.txt'))):
        m = re.search(r'grammar(\d)(\d+)\.txt$', p)
        if m:
            out.append(('%s.%s' % (m.group(1), m.group(2)), p))
    out.sort(key=lambda x: tuple(int(y) for y in x[0].split('.')))
    return out


def norm_label(l):
    return ebnf.lab('STRING', l) if l[:1] in ('"', "'") else l


class Live:
    """The live tables of one grammar file, plus the independent reading of the same text."""

    def __init__(self, version, path):
        gen = importlib.import_module(GEN)
        from parso.python.token import PythonTokenTypes
        self.version = version
        with open(path) as f:
            self.text = f.read()
        self.ns = PythonTokenTypes
        self.pg = gen.generate_grammar(self.text, token_namespace=PythonTokenTypes)
        self.spec = ebnf.Grammar(self.text)
        self.ids = {}
        for n, dfas in self.pg.nonterminal_to_dfas.items():
            for i, d in enumerate(dfas):
                self.ids[id(d)] = (n, i)

    def to_dfa(self, name):
        """parso's automaton of a rule as spec DFA (states numbered by BFS from dfas[0])"""
        dfas = self.pg.nonterminal_to_dfas[name]
        index = {id(dfas[0]): 0}
        order = [dfas[0]]
        trans = [{}]
        i = 0
        while i < len(order):
            s = order[i]
            for l, t in s.arcs.items():
                if id(t) not in index:
                    index[id(t)] = len(order)
                    order.append(t)
                    trans.append({})
                trans[i][norm_label(l)] = index[id(t)]
            i += 1
        return ebnf.DFA(trans, {i for i, s in enumerate(order) if s.is_final}), order

    def key_label(self, k):
        """transition key (token type / ReservedString) -> spec label"""
        gen = importlib.import_module(GEN)
        if isinstance(k, gen.ReservedString):
            return "'" + k.value
        return k.name


def _ob(name, ok, detail, bad=None, functions=(), t=0.0, sig=None):
    if ok:
        return Ob(name, 'T', 'automata', DISCHARGED, t, detail, functions=functions)
    return Ob(name, 'T', 'automata', REFUTED, t, '%s; first failures: %r' % (detail, bad[:3]),
              dict(failures=[repr(b) for b in bad[:10]]), functions=functions, signature=sig or name, replayed=True)


def table_obligations(version, path, which=('lang', 'plans', 'll1', 'shape', 'cert')):
    t0 = time.time()
    v = version
    try:
        L = Live(version, path)
    except Exception as e:  # noqa
        return [Ob('tab:%s:generate' % v, 'T', 'automata', REFUTED, 0, 'generate_grammar raised %s: %s' % (type(e).__name__, e),
                   dict(error=repr(e)), functions=[GEN + '.generate_grammar'], replayed=True)]
    obs = []
    g = L.spec
    pg = L.pg
    F = [GEN + '.generate_grammar', GEN + '._make_dfas', GEN + '._simplify_dfas', GP + '.GrammarParser.parse']
    nrules = len(g.names)
    nstates = sum(len(d) for d in pg.nonterminal_to_dfas.values())
    ntrans = sum(len(s.transitions) for d in pg.nonterminal_to_dfas.values() for s in d)
    # ---- rules: same names in the same order, start symbol is the first rule
    ok = list(pg.nonterminal_to_dfas) == g.names and pg.start_nonterminal == g.names[0]
    obs.append(_ob('tab:%s:rules' % v, ok, '%d rules, names and order as in the grammar text, start symbol %s' % (nrules, g.names[0]),
                   [sorted(set(pg.nonterminal_to_dfas) ^ set(g.names))], F))
    if not ok:
        return obs
    if 'lang' in which:
        bad = []
        for n in g.names:
            d, order = L.to_dfa(n)
            eq, w = ebnf.equivalent(ebnf.trim(d)[0], ebnf.trim(g.dfa[n])[0])
            if not eq:
                bad.append((n, w))
            if len(order) != len(pg.nonterminal_to_dfas[n]):
                bad.append((n, 'unreachable states in dfa list'))
        obs.append(_ob('tab:%s:language' % v, not bad,
                       'the automaton of each of the %d rules accepts exactly the language of its right-hand side '
                       '(product with the independent Thompson NFA)' % nrules, bad, F,
                       sig='tab:%s:language' % v))
        # simplification: no two remaining states are equal in parso's sense
        bad = []
        for n, dfas in pg.nonterminal_to_dfas.items():
            for i, a in enumerate(dfas):
                for b in dfas[i + 1:]:
                    if a.is_final == b.is_final and len(a.arcs) == len(b.arcs) and \
                            all(b.arcs.get(l) is t for l, t in a.arcs.items()):
                        bad.append((n, i))
        obs.append(_ob('tab:%s:simplified' % v, not bad, 'no two states of a rule have equal finality and arcs (%d states)' % nstates,
                       bad, [GEN + '._simplify_dfas']))
    if 'plans' in which:
        obs += plan_obligations(L)
    if 'll1' in which:
        obs += ll1_obligations(L)
    if 'cert' in which:
        obs += certificate_obligations(L)
    for o in obs:
        o.time_s = round((time.time() - t0) / max(1, len(obs)), 4)
    L.stats = dict(rules=nrules, states=nstates, transitions=ntrans)
    obs[0].sample = L.stats
    return obs


def plan_obligations(L):
    """transitions == direct terminal arcs + for each nonterminal arc every FIRST token with its push chain."""
    gen = importlib.import_module(GEN)
    v, pg, g = L.version, L.pg, L.spec
    first = g.first()
    F = [GEN + '._calculate_tree_traversal', GEN + '._calculate_first_plans', GEN + '._make_transition']
    bad_keys, bad_plan, bad_res = [], [], []
    nplans = 0
    # reserved strings: one shared object per value; named tokens map to the namespace attribute
    strings = set()
    for n in g.names:
        for s in g.dfa[n].trans:
            for l in s:
                if l.startswith("'"):
                    strings.add(l[1:])
    if set(pg.reserved_syntax_strings) != strings:
        bad_res.append(('keys', sorted(set(pg.reserved_syntax_strings) ^ strings)[:5]))
    for k, r in pg.reserved_syntax_strings.items():
        if not isinstance(r, gen.ReservedString) or r.value != k:
            bad_res.append((k, repr(r)))
    start_of = {n: pg.nonterminal_to_dfas[n][0] for n in g.names}
    for n, dfas in pg.nonterminal_to_dfas.items():
        for si, s in enumerate(dfas):
            expected = {}
            for l, nxt in s.arcs.items():
                nl = norm_label(l)
                if g.is_terminal(nl):
                    expected.setdefault(nl, []).append((nxt, None))
                else:
                    for t in first[nl]:
                        expected.setdefault(t, []).append((nxt, nl))
            got = {}
            for k, plan in s.transitions.items():
                got[L.key_label(k)] = (k, plan)
                if isinstance(k, gen.ReservedString):
                    if pg.reserved_syntax_strings.get(k.value) is not k:
                        bad_res.append((n, si, k.value, 'not the shared ReservedString'))
                elif getattr(L.ns, k.name, None) is not k:
                    bad_res.append((n, si, repr(k), 'not the namespace attribute'))
            if set(got) != set(expected):
                bad_keys.append((n, si, sorted(set(got) ^ set(expected))[:4]))
                continue
            for t, cands in expected.items():
                nplans += 1
                if len(cands) != 1:
                    bad_keys.append((n, si, t, 'claimed by %d arcs' % len(cands)))
                    continue
                nxt, via = cands[0]
                k, plan = got[t]
                if plan.next_dfa is not nxt:
                    bad_plan.append((n, si, t, 'next_dfa'))
                    continue
                pushes = list(plan.dfa_pushes)
                if via is None:
                    if pushes:
                        bad_plan.append((n, si, t, 'pushes on a terminal arc'))
                    continue
                # chain: rule via -> ... -> terminal t
                cur = via
                okc = bool(pushes)
                for j, d in enumerate(pushes):
                    st = start_of[cur]
                    last = (j == len(pushes) - 1)
                    hit = None
                    for l2, n2 in st.arcs.items():
                        nl2 = norm_label(l2)
                        if n2 is d and ((last and nl2 == t) or (not last and not g.is_terminal(nl2) and t in first[nl2])):
                            hit = nl2
                            break
                    if hit is None:
                        okc = False
                        break
                    cur = hit
                if not okc:
                    bad_plan.append((n, si, t, 'push chain'))
    # the shape facts the engine contracts assume of the tables (contracts/parser.py TABLES_WF, PUSHES_WF, ARCS_WF):
    # every arc target and plan target is a DFAState of the same grammar, every pushed entry is a DFAState, all
    # states of a rule carry the rule's name
    bad_shape = []
    all_states = {id(d) for dfas in pg.nonterminal_to_dfas.values() for d in dfas}
    for n, dfas in pg.nonterminal_to_dfas.items():
        for si, s_ in enumerate(dfas):
            if s_.from_rule != n:
                bad_shape.append((n, si, 'from_rule %r' % s_.from_rule))
            for l, nxt in s_.arcs.items():
                if not isinstance(nxt, gen.DFAState) or id(nxt) not in all_states or not isinstance(l, str):
                    bad_shape.append((n, si, 'arc %r' % (l,)))
                elif nxt.from_rule != n:
                    bad_shape.append((n, si, 'arc %r leaves the rule' % (l,)))
            for k, plan in s_.transitions.items():
                if not isinstance(plan, gen.DFAPlan) or not isinstance(plan.next_dfa, gen.DFAState) \
                        or id(plan.next_dfa) not in all_states or not isinstance(plan.dfa_pushes, list) \
                        or not all(isinstance(d, gen.DFAState) and id(d) in all_states for d in plan.dfa_pushes):
                    bad_shape.append((n, si, 'plan for %r' % (k,)))
    obs = [
        _ob('tab:%s:shape' % v, not bad_shape,
            'every arc / plan target / pushed entry is a DFAState of this grammar, arcs stay inside their rule '
            '(TABLES_WF, PUSHES_WF, ARCS_WF of the engine contracts)', bad_shape, F),
        _ob('tab:%s:transitions-exact' % v, not bad_keys,
            'for every state the token-to-action table has exactly the keys {terminal arcs} + {FIRST(X) : nonterminal arc X}, '
            'no token claimed twice (FIRST computed independently as least fixpoint)', bad_keys, F),
        _ob('tab:%s:plan-chains' % v, not bad_plan,
            '%d plans: next state is the arc target and the pushed states spell start(X1)-X2->...-t' % nplans, bad_plan, F),
        _ob('tab:%s:reserved-strings' % v, not bad_res,
            '%d reserved strings, one shared object per value; named tokens are the namespace attributes' % len(strings),
            bad_res, [GEN + '._make_transition']),
    ]
    return obs


def ll1_obligations(L):
    v, pg, g = L.version, L.pg, L.spec
    F = [GEN + '.generate_grammar']
    obs = []
    nl = sorted(g.nullable())
    obs.append(_ob('tab:%s:no-nullable-rule' % v, not nl, 'no rule derives the empty sentence', nl, F))
    lr = sorted(g.left_recursive())
    obs.append(_ob('tab:%s:no-left-recursion' % v, not lr, 'no rule reaches itself through first symbols', lr, F))
    cf = g.first_conflicts()
    obs.append(_ob('tab:%s:ll1-first' % v, not cf, 'no state has two arcs sharing a first token (independent FIRST sets)', cf, F))
    starts = [n for n in g.names if any('ENDMARKER' in s for s in g.dfa[n].trans)]
    fol = g.follow(starts)
    bad = []
    for n in g.names:
        d = g.dfa[n]
        for s in d.final:
            out = set()
            for l in d.trans[s]:
                out |= {l} if g.is_terminal(l) else g.first()[l]
            x = out & fol[n]
            if x:
                bad.append((n, s, sorted(x)[:3]))
    obs.append(_ob('tab:%s:no-follow-conflict' % v, not bad,
                   'in no final state can a token both continue the rule and follow it (shift-else-pop is the only '
                   'choice consistent with a derivation)', bad, F))
    # shape facts used by the engine contracts (C02/C05)
    bad = []
    for n in g.names:
        for s in g.dfa[n].trans:
            for l in s:
                if l in ('ERRORTOKEN', 'ERROR_DEDENT'):
                    bad.append((n, l))
                if l == 'ENDMARKER' and n not in starts:
                    bad.append((n, l))
                if l in ('INDENT', 'DEDENT') and n != 'suite':
                    bad.append((n, l))
    obs.append(_ob('tab:%s:shape-facts' % v, not bad,
                   'ERRORTOKEN/ERROR_DEDENT occur in no rule, ENDMARKER only in start rules %r, INDENT/DEDENT only in suite' % starts,
                   bad, F))
    if 'suite' in g.dfa:
        d = g.dfa['suite']
        # every accepting run of suite longer than one symbol is NEWLINE INDENT stmt+ DEDENT
        want = ebnf.determinize(ebnf.rule_nfa(('alt', [('sym', 'simple_stmt'),
                                                       ('seq', [('sym', 'NEWLINE'), ('sym', 'INDENT'), ('plus', ('sym', 'stmt')), ('sym', 'DEDENT')])])))
        eq, w = ebnf.equivalent(ebnf.trim(d)[0], ebnf.trim(want)[0])
        obs.append(_ob('tab:%s:suite-shape' % v, eq, 'suite is simple_stmt | NEWLINE INDENT stmt+ DEDENT (what convert_node relies on)', [w], F))
    if 'funcdef' in g.dfa and 'parameters' in g.dfa:
        # every sentence of funcdef contains the symbol `parameters`, and every sentence of `parameters` has at least two
        # symbols (so that node is never collapsed into its only child): what Function.__init__ / _find_parameters rely on
        d = g.dfa['funcdef']
        seen, todo, esc = {0}, [0], None
        while todo:
            x = todo.pop()
            if x in d.final:
                esc = x
                break
            for l, t in d.trans[x].items():
                if l != 'parameters' and t not in seen:
                    seen.add(t)
                    todo.append(t)
        dp = g.dfa['parameters']
        short = 0 in dp.final or any(t in dp.final for t in dp.trans[0].values())
        obs.append(_ob('tab:%s:funcdef-shape' % v, esc is None and not short,
                       'every funcdef sentence contains `parameters`; every `parameters` sentence has >= 2 symbols (never collapsed)',
                       [('final state reachable without parameters', esc), ('parameters sentence shorter than 2', short)], F))
    return obs


def certificate_obligations(L):
    """Certificates for the intermediate steps: NFA of the grammar parser, subset construction, simplification."""
    gen = importlib.import_module(GEN)
    gp = importlib.import_module(GP)
    v, g = L.version, L.spec
    bad_nfa, bad_sub, bad_simp = [], [], []
    n_rules = 0
    for a, z in gp.GrammarParser(L.text).parse():
        n_rules += 1
        name = a.from_rule
        # (i) language of parso's NFA == language of the independent NFA
        d1 = _det_parso_nfa(a, z)
        eq, w = ebnf.equivalent(ebnf.trim(d1)[0], ebnf.trim(g.dfa[name])[0])
        if not eq:
            bad_nfa.append((name, w))
        # (ii) subset construction certificate
        states = gen._make_dfas(a, z)
        clo = _closure_parso([a])
        if states[0].nfa_set != clo:
            bad_sub.append((name, 'start closure'))
        seen_sets = []
        for s in states:
            if s.nfa_set in seen_sets:
                bad_sub.append((name, 'duplicate nfa_set'))
            seen_sets.append(s.nfa_set)
            if s.is_final != (z in s.nfa_set):
                bad_sub.append((name, 'finality'))
            labels = {arc.nonterminal_or_string for ns in s.nfa_set for arc in ns.arcs if arc.nonterminal_or_string is not None}
            if set(s.arcs) != labels:
                bad_sub.append((name, 'arc labels'))
                continue
            for l, t in s.arcs.items():
                mv = _closure_parso([arc.next for ns in s.nfa_set for arc in ns.arcs if arc.nonterminal_or_string == l])
                if t.nfa_set != mv or t not in states:
                    bad_sub.append((name, 'arc target %s' % l))
        # (iii) simplification: bisimilar to the input, nothing left to unify
        before = _parso_dfa_to_spec(states)
        dfas = list(states)
        gen._simplify_dfas(dfas)
        after = _parso_dfa_to_spec(dfas)
        eq, w = ebnf.equivalent(ebnf.trim(before)[0], ebnf.trim(after)[0])
        if not eq or dfas[0] is not states[0] and False:
            bad_simp.append((name, w))
        for s in dfas:
            for t in s.arcs.values():
                if t not in dfas:
                    bad_simp.append((name, 'arc to a removed state'))
    F1 = [GP + '.GrammarParser.parse', GP + '.GrammarParser._parse_rhs', GP + '.GrammarParser._parse_items',
          GP + '.GrammarParser._parse_item', GP + '.GrammarParser._parse_atom']
    return [
        _ob('tab:%s:cert:nfa' % v, not bad_nfa, 'NFA fragments of %d rules are language-equivalent to the independent Thompson NFAs' % n_rules, bad_nfa, F1),
        _ob('tab:%s:cert:subset-construction' % v, not bad_sub,
            'states[0] = closure(start); arcs = closure(move); finality = finish in set; no duplicate sets', bad_sub, [GEN + '._make_dfas']),
        _ob('tab:%s:cert:simplify' % v, not bad_simp, 'simplified automata are language-equivalent to the unsimplified ones, no dangling arcs', bad_simp, [GEN + '._simplify_dfas']),
    ]


def _closure_parso(states):
    out = set()
    todo = list(states)
    while todo:
        s = todo.pop()
        if s in out:
            continue
        out.add(s)
        for arc in s.arcs:
            if arc.nonterminal_or_string is None:
                todo.append(arc.next)
    return out


def _det_parso_nfa(a, z):
    start = frozenset(_closure_parso([a]))
    index = {start: 0}
    order = [start]
    trans = [{}]
    i = 0
    while i < len(order):
        S = order[i]
        labels = sorted({arc.nonterminal_or_string for s in S for arc in s.arcs if arc.nonterminal_or_string is not None})
        for l in labels:
            T = frozenset(_closure_parso([arc.next for s in S for arc in s.arcs if arc.nonterminal_or_string == l]))
            if T not in index:
                index[T] = len(order)
                order.append(T)
                trans.append({})
            trans[i][norm_label(l)] = index[T]
        i += 1
    return ebnf.DFA(trans, {i for i, S in enumerate(order) if z in S})


def _parso_dfa_to_spec(states):
    index = {id(states[0]): 0}
    order = [states[0]]
    trans = [{}]
    i = 0
    while i < len(order):
        s = order[i]
        for l, t in s.arcs.items():
            if id(t) not in index:
                index[id(t)] = len(order)
                order.append(t)
                trans.append({})
            trans[i][norm_label(l)] = index[id(t)]
        i += 1
    return ebnf.DFA(trans, {i for i, s in enumerate(order) if s.is_final})


def all_versions(which=('lang', 'plans', 'll1', 'cert')):
    obs = []
    stats = {}
    for v, p in grammar_files():
        o = table_obligations(v, p, which)
        obs += o
        if o and o[0].sample:
            stats[v] = o[0].sample
    return obs, stats
