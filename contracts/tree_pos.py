"""C03: every end_pos / start_pos implementation against the one spec function advance()."""
from pv.contract import contract, CLASS_INV

# ---- parso.tree.Leaf
contract('parso.tree.Leaf.start_pos', kind='property', params={'self': 'ref:Leaf'}, returns='pos',
         ensures=['result == (self.line, self.column)'], props=['C03'])
contract('parso.tree.Leaf.start_pos', setter=True, params={'self': 'ref:Leaf', 'value': 'pos'},
         ensures=['self.line == value[0]', 'self.column == value[1]'], modifies=['self.line', 'self.column'], props=['C03', 'C19'])
def _leaf_replay(mod, cls):
    # body of check(value, line, column): returns a message when the real end_pos differs from the true end
    return dict(observe={'value': 'self.value', 'line': 'self.line', 'column': 'self.column'},
                script='from %s import %s\nfrom spec.text import advance, breaks\n'
                       'if %s and breaks({value}):\n    return None\n'
                       'l = %s({value}, ({line}, {column}))\ngot = l.end_pos\nexp = advance(({line}, {column}), {value})\n'
                       'return None if got == exp else "end_pos %%r, true end %%r" %% (got, exp)\n'
                       % (mod, cls, 'True' if cls != 'Leaf' else 'False', cls))


contract('parso.tree.Leaf.end_pos', kind='property', params={'self': 'ref:Leaf'}, returns='pos',
         requires=['self is not None'],
         ensures=['result == advance((self.line, self.column), self.value)'], props=['C03'],
         replay=_leaf_replay('parso.tree', 'Leaf'))

# the class invariant of leaves without newlines is established where they are created (convert_leaf, C03 regex
# obligations): the value contains no line break
contract('parso.python.tree._LeafWithoutNewlines.end_pos', kind='property',
         params={'self': 'ref:_LeafWithoutNewlines'}, returns='pos',
         requires=['self is not None', 'breaks(self.value) == 0'],
         ensures=['result == advance((self.line, self.column), self.value)'], props=['C03'],
         replay=_leaf_replay('parso.python.tree', 'Name'))

# ---- prefix parts: value is one match of an alternative of the prefix re-lexer (class invariant, C09 regex
# obligations re:prefix.part.*): either it ends in its only line break, or it contains none
contract('parso.python.prefix.PrefixPart.end_pos', kind='property', params={'self': 'ref:PrefixPart'}, returns='pos',
         requires=['self is not None',
                   'implies(ends_nl(self.value), breaks(self.value) == 1)',
                   'implies(not ends_nl(self.value), breaks(self.value) == 0)'],
         ensures=['implies(not is_bom(self.value), result == advance(self.start_pos, self.value))',
                  'implies(is_bom(self.value), result == self.start_pos)'], props=['C03', 'C09'],
         replay=dict(observe={'value': 'self.value', 'sp': 'self.start_pos', 'typ': 'self.type'},
                     script='from parso.python.prefix import PrefixPart\nfrom spec.text import advance, breaks, BOM\n'
                            'ends = {value}.endswith(("\\n", "\\r"))\n'
                            'if breaks({value}) != (1 if ends else 0):\n    return None\n'
                            'p = PrefixPart(None, {typ}, {value}, start_pos={sp})\ngot = p.end_pos\n'
                            'exp = {sp} if {value} == BOM else advance({sp}, {value})\n'
                            'return None if got == exp else "end_pos %r, true end %r" % (got, exp)\n'))

contract('parso.python.prefix.PrefixPart.__init__',
         params={'self': 'ref:PrefixPart', 'leaf': 'ref:Leaf', 'typ': 'str', 'value': 'str', 'spacing': 'str',
                 'start_pos': 'pos'},
         requires=[],
         ensures=['self.parent is leaf', 'self.type == typ', 'self.value == value', 'self.spacing == spacing',
                  'self.start_pos == start_pos'],
         modifies=['self.parent', 'self.type', 'self.value', 'self.spacing', 'self.start_pos'], props=['C09'])

contract('parso.python.prefix.PrefixPart.create_spacing_part', params={'self': 'ref:PrefixPart'},
         returns='ref:PrefixPart',
         requires=['self is not None', 'breaks(self.spacing) == 0'],
         ensures=['result is not None', 'result.type == "spacing"', 'result.value == old(self.spacing)',
                  'result.parent is old(self.parent)',
                  # the spacing part ends where this part starts
                  'advance(result.start_pos, result.value) == old(self.start_pos)'],
         modifies=['parent', 'type', 'value', 'spacing', 'start_pos'], props=['C03', 'C09'])

# ---- tokens (used by the diff parser)
contract('parso.python.tokenize.Token.end_pos', kind='property', params={'self': 'ref:Token'}, returns='pos',
         props=[])
