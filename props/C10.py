from props.common import run_bounded, add_obs
from pv import obs_regex as R
from pv import obs_tables as T


def _lexemes():
    obs = []
    for v, _ in T.grammar_files():
        obs += R.lexeme_obligations(v)
    return obs


def run(report):
    add_obs(report, _lexemes)
    report.assume("reference for the lexeme obligations: the regex grammar shipped in the running CPython's tokenize "
                  "module (python3-vt = 3.11) and token.EXACT_TOKEN_TYPES; version differences only through ':=' (3.8+)",
                  "stream level: the reference for version V is the tokenize module of CPython V (3.12 in process, the others "
                  "through harness/ref_tokens.py under the interpreters of ~/.pyenv/versions); before 3.12 that module is the "
                  "pure-Python tokenizer, taken as equal to the C tokenizer on programs it reports no ERRORTOKEN for; a version "
                  "without an interpreter (3.14) is not compared (pred_stats counts them)",
                  "A-CHARS: z3's character sort ends at U+2FFFF; range bounds above are clipped (no pattern of parso "
                  "distinguishes characters above that bound from those just below)")
    vs = '3.6,3.8,3.12' if report.tier == 'quick' else '3.6,3.7,3.8,3.9,3.10,3.11,3.12,3.13'
    run_bounded(report, ['stmt'], versions=vs, rnd_versions='3.6,3.7,3.8,3.9,3.10,3.11,3.12,3.13', scale=1.5,
                extra='stdlib60' if report.tier == 'quick' else 'stdlib400')
