"""C04: helpers of the diff parser against the ghost leaf numbering of contracts/tree_nav.py.

_update_positions(nodes, line_offset, last_leaf) moves the copied subtrees to their new lines: exactly the leaves in
source order from the first leaf of nodes[0] up to last_leaf (or to the end of nodes[-1] when last_leaf is not among
them) get `line += line_offset`; no other object's line changes and nothing but `line` is written."""
import z3

from pv.contract import contract, theory, specfn
from pv.values import VRef, I, B

_leaf_at = z3.Function('leaf_at', I, I, I)
_isleaf = z3.Function('$isleaf', I, B)
_lo = z3.Function('lo', I, I)
_root = z3.Function('root', I, I)


@theory('leafnum')
def leafnum_axioms(eng, st):
    """leaf_at(r, k): the leaf number k of the tree rooted at r.  Every leaf is the leaf at its own number (so two
    leaves of one tree with the same number are the same object)."""
    x = z3.Int('x')
    return [z3.ForAll([x], z3.Implies(z3.And(x != 0, _isleaf(x)), _leaf_at(_root(x), _lo(x)) == x), patterns=[_lo(x)])]


@specfn('leaf_at')
def sp_leaf_at(eng, st, r, k):
    return VRef(_leaf_at(r.t, k.t), 'Leaf')


R = 'root(nodes[0])'
FIRST = 'lo(nodes[0])'


def shifted(upto):
    return ('forall(lambda k: implies(%s <= k and k <= %s, leaf_at(%s, k).line == old(leaf_at(%s, k).line) + line_offset), '
            'trigger=lambda k: leaf_at(%s, k))' % (FIRST, upto, R, R, R))


def untouched(upto):
    return ('forall(lambda x: implies(not (x is not None and is_leaf(x) and root(x) is %s and %s <= lo(x) and lo(x) <= %s), '
            'x.line == old(x.line)), kinds=dict(x="ref:Leaf"), trigger=lambda x: x.line)' % (R, FIRST, upto))


SIBLINGS = ['nodes is not None', 'len(nodes) >= 1',
            'nodes[0].parent is not None',
            'forall(lambda k: implies(0 <= k and k < len(nodes), nodes[k] is not None and root(nodes[k]) is root(nodes[0]) and '
            'nodes[k].parent is nodes[0].parent), trigger=lambda k: nodes[k])',
            'forall(lambda k, m: implies(0 <= k and m == k + 1 and m < len(nodes), lo(nodes[m]) == hi(nodes[k]) + 1), '
            'kinds=dict(k="int", m="int"))',
            # (the consequence of the line above that needs induction: every element lies between the ends)
            'forall(lambda k: implies(0 <= k and k < len(nodes), lo(nodes[0]) <= lo(nodes[k]) and '
            'hi(nodes[k]) <= hi(nodes[len(nodes) - 1])), trigger=lambda k: nodes[k])']
LAST = 'hi(nodes[len(nodes) - 1])'
DONE = 'ite(_i == 0, %s - 1, hi(nodes[_i - 1]))' % FIRST


def last_not_in(upto):
    return ('not (last_leaf is not None and is_leaf(last_leaf) and root(last_leaf) is %s and %s <= lo(last_leaf) and '
            'lo(last_leaf) <= %s)' % (R, FIRST, upto))


contract('parso.python.diff._update_positions',
         params={'nodes': 'list:ref:NodeOrLeaf', 'line_offset': 'int', 'last_leaf': 'ref:NodeOrLeaf'},
         requires=SIBLINGS,
         ensures=[shifted(LAST), untouched(LAST),
                  # it returns normally only when last_leaf is not one of the leaves below nodes
                  last_not_in(LAST)],
         raises=['_PositionUpdatingFinished'],
         raises_ensures={'_PositionUpdatingFinished': [
             'last_leaf is not None and is_leaf(last_leaf) and root(last_leaf) is %s' % R,
             '%s <= lo(last_leaf) and lo(last_leaf) <= %s' % (FIRST, LAST),
             shifted('lo(last_leaf)'), untouched('lo(last_leaf)')]},
         loops={0: dict(invariant=[shifted(DONE), untouched(DONE), last_not_in(DONE)], len_stable=True)},
         decreases='height(nodes[0].parent)',
         modifies=['line'], theories=['tree', 'leafnum'], props=['C04'])


# ---- leaf walks of the diff parser: the result is the nearest leaf (in source order, in the given direction, the
# argument included) that is not an indentation error leaf; everything skipped is one; None only at the end of the tree.
IND = "(%s.type == 'error_leaf' and %s.token_type in ('INDENT', 'ERROR_DEDENT', 'DEDENT'))"
DED = "(%s.type == 'error_leaf' and %s.token_type == 'DEDENT')"
contract('parso.python.diff._is_indentation_error_leaf', params={'node': 'ref:Leaf'}, returns='bool',
         requires=['node is not None'], ensures=['result == ' + IND % ('node', 'node')], props=['C04'])

NAVT = dict(theories=['tree'], props=['C04'])
contract('parso.python.diff._get_previous_leaf_if_indentation', params={'leaf': 'ref:Leaf'}, returns='ref:Leaf',
         requires=['implies(leaf is not None, is_leaf(leaf))'],
         ensures=['implies(leaf is None, result is None)',
                  'implies(result is not None, is_leaf(result) and root(result) is root(leaf) and lo(result) <= lo(leaf) and not '
                  + IND % ('result', 'result') + ')'],
         loops={0: dict(invariant=['implies(leaf is not None, is_leaf(leaf) and old(leaf) is not None and root(leaf) is root(old(leaf)) and '
                                   'lo(leaf) <= lo(old(leaf)))', 'implies(old(leaf) is None, leaf is None)'],
                        decreases='ite(leaf is None, 0, lo(leaf) - lo(root(leaf)) + 1)')}, **NAVT)
contract('parso.python.diff._get_next_leaf_if_indentation', params={'leaf': 'ref:Leaf'}, returns='ref:Leaf',
         requires=['implies(leaf is not None, is_leaf(leaf))'],
         ensures=['implies(leaf is None, result is None)',
                  'implies(result is not None, is_leaf(result) and root(result) is root(leaf) and lo(result) >= lo(leaf) and not '
                  + IND % ('result', 'result') + ')'],
         loops={0: dict(invariant=['implies(leaf is not None, is_leaf(leaf) and old(leaf) is not None and root(leaf) is root(old(leaf)) and '
                                   'lo(leaf) >= lo(old(leaf)))', 'implies(old(leaf) is None, leaf is None)'],
                        decreases='ite(leaf is None, 0, hi(root(leaf)) - lo(leaf) + 1)')}, **NAVT)
# EXISTS_ND: some leaf at or before `leaf` is not a DEDENT error leaf (true of every tokenizer output: a DEDENT is never the
# first token); under it the walk finds a leaf, which is the nearest one: everything after it up to `leaf` is a DEDENT
def exists_nd(of):
    return ('exists(lambda q: q is not None and is_leaf(q) and root(q) is root(%s) and lo(q) <= lo(%s) and not %s, '
            'kinds=dict(q="ref:Leaf"))' % (of, of, DED % ('q', 'q')))


def all_ded_between(a, b, rt):
    return ('forall(lambda k: implies(lo(%s) < k and k <= lo(%s), %s), trigger=lambda k: leaf_at(root(%s), k))'
            % (a, b, DED % ('leaf_at(root(%s), k)' % rt, 'leaf_at(root(%s), k)' % rt), rt))


NAVL = dict(theories=['tree', 'leafnum'], props=['C04'])
contract('parso.python.diff._skip_dedent_error_leaves', params={'leaf': 'ref:Leaf'}, returns='ref:Leaf',
         requires=['implies(leaf is not None, is_leaf(leaf))'],
         ensures=['implies(leaf is None, result is None)',
                  'implies(result is not None, is_leaf(result) and root(result) is root(leaf) and lo(result) <= lo(leaf) and not '
                  + DED % ('result', 'result') + ')',
                  # a leaf that is not a DEDENT error leaf is returned itself
                  'implies(leaf is not None and not ' + DED % ('leaf', 'leaf') + ', result is leaf)',
                  # it is the nearest one, and it exists whenever there is one at all
                  'implies(result is not None, %s)' % all_ded_between('result', 'leaf', 'leaf'),
                  'implies(leaf is not None and %s, result is not None)' % exists_nd('leaf')],
         loops={0: dict(invariant=['implies(leaf is not None, is_leaf(leaf) and old(leaf) is not None and root(leaf) is root(old(leaf)) and '
                                   'lo(leaf) <= lo(old(leaf)))', 'implies(old(leaf) is None, leaf is None)',
                                   'implies(old(leaf) is not None and not ' + DED % ('old(leaf)', 'old(leaf)') + ', leaf is old(leaf))',
                                   'implies(leaf is not None, %s)' % all_ded_between('leaf', 'old(leaf)', 'old(leaf)'),
                                   'implies(leaf is None and old(leaf) is not None, not %s)' % exists_nd('old(leaf)'),
                                   'implies(leaf is not None and %s, %s)' % (exists_nd('old(leaf)'), exists_nd('leaf'))],
                        decreases='ite(leaf is None, 0, lo(leaf) - lo(root(leaf)) + 1)')}, **NAVL)


# ---- C11: PythonBaseNode.get_name_of_position: the first name leaf (in source order) below self whose range contains the
# position, None when there is none.  Stated over the leaf numbering: leaf_at(root, k) for lo(self) <= k <= hi(self).
def _name_at(x):
    return "(%s.type == 'name' and spos(%s) <= position and position <= epos(%s))" % (x, x, x)


def _none_before(upto):
    return ('forall(lambda k: implies(lo(self) <= k and k < %s, not %s), trigger=lambda k: leaf_at(root(self), k))'
            % (upto, _name_at('leaf_at(root(self), k)')))


NP = dict(theories=['tree', 'treepos', 'leafnum'], props=['C11'])
contract('parso.python.tree.PythonMixin.get_name_of_position',
         params={'self': 'ref:NodeOrLeaf', 'position': 'pos'}, returns='ref:Leaf',
         requires=['self is not None', 'not is_leaf(self)',
                   # PYTREE: every interior node of a tree built by the Python parser carries PythonMixin, i.e. is a
                   # PythonBaseNode, PythonNode or PythonErrorNode (T obligation cls:python-tree-classes over node_map /
                   # default_node / PythonErrorNode)
                   'forall(lambda x: implies(x is not None and not is_leaf(x), '
                   'isinstance(x, (PythonBaseNode, PythonNode, PythonErrorNode))), '
                   'kinds=dict(x="ref:NodeOrLeaf"))'],
         ensures=['implies(result is not None, is_leaf(result) and root(result) is root(self) and lo(self) <= lo(result) and '
                  'lo(result) <= hi(self) and ' + _name_at('result') + ')',
                  # it is the first one: no name leaf before it contains the position; none at all when the result is None
                  'implies(result is not None, %s)' % _none_before('lo(result)'),
                  'implies(result is None, %s)' % _none_before('hi(self) + 1')],
         loops={0: dict(invariant=[_none_before('ite(_i == nch(self), hi(self) + 1, lo(child(self, _i)))')], len_stable=True)},
         decreases='height(self)', **NP)


# ---- _ends_with_newline: looks at the nearest leaf that is not a DEDENT error leaf (it exists under EXISTS_ND): true iff
# that leaf is a newline (or an error leaf made of a NEWLINE token), or the given suffix ends in a line break
def _is_nl(x):
    return "((%s.type == 'error_leaf' and %s.token_type.lower() == 'newline') or (%s.type != 'error_leaf' and %s.type == 'newline'))" % (x, x, x, x)


NEAREST_NL = ('exists(lambda q: q is not None and is_leaf(q) and root(q) is root(leaf) and lo(q) <= lo(leaf) and not %s and %s and %s, '
              'kinds=dict(q="ref:Leaf"))' % (DED % ('q', 'q'), all_ded_between('q', 'leaf', 'leaf'), _is_nl('q')))
contract('parso.python.diff._ends_with_newline', params={'leaf': 'ref:Leaf', 'suffix': 'str'}, returns='bool',
         requires=['leaf is not None', 'is_leaf(leaf)', exists_nd('leaf')],
         ensures=['result == (%s or suffix.endswith("\\n") or suffix.endswith("\\r"))' % NEAREST_NL],
         **NAVL)


# ---- _get_last_line: the last line a copied node occupies.  Preconditions (assumed of the diff parser's callers): the
# node is followed by another leaf (the endmarker at least), EXISTS_ND for its last leaf.
LL = 'leaf_at(root(node_or_leaf), hi(node_or_leaf))'
NXT = 'leaf_at(root(node_or_leaf), hi(node_or_leaf) + 1)'
LL_ENDS_NL = NEAREST_NL.replace('root(leaf)', 'root(node_or_leaf)').replace('lo(leaf)', 'hi(node_or_leaf)')
contract('parso.python.diff._get_last_line', params={'node_or_leaf': 'ref:NodeOrLeaf'}, returns='int',
         requires=['node_or_leaf is not None', 'hi(node_or_leaf) < hi(root(node_or_leaf))',
                   'forall(lambda l: implies(l is not None and is_leaf(l) and root(l) is root(node_or_leaf) and lo(l) == hi(node_or_leaf), %s), '
                   'kinds=dict(l="ref:Leaf"))' % exists_nd('l')],
         # the line of the last leaf when the text up to there ends in a newline leaf; otherwise the line its text ends on,
         # plus one when only the endmarker follows and its prefix holds a line feed
         # (a line break: '\\n' or a bare '\\r' -- from the property, not from the code, which tested '\\n' only until the
         # fix recorded in known_findings.json)
         ensures=['implies(%s, result == spos(%s)[0])' % (LL_ENDS_NL, LL),
                  # ... the statement reaches to the end marker: its last line is the end marker's line
                  'implies(not %s and %s.type == "endmarker" and ("\\n" in %s.prefix or "\\r" in %s.prefix), result == spos(%s)[0])'
                  % (LL_ENDS_NL, NXT, NXT, NXT, NXT),
                  'implies(not %s and not (%s.type == "endmarker" and ("\\n" in %s.prefix or "\\r" in %s.prefix)), result == epos(%s)[0])'
                  % (LL_ENDS_NL, NXT, NXT, NXT, LL)],
         theories=['tree', 'treepos', 'leafnum'], props=['C04'])


# ---- C04: the copy conditions of the diff parser, helper by helper.  Each postcondition says in the grammar's terms when
# old nodes may be reused.
FLOW_RULES = "('if_stmt', 'while_stmt', 'for_stmt', 'try_stmt')"
STACK_NN = ('forall(lambda k: implies(0 <= k and k < len(stack), stack[k] is not None and stack[k].dfa is not None and '
            'stack[k].nodes is not None), trigger=lambda k: stack[k])')
NO_FLOW = lambda upto: ('forall(lambda k: implies(0 <= k and k < %s, not (stack[k].dfa.from_rule in %s)), '  # noqa: E731
                        'trigger=lambda k: stack[k])' % (upto, FLOW_RULES))
# no compound statement whose continuation (elif / else / except / finally) may still come is open on the parser stack
contract('parso.python.diff._flows_finished', params={'pgen_grammar': 'any', 'stack': 'list:ref:StackNode'}, returns='bool',
         requires=['stack is not None', STACK_NN],
         ensures=['result == ' + NO_FLOW('len(stack)')],
         loops={0: dict(invariant=[NO_FLOW('_i')])}, modifies=[], lists=[], props=['C04'])

# a class or function definition -- possibly decorated, possibly async, in the nesting the grammar gives them
# (decorated: decorators (classdef | funcdef | async_funcdef); async_funcdef / async_stmt: 'async' <stmt>) -- whose body is an
# indented suite and not a one-line body
INNER1 = "ite(node.type == 'decorated', node.children[len(node.children) - 1], node)"


def _inner2(n1):
    return "ite(%s.type in ('async_funcdef', 'async_stmt'), %s.children[len(%s.children) - 1], %s)" % (n1, n1, n1, n1)


DEFN = _inner2('(' + INNER1 + ')')
contract('parso.python.diff._func_or_class_has_suite', params={'node': 'ref:BaseNode'}, returns='bool',
         requires=['node is not None', 'not is_leaf(node)', 'node.children is not None', 'len(node.children) >= 1',
                   # grammar shape of the wrappers (C05): the wrapped statement is a node with children
                   'forall(lambda n: implies(n is not None and not is_leaf(n), n.children is not None and len(n.children) >= 1 and '
                   'n.children[len(n.children) - 1] is not None), kinds=dict(n="ref:BaseNode"), trigger=lambda n: n.children)',
                   "forall(lambda n: implies(n is not None and n.type in ('decorated', 'async_funcdef', 'async_stmt'), "
                   "not is_leaf(n) and not is_leaf(n.children[len(n.children) - 1])), kinds=dict(n='ref:BaseNode'), trigger=lambda n: n.children)",
                   "forall(lambda n: implies(n is not None and n.type in ('classdef', 'funcdef'), not is_leaf(n)), "
                   "kinds=dict(n='ref:BaseNode'), trigger=lambda n: n.children)"],
         ensures=["result == ((%s).type in ('classdef', 'funcdef') and "
                  "(%s).children[len((%s).children) - 1].type == 'suite')" % (DEFN, DEFN, DEFN)],
         modifies=[], lists=[], theories=['tree'], props=['C04'])

# the statements parsed so far may be closed and old nodes copied after them: no open flow statement, and the innermost
# open decorator / suite decides: a pending decorator forbids it, a suite needs a statement besides its NEWLINE; at
# file_input level (neither on the stack) it is always allowed
DEC_OR_SUITE = "(stack[%s].dfa.from_rule == 'decorator' or stack[%s].dfa.from_rule == 'suite')"


def _innermost(j):
    return ('0 <= %s and %s < len(stack) and %s and forall(lambda m: implies(%s < m and m < len(stack), not %s), '
            'trigger=lambda m: stack[m])' % (j, j, DEC_OR_SUITE % (j, j), j, DEC_OR_SUITE % ('m', 'm')))


contract('parso.python.diff._suite_or_file_input_is_valid', params={'pgen_grammar': 'any', 'stack': 'list:ref:StackNode'},
         returns='bool', requires=['stack is not None', STACK_NN],
         ensures=['implies(not ' + NO_FLOW('len(stack)') + ', not result)',
                  'implies(' + NO_FLOW('len(stack)') + ' and forall(lambda j: implies(0 <= j and j < len(stack), not ' + DEC_OR_SUITE % ('j', 'j') +
                  '), trigger=lambda j: stack[j]), result)',
                  'forall(lambda j: implies(' + NO_FLOW('len(stack)') + ' and ' + _innermost('j') + ', '
                  "result == (stack[j].dfa.from_rule == 'suite' and len(stack[j].nodes) > 1)), trigger=lambda j: stack[j])"],
         loops={0: dict(invariant=[NO_FLOW('len(stack)'),
                                   'forall(lambda m: implies(len(stack) - _i <= m and m < len(stack), not ' + DEC_OR_SUITE % ('m', 'm') +
                                   '), trigger=lambda m: stack[m])'])},
         modifies=[], lists=[], props=['C04'])

# a compound statement that carries flow (if / for / while / try / with, also behind 'async'): its first leaf is one of these
# keywords; a node whose first child has no value (an interior node) is none
contract('parso.python.diff._is_flow_node', params={'node': 'ref:BaseNode'}, returns='bool',
         requires=['node is not None', 'not is_leaf(node)', 'node.children is not None', 'len(node.children) >= 1',
                   'node.children[0] is not None',
                   "implies(node.type == 'async_stmt', len(node.children) >= 2 and node.children[1] is not None and "
                   "not is_leaf(node.children[1]) and node.children[1].children is not None and len(node.children[1].children) >= 1 "
                   "and node.children[1].children[0] is not None)"],
         ensures=["implies(node.type != 'async_stmt', result == (is_leaf(node.children[0]) and "
                  "node.children[0].value in ('if', 'for', 'while', 'try', 'with')))",
                  "implies(node.type == 'async_stmt', result == (is_leaf(node.children[1].children[0]) and "
                  "node.children[1].children[0].value in ('if', 'for', 'while', 'try', 'with')))"],
         modifies=[], lists=[], theories=['tree'], props=['C04'])

# ---- DiffParser._get_old_line_stmt: the statement of the old tree that may be copied for a line: a child of file_input or
# of a suite, in the old module, that does not start before that line and contains the leaf found for (line, 0) -- the leaf
# after it when that one is a line break.
from pv.contract import class_fields  # noqa: E402
class_fields('DiffParser', _module='ref:Module')
FG = 'fge(self._module, (old_line, 0))'
contract('parso.python.diff.DiffParser._get_old_line_stmt', params={'self': 'ref:DiffParser', 'old_line': 'int'},
         returns='ref:NodeOrLeaf',
         requires=['self is not None', 'self._module is not None', 'not is_leaf(self._module)', 'self._module.parent is None',
                   'self._module.type == "file_input"', 'old_line >= 1', '(old_line, 0) <= epos(self._module)',
                   # assumed of the old tree (tokenizer / parser facts): every leaf has a non-DEDENT leaf at or before it, and a
                   # leaf that ends a line is never the last one (the end marker follows)
                   'forall(lambda l: implies(l is not None and is_leaf(l) and root(l) is self._module, %s), kinds=dict(l="ref:Leaf"))'
                   % exists_nd('l'),
                   'forall(lambda l: implies(l is not None and is_leaf(l) and root(l) is self._module and %s, '
                   'lo(l) < hi(self._module)), kinds=dict(l="ref:Leaf"))' % NEAREST_NL.replace('(leaf)', '(l)')],
         ensures=['implies(result is not None, root(result) is self._module and result.parent is not None and '
                  'result.parent.type in ("file_input", "suite") and spos(result)[0] >= old_line)',
                  'implies(result is not None, lo(result) <= lo(%s) + 1 and lo(%s) <= hi(result))' % (FG, FG)],
         raises=['ValueError'],
         loops={0: dict(invariant=['node is not None', 'root(node) is self._module', 'node is not self._module',
                                   'lo(node) <= lo(leaf) and lo(leaf) <= hi(node)'],
                        decreases='depth(node)')},
         modifies=[], lists=[], theories=['tree', 'treepos', 'lookup', 'leafnum'], props=['C04'])


# ---- _NodesTree._remove_endmarker (C04 text conservation at the seam between a parsed part and what follows): if the part
# ends in the parser's synthetic end marker, that leaf is dropped from the nodes, and its prefix is split after the last line
# break: the first part stays the (dropped) leaf's prefix and becomes the working prefix of the tree builder, the rest is
# kept as the remainder -- together they are the prefix the end marker had, nothing is lost or duplicated.
from pv.contract import class_fields as _cf  # noqa: E402
_cf('_NodesTree', _own=True, prefix='str', _prefix_remainder='str')
LASTN = 'tree_nodes[len(tree_nodes) - 1]'
contract('parso.python.diff._NodesTree._remove_endmarker', params={'self': 'ref:_NodesTree', 'tree_nodes': 'list:ref:NodeOrLeaf'},
         returns='list:ref:NodeOrLeaf',
         requires=['tree_nodes is not None', 'len(tree_nodes) >= 1',
                   'forall(lambda k: implies(0 <= k and k < len(tree_nodes), tree_nodes[k] is not None), trigger=lambda k: tree_nodes[k])'],
         ensures=['implies(old(leaf_at(root(%s), hi(%s)).type) != "endmarker", result is tree_nodes and self.prefix == "" and '
                  'self._prefix_remainder == "")' % (LASTN, LASTN),
                  # text conservation
                  'implies(old(leaf_at(root(%s), hi(%s)).type) == "endmarker", '
                  'self.prefix + self._prefix_remainder == old(leaf_at(root(%s), hi(%s)).prefix))' % (LASTN, LASTN, LASTN, LASTN),
                  'implies(old(leaf_at(root(%s), hi(%s)).type) == "endmarker", '
                  'leaf_at(root(%s), hi(%s)).prefix == self.prefix)' % (LASTN, LASTN, LASTN, LASTN),
                  # (that the remainder holds no line break -- rfind gives the *last* one -- is not stated: neither solver decides it)
                  # the end marker is dropped from the nodes, all others are kept in order
                  'implies(old(leaf_at(root(%s), hi(%s)).type) == "endmarker", len(result) == len(tree_nodes) - 1 and '
                  'forall(lambda k: implies(0 <= k and k < len(result), result[k] is tree_nodes[k]), trigger=lambda k: result[k]))' % (LASTN, LASTN)],
         raises=[], modifies=['prefix', '_prefix_remainder'], lists=[], theories=['tree', 'leafnum'], props=['C04'])
