from props.common import run_bounded, verify_keys, add_obs
from pv import obs_effects as E


KEYS = ['parso.python.parser.Parser._recovery_tokenize', 'parso.python.parser.Parser.__init__',
        'parso.parser.BaseParser.__init__', 'parso.parser.BaseParser.error_recovery', 'parso.python.parser.Parser.error_recovery#strict',
        'parso.parser.BaseParser._add_token',
        'parso.parser.ParserSyntaxError.__init__']


def run(report):
    verify_keys(report, KEYS)
    add_obs(report, E.c07_obligations)
    report.assume("M-2RUN: the self-composition step (both modes are in the same state up to the first non-shared call "
                  "of error_recovery) is a paper argument over the discharged frame obligations",
                  "effect analysis pv/effects.py: name-based call graph with arity filter; dynamic dispatch table in "
                  "pv/obs_effects.py (A-DISPATCH)")
    run_bounded(report, ['stmt', 'blk'])
