from props.common import run_bounded, verify_keys, add_obs
from pv import obs_classes as C

KEYS = [
    'parso.python.tree._StringComparisonMixin.__eq__',
    'parso.tree.NodeOrLeaf.get_root_node', 'parso.tree.NodeOrLeaf.get_next_sibling',
    'parso.tree.NodeOrLeaf.get_previous_sibling', 'parso.tree.NodeOrLeaf.get_next_leaf',
    'parso.tree.NodeOrLeaf.get_previous_leaf', 'parso.tree.Leaf.get_first_leaf', 'parso.tree.Leaf.get_last_leaf',
    'parso.tree.BaseNode.get_first_leaf', 'parso.tree.BaseNode.get_last_leaf', 'parso.tree.NodeOrLeaf.search_ancestor',
    'parso.tree.BaseNode.get_leaf_for_position', 'parso.tree.BaseNode.get_leaf_for_position.binary_search',
    'parso.python.tree.PythonMixin.get_name_of_position',
    # parent links set by the constructors (with their frame: nobody else is re-parented)
    'parso.tree.BaseNode.__init__', 'parso.python.tree.Param.__init__',
]


def run(report):
    verify_keys(report, KEYS)
    add_obs(report, C.python_tree_class_obligations)      # PYTREE, assumed by get_name_of_position
    report.assume("TREE-WF: one well-formed tree with in-order leaf numbering (ghost theory of contracts/tree_nav.py), ghost "
                  "positions spos/epos, leaf_at (a leaf is the leaf at its own number); PYTREE: interior nodes carry PythonMixin "
                  "(T obligation cls:python-tree-classes)")
    run_bounded(report, 'parse')
