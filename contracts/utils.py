"""parso.utils contracts (C15)."""
from pv.contract import contract

# str input is returned unchanged (bytes input: decoding through the cookie regex obligations + trusted str(bytes, enc))
contract('parso.utils.python_bytes_to_unicode', params={'source': 'str', 'encoding': 'str', 'errors': 'str'},
         returns='str', ensures=['result == source'], props=['C15', 'C01'])


# ---- bytes input (C15): which codec is used, and what happens when it does not exist.  decode(b, codec, errors) stands for
# the codec machinery (str(b, codec, errors), external); has_cookie(b) / cookie_name(b) are the PEP 263 reading of the first
# two lines -- that the regex in detect_encoding computes exactly them is the pair of RegLan obligations
# re:utils.cookie:only-where-pep263-allows / none-missed (imported below as a fact about a match of that regex).
import z3  # noqa: E402
from pv.contract import specfn  # noqa: E402
from pv.values import VStr, VBool, S, B  # noqa: E402

_dec = z3.Function('$decode', S, S, S, S)
_known = z3.Function('$known_codec', S, B)
_hasc = z3.Function('has_cookie', S, B)
_cname = z3.Function('cookie_name', S, S)


@specfn('decode')
def sp_decode(eng, st, b, enc, err):
    return VStr(_dec(b.t, enc.t, err.t))


@specfn('known_codec')
def sp_known(eng, st, enc):
    return VBool(_known(enc.t))


@specfn('has_cookie')
def sp_hasc(eng, st, b):
    return VBool(_hasc(b.t))


@specfn('cookie_name')
def sp_cname(eng, st, b):
    return VStr(_cname(b.t), b=True)


_nname = z3.Function('normal_name', S, S)


@specfn('normal_name')
def sp_nname(eng, st, e):
    """CPython's get_normal_name: utf-8 / latin-1 spellings with an optional end-of-line suffix -> the codec's name"""
    return VStr(_nname(e.t))


# _get_normal_name (added by the fix that aligned the declared name with CPython's get_normal_name): str.lower / replace
# are outside the subset -- ASSUMED to compute the uninterpreted normal_name; compared with tokenize.detect_encoding on every
# codec alias of the registry by the bounded part of the check
contract('parso.utils._get_normal_name', params={'orig_enc': 'str'}, returns='str', trusted=True, modifies=[], lists=[],
         ensures=['result == normal_name(orig_enc)'],
         note='ASSUMED: a pure function of the declared name (CPython get_normal_name); validated bounded against tokenize.detect_encoding '
              'on every alias of the codec registry with spelling variants and end-of-line suffixes')
BOM8 = 'source.startswith(b"\\xef\\xbb\\xbf")'
ENC = ('ite(%s, "utf-8", ite(has_cookie(source), normal_name(decode(cookie_name(source), "ascii", "replace")), encoding))' % BOM8)
COOKIE_FACT = {'<literal>': ['matched == has_cookie(s)', 'implies(matched, g1 == cookie_name(s))']}
contract('parso.utils.python_bytes_to_unicode.detect_encoding', closure_of='parso.utils.python_bytes_to_unicode',
         params={}, free={'source': 'bytes', 'encoding': 'str'}, returns='str',
         ensures=['result == ' + ENC], match_facts=COOKIE_FACT, props=['C15'])
contract('parso.utils.python_bytes_to_unicode#bytes', params={'source': 'bytes', 'encoding': 'str', 'errors': 'str'}, returns='str',
         ensures=['implies(known_codec(%s), result == decode(source, %s, errors))' % (ENC, ENC),
                  # an unknown codec name (e.g. from a declaration like `# coding: foo-8`) falls back to UTF-8 only when the
                  # caller asked for errors="replace"
                  'implies(not known_codec(%s), errors == "replace" and result == decode(source, "utf-8", errors))' % ENC],
         raises=['LookupError', 'UnicodeDecodeError'],
         exc_ensures={'LookupError': 'not known_codec(%s) and errors != "replace"' % ENC, 'UnicodeDecodeError': 'errors == "strict"'},
         match_facts=COOKIE_FACT, props=['C15'])
