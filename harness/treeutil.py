"""Own tree walking for oracles (never uses parso's navigation API, which is itself under check)."""
import os
import sys
import traceback

REPO = os.environ.get('PARSO_REPO', '/repo')


def leaves_of(node):
    out = []
    stack = [node]
    while stack:
        n = stack.pop()
        ch = getattr(n, 'children', None)
        if ch is None:
            out.append(n)
        else:
            stack.extend(reversed(ch))
    return out


def nodes_of(node):
    """All nodes and leaves, pre-order."""
    out = []
    stack = [node]
    while stack:
        n = stack.pop()
        out.append(n)
        ch = getattr(n, 'children', None)
        if ch is not None:
            stack.extend(reversed(ch))
    return out


def is_leaf(n):
    return not hasattr(n, 'children')


def is_zero_width(leaf):
    return leaf.value == '' and leaf.prefix == '' and leaf.type != 'endmarker'


def is_error(n):
    return n.type in ('error_node', 'error_leaf')


def crash_signature(exc, tb=None):
    """ExcType@<qualified function>:<source line> of the innermost frame inside parso."""
    tb = tb or exc.__traceback__
    frames = traceback.extract_tb(tb)
    site = None
    for fr in frames:
        fn = fr.filename.replace('\\', '/')
        if '/parso/' in fn and '/verif/' not in fn:
            site = fr
    if site is None:
        site = frames[-1] if frames else None
    if site is None:
        return type(exc).__name__
    mod = site.filename.replace('\\', '/').split('/parso/')[-1]
    return '%s@parso/%s:%s:%s' % (type(exc).__name__, mod, site.name, (site.line or '').strip())


class Fail:
    __slots__ = ('ob', 'sig', 'detail', 'inp')

    def __init__(self, ob, sig, detail, inp=None):
        self.ob, self.sig, self.detail, self.inp = ob, sig, detail, inp

    def to_json(self):
        return dict(ob=self.ob, sig=self.sig, detail=self.detail[:600], inp=self.inp)
