from props.common import verify_keys, add_obs, declared_bounded, ASSUME_BOUNDED
from pv import bounded as B
from pv import obs_tables as T


def _tables():
    obs, stats = T.all_versions(which=('plans', 'll1'))
    return obs


def run(report):
    add_obs(report, _tables)
    verify_keys(report, ['parso.parser._token_to_transition', 'parso.python.parser.Parser.__init__', 'parso.parser.BaseParser.__init__',
                         'parso.python.parser.Parser.convert_leaf',
                         # the engine step is the table step (invariants of the push loop), one leaf per token
                         'parso.parser.BaseParser._add_token', 'parso.parser.BaseParser._pop', 'parso.parser.StackNode.__init__'])
    report.assume("M-LL1: tables satisfying plan-chain, FIRST-exactness, no-nullable and no-FOLLOW-conflict plus the "
                  "engine's stack invariant imply that every derivation is accepted and rebuilt (standard LL(1) argument "
                  "over the specification, not machine-checked)",
                  "engine stack invariant (I_stack) is not discharged deductively: the derivation-level claim rests on the "
                  "bounded stand-in below")
    tier = report.tier
    res = B.run_script('harness.c06_run', ['--versions', '3.6,3.8,3.10,3.12,3.14' if tier == 'quick' else
                                          '3.6,3.7,3.8,3.9,3.10,3.11,3.12,3.13,3.14',
                                          '--variants', '1' if tier == 'quick' else '3', '--pairs'])
    names = ['bnd:C06.strict_accepts', 'bnd:C06.tree_is_derivation', 'bnd:C06.recovering_identical', 'bnd:C06.tokenize', 'bnd:C06.lexemes']
    B.bounded_obligations(report, 'C06', names, res, functions=['parso.grammar.Grammar.parse', 'parso.parser.BaseParser.parse',
                                                                 'parso.parser.BaseParser._add_token', 'parso.parser.BaseParser._pop'])
    report.bounded['exhaustive'] = False
    report.extra['derivations'] = res['per_version']
    report.assume(ASSUME_BOUNDED)
