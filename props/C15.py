from props.common import verify_keys, add_obs, ASSUME_BOUNDED
from pv import bounded as B
from pv import obs_regex as R


def run(report):
    add_obs(report, R.cookie_obligations)
    verify_keys(report, ['parso.utils.python_bytes_to_unicode', 'parso.utils.python_bytes_to_unicode#bytes',
                         'parso.utils.python_bytes_to_unicode.detect_encoding'])
    report.assume("bytes input: which codec is used (BOM first, then the PEP 263 declaration, then the caller's default) and the "
                  "fallback for an unknown codec name are proved with decode(bytes, codec, errors) standing for the external codec "
                  "machinery and has_cookie / cookie_name for the PEP 263 reading; that the regex in detect_encoding computes exactly "
                  "that reading is imported from the RegLan obligations re:utils.cookie:* (bytes are modelled one character per byte)",
                  "A-BUILTIN: str(bytes, encoding, errors), str.splitlines(True) and re.split are trusted; the two "
                  "split_lines modes are decided by the exhaustive bounded stand-in, not by a proof",
                  "cookie obligations are stated for sources without CR (CPython's readline splits on LF only); reference "
                  "patterns cookie_re/blank_re are taken from the running CPython's tokenize module",
                  "regex translation pv/rx.py (re._parser parse tree -> SMT RegLan), decided by z3")
    tier = report.tier
    res = B.run_script('harness.c15_run', ['--n', '4' if tier == 'quick' else '6', '--k', '4' if tier == 'quick' else '6'])
    names = ['bnd:C15.split_lines.total', 'bnd:C15.split_lines.keepends', 'bnd:C15.split_lines.join',
             'bnd:C15.split_lines.dropends', 'bnd:C15.split_lines.count', 'bnd:C15.decode.same_as_cpython']
    B.bounded_obligations(report, 'C15', names, res, functions=['parso.utils.split_lines', 'parso.utils.python_bytes_to_unicode'])
    report.bounded['exhaustive'] = True
    report.assume(ASSUME_BOUNDED)
