"""Re-run a recorded violation against the current /repo under the test-suite interpreter."""
import json
import os
import subprocess
import sys

from pv.core import VERIF, REPO, VENV_PY


def run(prop, path):
    with open(os.path.join(VERIF, path) if not os.path.isabs(path) else path) as f:
        rec = json.load(f)
    w = rec.get('witness') or {}
    print('obligation:', rec['obligation'])
    print('solver/detail:', (rec.get('solver_output') or '')[:1000])
    if rec['obligation'].startswith('bnd:') and w.get('input') is not None:
        code = ('import sys, json; sys.path.insert(0, %r); sys.setrecursionlimit(3000)\n'
                'from harness import run as R\n'
                'from harness import preds\n'
                'import importlib\n'
                'prop=%r\n'
                'fn = preds.CHECKS.get(prop) or importlib.import_module("harness.preds_"+prop.lower()).check\n'
                'res = fn(%r, %r, dict(repo=%r, extra=""))\n'
                'hit = [f.to_json() for f in res if f.ob == %r]\n'
                'print(json.dumps(hit, indent=1)); sys.exit(1 if hit else 0)\n'
                % (VERIF, prop, w['input'], w.get('version') or '3.10', REPO, rec['obligation']))
        env = dict(os.environ, PYTHONPATH=VERIF + os.pathsep + REPO)
        p = subprocess.run([VENV_PY, '-c', code], env=env, cwd=VERIF)
        print('REPRODUCED' if p.returncode == 1 else 'not reproduced on the current tree')
        return p.returncode
    native = w.get('native_replay')
    if native:
        env = dict(os.environ, PYTHONPATH=VERIF + os.pathsep + REPO)
        p = subprocess.run([VENV_PY, '-c', native], env=env, cwd=VERIF)
        print('REPRODUCED' if p.returncode == 1 else 'not reproduced on the current tree')
        return p.returncode
    print('no failing input recorded for this obligation (no-failing-input-found); witness:', json.dumps(w)[:2000])
    return 0
