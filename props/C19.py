from props.common import run_bounded, verify_keys, add_obs
from pv import obs_classes as C

KEYS = ['parso.python.tree._StringComparisonMixin.__eq__', 'parso.python.tree._StringComparisonMixin.__hash__',
        'parso.tree.Leaf.start_pos.setter', 'parso.tree.Leaf.start_pos', 'parso.tree.Leaf.get_code',
        'parso.tree.BaseNode.get_code', 'parso.tree.BaseNode._get_code_for_children',
        'parso.tree.Leaf.__init__', 'parso.tree.TypedLeaf.__init__', 'parso.tree.ErrorLeaf.__init__',
        'parso.tree.BaseNode.__init__', 'parso.tree.Node.__init__']


def run(report):
    add_obs(report, C.tree_protocol_obligations)
    verify_keys(report, KEYS)
    report.assume("A-BUILTIN: eval(repr(x)) == x for str/int/tuple, pickle preserves slots, __dict__ and cycles",
                  "the recursive text of _format_dump and the splice property of RefactoringNormalizer.visit are decided by "
                  "the bounded stand-in, not by discharged VCs")
    run_bounded(report, ['stmt'], scale=0.5)
