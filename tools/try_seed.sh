#!/bin/sh
# tools/try_seed.sh <dir with patch.diff> <prop> [<prop>...]
# Runs the checks against a scratch copy of /repo's HEAD with the seeded change applied (PARSO_REPO points the checks at
# it), so /repo itself is never touched and concurrent runs are not disturbed.  The scratch copy is removed afterwards.
# (Equivalent to: git -C /repo apply <patch>; ./check ...; git -C /repo checkout -- .)
d="$1"; shift
scr="$(mktemp -d /tmp/pv_seed_XXXXXX)"
trap 'rm -rf "$scr"' EXIT INT TERM
git -C /repo archive HEAD | tar -x -C "$scr" || exit 2
( cd "$scr" && patch -p1 -s < "$d/patch.diff" ) || { echo "patch does not apply"; exit 2; }
cd /verif
for p in "$@"; do
  echo "=== $p on $(basename $d)"
  PARSO_REPO="$scr" PV_OUT_DIR="$scr/out" ./check "$p" --tier "${TIER:-quick}" 2>&1 | grep -E "VIOLATION|KNOWN-FINDING|UNDECIDED|DEGRADED|CHECKER|tier=" | cut -c1-260 | head -${LINES_MAX:-12}
done
