"""C05 bounded stand-in: every non-error node of every parsed tree is a sentence of its rule in the independent
reading of the grammar text; error nodes/leaves only where a statement is expected."""
from harness.treeutil import Fail, crash_signature
from harness import grammar_oracle as GO
from harness.preds import grammar


def check(code, version, env):
    F = []
    try:
        m = grammar(version).parse(code)
    except RecursionError:
        return F
    except Exception as e:  # noqa
        return [Fail('bnd:C05.parse.total', crash_signature(e), '%s: %s' % (type(e).__name__, e), code)]
    g = GO.spec_grammar(env['repo'], version)
    try:
        bad = GO.conformance(g, m)
    except RecursionError:
        return F
    for typ, reason in bad[:3]:
        ob = 'bnd:C05.error_confined' if 'error node/leaf inside' in reason else 'bnd:C05.node_is_sentence'
        sig = 'midfile-missing-newline' if reason.startswith('midfile-missing-newline') else typ
        F.append(Fail(ob, sig, reason, code))
    return F
