"""C15 bounded stand-in.
 (1) split_lines, both modes: exhaustive over all strings of length <= n over an alphabet that contains every
     str.splitlines separator, CR, LF and two ordinary characters; contract clauses of DESIGN 4/C15.
 (2) python_bytes_to_unicode against CPython's tokenize.detect_encoding + decode, for every byte string built from
     <= k atoms of a cookie-oriented alphabet, whenever the reference succeeds.
"""
import argparse
import io
import itertools
import json
import multiprocessing as mp
import os
import sys
import time
import tokenize

sys.path.insert(0, os.path.dirname(os.path.dirname(os.path.abspath(__file__))))
from spec.text import breaks, tail, py_lines, strip_eol  # noqa
from harness.treeutil import crash_signature  # noqa

CH = ['\n', '\r', '\v', '\f', '\x1c', '\x1d', '\x1e', '\x85', '\u2028', '\u2029', 'a', '\xa0', '\x00']
ATOMS = [b'#', b'coding', b':', b'=', b' ', b'utf-8', b'latin-1', b'foo', b'\n', b'\r', b'\xef\xbb\xbf', b'x', b'"', b'\xe9',
         b'\xc3\xa9', b'-*-', b'\t', b'\x0c', b'cp1252']


def check_split(s):
    from parso.utils import split_lines
    out = []
    try:
        k = split_lines(s, keepends=True)
        d = split_lines(s)
    except Exception as e:  # noqa
        return [('bnd:C15.split_lines.total', crash_signature(e), repr(e))]
    ref = py_lines(s)
    if k != ref:
        out.append(('bnd:C15.split_lines.keepends', 'pieces', 'keepends=True gives %r, Python lines are %r' % (k, ref)))
    if ''.join(k) != s:
        out.append(('bnd:C15.split_lines.join', 'join', 'pieces do not join to the input'))
    if d != [strip_eol(x) for x in ref]:
        out.append(('bnd:C15.split_lines.dropends', 'pieces', 'keepends=False gives %r' % (d,)))
    if len(k) != breaks(s) + 1 or len(d) != breaks(s) + 1 or len(k) < 1:
        out.append(('bnd:C15.split_lines.count', 'count', 'line count %d/%d, breaks+1 = %d' % (len(k), len(d), breaks(s) + 1)))
    return out


def work_split(args):
    n, first = args
    fails = {}
    cnt = 0
    for L in range(0, n):
        for tup in itertools.product(CH, repeat=L):
            s = first + ''.join(tup)
            cnt += 1
            for ob, sig, detail in check_split(s):
                fails.setdefault((ob, sig), dict(ob=ob, sig=sig, detail=detail, inp=s, count=0))['count'] += 1
    return cnt, list(fails.values())


def ref_decode(b):
    """Reference decoding.  CPython's source decoder reads lines with universal newlines (a lone CR ends a line; checked
    against compile() by oracle_selfcheck below), while tokenize.detect_encoding's readline only splits at LF: the
    encoding is therefore detected on a copy with lone CRs turned into LFs, the original bytes are decoded."""
    try:
        nb = b.replace(b'\r\n', b'\n').replace(b'\r', b'\n')
        enc, _ = tokenize.detect_encoding(io.BytesIO(nb).readline)
        return b.decode(enc), enc
    except (SyntaxError, LookupError, UnicodeDecodeError):
        return None, None


def check_bytes(b):
    from parso.utils import python_bytes_to_unicode
    exp, enc = ref_decode(b)
    if exp is None:
        return []          # CPython cannot determine the encoding / decode: outside the claim
    try:
        got = python_bytes_to_unicode(b)
    except Exception as e:  # noqa
        return [('bnd:C15.decode.same_as_cpython', 'raises:' + type(e).__name__,
                 'CPython decodes with %s, parso raises %s: %s' % (enc, type(e).__name__, e))]
    if not (b.startswith(b'\xef\xbb\xbf') and got == '\ufeff' + exp) and got == exp:
        # the same bytes through the public entry point: the tree's code is the decoded text (a decoding shortcut in
        # Grammar.parse would not show in python_bytes_to_unicode)
        try:
            import parso
            code = parso.parse(b).get_code()
        except Exception as e:  # noqa
            return [('bnd:C15.decode.same_as_cpython', 'parse-raises:' + type(e).__name__,
                     'python_bytes_to_unicode decodes like CPython (%s) but parse(bytes) raises %s: %s' % (enc, type(e).__name__, e))]
        if code != exp:
            return [('bnd:C15.decode.same_as_cpython', 'parse-differs',
                     'CPython (%s) %r, python_bytes_to_unicode agrees, parse(bytes).get_code() is %r' % (enc, exp[:40], code[:40]))]
    if b.startswith(b'\xef\xbb\xbf') and got == '\ufeff' + exp:
        return []          # parso keeps the BOM character (stated in the property)
    if got != exp:
        kind = 'cookie-outside-comment' if b'coding' in b and not _cookie_in_comment(b) else 'differs'
        return [('bnd:C15.decode.same_as_cpython', kind, 'CPython (%s) %r, parso %r' % (enc, exp[:40], got[:40]))]
    return []


def _cookie_in_comment(b):
    for line in b.splitlines()[:2]:
        i = line.find(b'#')
        if i >= 0 and b'coding' in line[i:]:
            return True
    return False


def structured_sources():
    """first line x terminator x second line x payload: the shapes PEP 263 talks about, with every line terminator"""
    firsts = [b'', b'#!/bin/sh', b' \t', b'# -*- coding: latin-1 -*-', b'x = 1', b'\x0c# c', b'"coding: latin-1"', b'#']
    terms = [b'\n', b'\r\n', b'\r']
    seconds = [b'# coding: latin-1', b'# vim: set fileencoding=cp1252 :', b'x = "coding=latin-1"', b'  #coding:utf-8', b'', b'pass']
    pays = [b'\xc3\xa9', b'\xe9', b'e']
    for f in firsts:
        for t in terms:
            for s2 in seconds:
                for t2 in terms + [b'']:
                    for p in pays:
                        yield f + t + s2 + t2 + (b'y = "' + p + b'"' if t2 else b'')
                        yield f + t + s2 + t2 + p
    # a declaration on line 3 or later (after blank / whitespace-only lines, possibly after a comment line) is not one
    for pre in (b'\n\n', b'\n \n', b'#!/usr/bin/env python\n\n\n', b'\r\n\r\n', b'\n\x0c\n', b' \n\t\n\n'):
        for decl in (b'# -*- coding: latin-1 -*-', b'# coding: no-such-codec', b'#coding=cp1252'):
            for nl in (b'\n', b'\r\n'):
                for p in pays:
                    yield pre + decl + nl + b'y = "' + p + b'"'


def codec_name_sources():
    """a PEP 263 declaration naming every codec alias the registry knows (as spelled there, with '-' for '_', in upper
    case) and the Emacs-style end-of-line suffixes CPython's get_normal_name strips (utf-8-unix, latin-1-dos, ...), on line 1
    or 2, with payload bytes on which the 8-bit code pages differ from each other"""
    import encodings.aliases
    names = set(encodings.aliases.aliases) | set(encodings.aliases.aliases.values())
    names |= {n.replace('_', '-') for n in names}
    for base in ('utf-8', 'utf8', 'latin-1', 'iso-8859-1', 'iso-latin-1', 'iso-8859-15', 'latin_1', 'UTF_8', 'Latin-1'):
        for suf in ('-unix', '-dos', '-mac', '-x', 'x', '-', '-unix-dos'):
            names.add(base + suf)
    names |= {n.upper() for n in list(names) if len(n) < 14}
    # (the last two are pure ASCII that utf-7 / the escape codecs transform: a declared codec matters for ASCII-only files too)
    pays = [b'\xa4\xa6\xbc', b'\xe9', b'\xc3\xa9', b'\xff', b'e', b'+AOk-', b'\\u20ac \\xe9']
    for n in sorted(names):
        try:
            nb = n.encode('ascii')
        except UnicodeEncodeError:
            continue
        for p in pays:
            yield b'# -*- coding: ' + nb + b' -*-\ny = "' + p + b'"\n'
        yield b'#!/bin/sh\n# vim: set fileencoding=' + nb + b' :\ny = "\xa4\xe9"\n'


def oracle_selfcheck():
    """The reference above against the real compiler: for sources `...\\ny = "<payload>"` the value of y after
    exec(compile(bytes)) must be the payload as decoded by the reference.  -> (checked, disagreements)"""
    n = bad = 0
    for b in structured_sources():
        if b'y = "' not in b:
            continue
        exp, enc = ref_decode(b)
        if exp is None:
            continue
        try:
            ns = {}
            exec(compile(b, '<c15>', 'exec'), ns)
        except Exception:  # noqa
            continue
        n += 1
        want = exp[exp.rindex('y = "') + 5:exp.rindex('"')]
        if ns.get('y') != want:
            bad += 1
    return n, bad


def work_structured(_):
    fails = {}
    cnt = 0
    for b in itertools.chain(structured_sources(), codec_name_sources()):
        cnt += 1
        for ob, sig, detail in check_bytes(b):
            fails.setdefault((ob, sig), dict(ob=ob, sig=sig, detail=detail, inp=repr(b), count=0))['count'] += 1
    return cnt, list(fails.values())


def work_bytes(args):
    k, first = args
    fails = {}
    cnt = 0
    for L in range(0, k):
        for tup in itertools.product(ATOMS, repeat=L):
            b = first + b''.join(tup)
            cnt += 1
            for ob, sig, detail in check_bytes(b):
                fails.setdefault((ob, sig), dict(ob=ob, sig=sig, detail=detail, inp=repr(b), count=0))['count'] += 1
    return cnt, list(fails.values())


def main():
    ap = argparse.ArgumentParser()
    ap.add_argument('--n', type=int, default=4)
    ap.add_argument('--k', type=int, default=4)
    ap.add_argument('--out', required=True)
    ap.add_argument('--repo', default='/repo')
    a = ap.parse_args()
    t0 = time.time()
    with mp.Pool(16) as pool:
        r1 = pool.map(work_split, [(a.n, c) for c in CH] + [(1, '')])
        r2 = pool.map(work_bytes, [(a.k, c) for c in ATOMS] + [(1, b'')])
        r2 += pool.map(work_structured, [0])
    fails = {}
    for cnt, fl in r1 + r2:
        for f in fl:
            k = (f['ob'], f['sig'])
            if k in fails:
                fails[k]['count'] += f['count']
                if len(f['inp']) < len(fails[k]['inp']):
                    c = fails[k]['count']
                    fails[k] = f
                    f['count'] = c
            else:
                fails[k] = f
    n1 = sum(c for c, _ in r1)
    n2 = sum(c for c, _ in r2)
    # the str branch and Grammar.parse wiring
    from parso.utils import python_bytes_to_unicode
    assert python_bytes_to_unicode('x\n') == 'x\n'
    oc, obad = oracle_selfcheck()
    if obad:
        fails[('bnd:C15.oracle', 'selfcheck')] = dict(ob='bnd:C15.oracle', sig='selfcheck', count=obad, inp='',
                                                      detail='reference decoder disagrees with compile() on %d of %d sources' % (obad, oc))
    res = dict(prop='C15', evaluations=n1 + n2, distinct_nontrivial=n1 + n2 - 2, failures=list(fails.values()),
               samples=['a\x0c\r\nb\x85', repr(b'# coding: latin-1\n\xe9')], wall_s=round(time.time() - t0, 2),
               scope=dict(split_strings=n1, max_len=a.n, chars=[repr(c) for c in CH], byte_strings=n2, oracle_selfcheck=dict(sources=oc, disagreements=obad), max_atoms=a.k,
                          atoms=[repr(x) for x in ATOMS]),
               rule='split_lines: every string of length <= %d over %d characters (all str.splitlines separators, CR, LF, '
                    'blank, NBSP, a letter, NUL), both modes, against the reference line splitter of spec/text.py; '
                    'decoding: every concatenation of <= %d of %d byte atoms against tokenize.detect_encoding+decode '
                    'of the running CPython whenever that succeeds; every case is distinct by construction'
                    % (a.n, len(CH), a.k, len(ATOMS)), exhaustive=True)
    with open(a.out, 'w') as f:
        json.dump(res, f)


if __name__ == '__main__':
    main()
