#!/usr/bin/env python3
"""Regenerates MANIFEST.json from tools/manifest_table.py (single source of truth for the registry)."""
import json
import os
import sys

here = os.path.dirname(os.path.dirname(os.path.abspath(__file__)))
sys.path.insert(0, os.path.join(here, 'tools'))
import manifest_table as T  # noqa

checks = []
for pid, c in sorted(T.CHECKS.items()):
    checks.append(dict(
        property_id=pid,
        quick_cmd='./check %s --tier quick' % pid,
        thorough_cmd='./check %s --tier thorough' % pid,
        evidence_file='evidence/%s.json' % pid,
        replay_cmd_template='./check %s --replay {path}' % pid,
        engine='pv',
        level_claimed=dict(category=c['category'], text=c['text'], design_ref=c['design_ref']),
        level_note=c['note'],
        technique=c['technique'],
    ))
m = dict(
    version=1,
    setup_cmd='./setup.sh',
    hooks=dict(
        guard='PARSO_VERIF',
        enable='no hooks: contracts are sidecar files bound by qualified name to the source that is re-read from '
               '/repo on every run; nothing in /repo is built or instrumented',
        baseline_off_cmd='cd /repo && /venv/bin/python -m pytest -q -p no:cacheprovider --timeout=900',
        source_commits=[],
        add_only=True),
    engines=[dict(name='pv', path='pv/', serves_properties=sorted(T.CHECKS),
                  kind_free_text='contract-based deductive verifier built here: VC generator over the ast of the real '
                                 'functions (re-read from /repo on every run) + sidecar contracts, discharged by z3/cvc5; '
                                 'exact RegLan queries on the live compiled regexes; exact automata queries on the live '
                                 'generated grammar tables; modular effect (raises/modifies) checker; run-time-checked '
                                 'contracts over exhaustive small scopes as labelled bounded stand-in')],
    checks=checks,
    notes=T.NOTES,
    not_applicable=T.NOT_APPLICABLE,
)
with open(os.path.join(here, 'MANIFEST.json'), 'w') as f:
    json.dump(m, f, indent=1)
    f.write('\n')
try:
    import jsonschema
    jsonschema.validate(m, json.load(open('/root/.vp/MANIFEST.schema.json')))
    print('MANIFEST.json valid,', len(checks), 'checks')
except ImportError:
    print('written (jsonschema not available for validation)')
