"""Mechanical extraction of the real functions from /repo (re-read on every run, never cached on disk).

What the extraction drops (DESIGN 2.2): docstrings, type annotations, LOG.debug/LOG.warning calls.
Nothing else: any construct the VC generator does not support makes the function 'out-of-subset'.
"""
import ast
import hashlib
import os

from pv.core import REPO

_mod_cache = {}


class BindingError(Exception):
    """The contract no longer binds to the source (renamed function, changed loop count...)."""


def module_path(modname):
    rel = modname.replace('.', os.sep)
    p = os.path.join(REPO, rel + '.py')
    if os.path.exists(p):
        return p
    p = os.path.join(REPO, rel, '__init__.py')
    if os.path.exists(p):
        return p
    raise BindingError('module %s not found under %s' % (modname, REPO))


def module_ast(modname):
    if modname not in _mod_cache:
        p = module_path(modname)
        with open(p, encoding='utf-8') as f:
            src = f.read()
        _mod_cache[modname] = (ast.parse(src, p), src, p)
    return _mod_cache[modname]


def _split_qualname(qual):
    """'parso.python.tree.Leaf.end_pos' -> ('parso.python.tree', ['Leaf', 'end_pos'])"""
    parts = qual.split('.')
    for i in range(len(parts), 0, -1):
        mod = '.'.join(parts[:i])
        try:
            module_path(mod)
            return mod, parts[i:]
        except BindingError:
            continue
    raise BindingError('no module for ' + qual)


def _is_docstring(stmt):
    return isinstance(stmt, ast.Expr) and isinstance(stmt.value, ast.Constant) and isinstance(stmt.value.value, str)


def _is_log_call(stmt):
    if isinstance(stmt, ast.Expr) and isinstance(stmt.value, ast.Call):
        f = stmt.value.func
        return (isinstance(f, ast.Attribute) and isinstance(f.value, ast.Name) and f.value.id == 'LOG'
                and f.attr in ('debug', 'warning', 'info'))
    return False


class _Strip(ast.NodeTransformer):
    def _body(self, body):
        out = []
        for s in body:
            if _is_docstring(s) or _is_log_call(s):
                continue
            if isinstance(s, ast.AnnAssign):
                if s.value is None:
                    continue               # bare annotation: no run-time effect
                s = ast.copy_location(ast.Assign(targets=[s.target], value=s.value), s)
            out.append(self.visit(s))
        return out or [ast.Pass()]

    def generic_visit(self, node):
        for field in ('body', 'orelse', 'finalbody'):
            v = getattr(node, field, None)
            if isinstance(v, list) and v and isinstance(v[0], ast.stmt):
                setattr(node, field, self._body(v))
        if isinstance(node, ast.Try):
            for h in node.handlers:
                h.body = self._body(h.body)
        if isinstance(node, (ast.FunctionDef, ast.AsyncFunctionDef)):
            node.returns = None
            for a in node.args.args + node.args.kwonlyargs + node.args.posonlyargs:
                a.annotation = None
        return node


def find_def(qual, kind=None):
    """-> (FunctionDef node (stripped copy), module name, class name or None)

    kind: None (plain function / method / property getter), 'setter' (property setter).
    Nested functions are addressed as outer.inner.
    """
    mod, path = _split_qualname(qual)
    tree, _, _ = module_ast(mod)
    scope = tree.body
    cls = None
    node = None
    for i, name in enumerate(path):
        found = None
        for s in _walk_defs(scope):
            if isinstance(s, (ast.FunctionDef, ast.AsyncFunctionDef, ast.ClassDef)) and s.name == name:
                if isinstance(s, ast.FunctionDef) and i == len(path) - 1:
                    is_setter = any(isinstance(d, ast.Attribute) and d.attr == 'setter' for d in s.decorator_list)
                    if (kind == 'setter') != is_setter:
                        continue
                found = s
                break
        if found is None:
            raise BindingError('%s: no definition of %r' % (qual, name))
        if isinstance(found, ast.ClassDef):
            cls = found.name
        node = found
        scope = found.body
    if not isinstance(node, (ast.FunctionDef, ast.AsyncFunctionDef)):
        raise BindingError('%s is not a function' % qual)
    import copy
    node = _Strip().visit(copy.deepcopy(node))
    node.body = _Strip()._body(node.body)
    return node, mod, cls


def _walk_defs(body):
    """Definitions directly in this scope, including under if/try at that level."""
    for s in body:
        if isinstance(s, (ast.FunctionDef, ast.AsyncFunctionDef, ast.ClassDef)):
            yield s
        elif isinstance(s, (ast.If, ast.Try, ast.With)):
            for f in ('body', 'orelse', 'finalbody'):
                yield from _walk_defs(getattr(s, f, []) or [])


def source_digest(node):
    return hashlib.sha256(ast.dump(node).encode()).hexdigest()[:16]


def module_constant(modname, name):
    """Value of a module-level literal assignment (tuples / strings / numbers / dicts of literals)."""
    tree, _, _ = module_ast(modname)
    val = None
    found = False
    for s in tree.body:
        if isinstance(s, ast.Assign) and len(s.targets) == 1 and isinstance(s.targets[0], ast.Name) \
                and s.targets[0].id == name:
            try:
                val = ast.literal_eval(s.value)
                found = True
            except Exception:  # noqa
                found = False
    if not found:
        raise BindingError('%s.%s is not a literal constant' % (modname, name))
    return val


def count_loops(fn):
    return sum(1 for n in ast.walk(fn) if isinstance(n, (ast.For, ast.While)))
