from props.common import run_bounded, verify_keys

KEYS = [
    'parso.tree.Leaf.start_pos', 'parso.tree.Leaf.start_pos.setter', 'parso.tree.Leaf.end_pos',
    'parso.python.tree._LeafWithoutNewlines.end_pos',
    'parso.python.prefix.PrefixPart.end_pos', 'parso.python.prefix.PrefixPart.__init__',
    'parso.python.prefix.PrefixPart.create_spacing_part',
]


def run(report):
    verify_keys(report, KEYS)
    run_bounded(report, 'pos')
