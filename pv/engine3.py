"""Loops (cut at invariants) and the verification driver for one function."""
import ast
import time

import z3

from pv import classes, smt, source
from pv.contract import REG, FIELDS, THEORIES, SPECFNS, CLASS_INV
from pv.core import Ob, DISCHARGED, REFUTED, UNDECIDED
from pv.engine2 import Verifier, Outcome
from pv.evalx import from_py
from pv.source import BindingError
from pv.state import State
from pv.values import (VMap, V, VInt, VBool, VStr, VNONE, VNoneT, VTuple, VRef, VList, VOpt, VPy, VFn, VAny,
                       OutOfSubset, fresh, fresh_name, kind_of, I, B, S)


def value_kind(v):
    if isinstance(v, VInt):
        return 'int'
    if isinstance(v, VBool):
        return 'bool'
    if isinstance(v, VStr):
        return 'str'
    if isinstance(v, VRef):
        return 'ref:' + v.cls if v.cls else 'ref'
    if isinstance(v, VList):
        return 'list:' + v.ek
    if isinstance(v, VTuple):
        ks = [value_kind(x) for x in v.items]
        if any(k is None for k in ks):
            return None
        return 'tuple:' + ','.join(ks)
    if isinstance(v, VNoneT):
        return None
    if isinstance(v, VAny):
        return 'any'
    if isinstance(v, VMap):
        return 'map:%s:%s' % (v.kk, v.vk)
    return None


class FnVerifier(Verifier):
    # ------------------------------------------------------------------ special spec forms
    def call_expr(self, st, e):
        f = e.func
        if isinstance(f, ast.Name) and st.spec:
            if f.id == 'old':
                if not self._old_stack:
                    raise OutOfSubset('old() outside a postcondition')
                o = self._old_stack[-1].fork()
                o.spec = True
                for k_, v_ in st.env.items():          # bound variables of enclosing quantifiers, result, ...
                    if k_ not in o.env:
                        o.env[k_] = v_
                # locals of the current state that are not in the old state (e.g. result) stay invisible
                return self.ev.ev(o, e.args[0])
            if f.id in ('forall', 'exists'):
                lam = e.args[0]
                names = [a.arg for a in lam.args.args]
                vs = [z3.Int(fresh_name(n)) for n in names]
                s = st.fork()
                s.raw_index = True
                kinds = {}
                for kw in e.keywords:
                    if kw.arg == 'kinds':         # kinds=dict(d='ref:DFAState'): typed bound variables
                        kinds = ast.literal_eval(kw.value) if not isinstance(kw.value, ast.Call) else \
                            {k.arg: k.value.value for k in kw.value.keywords}
                for j_, n in enumerate(names):
                    if kinds.get(n) == 'str':
                        vs[j_] = z3.String(fresh_name(n))
                for n, v in zip(names, vs):
                    kd = kinds.get(n, 'int')
                    if kd == 'str':
                        s.env[n] = VStr(v)
                    elif kd.startswith('ref'):
                        s.env[n] = VRef(v, kd[4:] or None)
                    elif kd == 'any':
                        s.env[n] = VAny(v)
                    else:
                        s.env[n] = VInt(v)
                body = self.ev.truthy(s, self.ev.ev(s, lam.body))
                pats = []
                for kw in e.keywords:
                    if kw.arg == 'trigger':       # trigger=lambda k: <term>   (E-matching pattern for the quantifier)
                        if isinstance(kw.value.body, ast.Tuple):
                            # trigger=lambda a, b: (t1, t2): one multi-pattern (all terms must occur)
                            pats.append(z3.MultiPattern(*[self.ev.ev(s, x).t for x in kw.value.body.elts]))
                        else:
                            tv = self.ev.ev(s, kw.value.body)
                            pats.append(tv.t)
                if pats and f.id == 'forall':
                    return VBool(smt.forall(vs, body, patterns=pats))   # (falls back to z3's choice when a pattern holds an ite)
                return VBool(z3.ForAll(vs, body) if f.id == 'forall' else z3.Exists(vs, body))
            if f.id == 'implies':
                a = self.ev.truthy(st, self.ev.ev(st, e.args[0]))
                st.guards.append(a)
                try:
                    b = self.ev.truthy(st, self.ev.ev(st, e.args[1]))
                finally:
                    st.guards.pop()
                return VBool(z3.Implies(a, b))
            if f.id == 'ite':
                c = self.ev.truthy(st, self.ev.ev(st, e.args[0]))
                return self.ev.ite(st, c, self.ev.ev(st, e.args[1]), self.ev.ev(st, e.args[2]))
        return super().call_expr(st, e)

    # ------------------------------------------------------------------ loops
    def loop_spec(self, node):
        k = self.loop_ids[id(node)]
        sp = self.ctr.loops.get(k)
        if sp is None:
            raise BindingError('loop %d of %s has no invariant in the contract' % (k, self.qual))
        return k, sp

    def assigned_names(self, body):
        """Names (re)bound by these statements; comprehension targets live in their own scope and do not count."""
        out = set()
        todo = list(body)
        while todo:
            n = todo.pop()
            if isinstance(n, (ast.ListComp, ast.DictComp, ast.SetComp, ast.GeneratorExp, ast.Lambda)):
                continue
            if isinstance(n, ast.Name) and isinstance(n.ctx, ast.Store):
                out.add(n.id)
            todo.extend(ast.iter_child_nodes(n))
        return out

    def written_heap(self, body):
        flds = set()
        alloc = False
        for st_ in body:
            for n in ast.walk(st_):
                if isinstance(n, ast.Attribute) and isinstance(n.ctx, ast.Store):
                    flds.add(n.attr)
                if isinstance(n, ast.Subscript) and isinstance(n.ctx, (ast.Store, ast.Del)):
                    flds.update(['$len', '$elR', '$elS', '$mhasS', '$mvalS', '$mhasR', '$mvalR'])
                if isinstance(n, ast.DictComp):
                    flds.update(['$mhasS', '$mvalS', '$mhasR', '$mvalR'])
                    alloc = True
                if isinstance(n, (ast.List, ast.ListComp)):
                    alloc = True
                if isinstance(n, ast.Call):
                    alloc = True
                    if isinstance(n.func, ast.Attribute) and n.func.attr in ('append', 'pop', 'clear', 'extend', 'insert'):
                        flds.update(['$len', '$elR', '$elS'])
                    name = n.func.attr if isinstance(n.func, ast.Attribute) else getattr(n.func, 'id', None)
                    for q, c in REG.items():
                        if c.qual.rsplit('.', 1)[-1] != name:
                            continue
                        for m_ in c.modifies:
                            if m_ == '$maps':
                                flds.update(['$mhasS', '$mvalS', '$mhasR', '$mvalR'])
                            else:
                                flds.add(m_.rsplit('.', 1)[-1] if not m_.startswith('$') else m_)
                        if c.lists:                 # a callee that changes lists (named ones or '*')
                            flds.update(['$len', '$elR', '$elS'])
        return flds, alloc

    def havoc_loop(self, st, body, extra_names=()):
        names = self.assigned_names(body) | set(extra_names)
        if any(isinstance(n, (ast.Yield, ast.YieldFrom)) for b_ in body for n in ast.walk(b_)):
            names |= set(self.ctr.yield_acc)
        for n in sorted(names):
            if n in st.env:
                k = value_kind(st.env[n])
                if k is None:
                    # None-valued or opaque before the loop: its kind inside the loop must be declared
                    k = self._loop_var_kinds.get(n)
                    if k is None:
                        del st.env[n]
                        continue
                st.env[n] = fresh(k, n)
            elif n in self._loop_var_kinds:
                st.env[n] = fresh(self._loop_var_kinds[n], n)
        flds, alloc = self.written_heap(body)
        if getattr(self, '_maps_stable', False):
            flds = flds - {'$mhasS', '$mvalS', '$mhasR', '$mvalR'}      # declared: the body changes no dict
        frame = self._loop_frame
        framed = None
        if frame is not None and flds & {'$len', '$elR', '$elS'}:
            # only the listed list objects may change: every other list keeps length and elements
            refs = []
            for ex in frame:
                v, _ = self.spec_value(st, ex)
                refs.append(v.t)
            framed = {}
            for f in ('$len', '$elR', '$elS'):
                old = st.heap.get(f)
                if old is None:
                    old = self.init_heap.get(f)
                if old is not None:
                    framed[f] = old
            flds = flds - {'$len', '$elR', '$elS'}
        for f in sorted(flds):
            self.havoc_field(st, f)
        if framed is not None:
            l = z3.Int(fresh_name('l'))
            for f, old in framed.items():
                new = z3.Const(fresh_name('H_' + f), old.sort())
                st.heap[f] = new
                keep = z3.And([l != r for r in refs]) if refs else z3.BoolVal(True)
                st.pc.append(z3.ForAll([l], z3.Implies(keep, z3.Select(new, l) == z3.Select(old, l)),
                                       patterns=[z3.Select(new, l)]))
        if '$len' in st.heap:
            l = z3.Int(fresh_name('l'))
            st.pc.append(smt.forall([l], z3.Select(st.heap['$len'], l) >= 0, patterns=[z3.Select(st.heap['$len'], l)]))
        if alloc:
            old = st.arr('$alloc', z3.ArraySort(I, B))
            new = z3.Const(fresh_name('H_alloc'), old.sort())
            o = z3.Int(fresh_name('o'))
            st.pc.append(z3.ForAll([o], z3.Implies(z3.Select(old, o), z3.Select(new, o))))
            st.heap['$alloc'] = new
        st.nyield = z3.Int(fresh_name('nyield'))

    _loop_var_kinds = {}
    _loop_frame = None

    def check_invs(self, st, k, sp, tag, body_entry=None):
        for name, expr in sp.get('views', {}).items():
            cur = st.env.get(name)
            if cur is None:
                raise BindingError('view of unknown variable %s' % name)
            v, new = self.spec_value(st, expr)
            g = st.fork()
            g.pc += new
            self.oblige('view%d.%s:%s' % (k, name, tag), g, self.ev.equal(g, cur, v))
        for j, inv in enumerate(sp.get('invariant', [])):
            t, new = self.spec_eval(st, inv)
            g = st.fork()
            g.pc += new
            self.oblige('inv%d.%d:%s' % (k, j, tag), g, t)

    def assume_invs(self, st, sp):
        for inv in sp.get('invariant', []):
            self.assume_clause(st, inv)

    def end_of_body(self, st, k, sp, entry, measure0):
        """Obligations at the end of one iteration (normal end or continue)."""
        self.check_invs(st, k, sp, 'keep')
        if sp.get('decreases'):
            m1, _ = self.spec_value(st, sp['decreases'])
            self.oblige('dec%d' % k, st, z3.And(measure0 >= 0, m1.t < measure0))
        if sp.get('body_ensures'):
            self._old_stack.append(entry)
            try:
                for j, be in enumerate(sp['body_ensures']):
                    t, new = self.spec_eval(st, be, extra_env={'nyield': VInt(st.nyield),
                                                               'last_yield': st.last_yield or VNONE,
                                                               'nyield0': VInt(entry.nyield)})
                    g = st.fork()
                    g.pc += new
                    self.oblige('body%d.%d' % (k, j), g, t)
            finally:
                self._old_stack.pop()

    def run_loop(self, st, node, k, sp, guard_fn, pre_body, body, orelse, extra_names=(), post_havoc=None):
        outs = []
        self._loop_var_kinds = dict(sp.get('vars', {}))
        self._loop_frame = sp.get('lists_modified')
        self._maps_stable = bool(sp.get('maps_stable'))
        # locals that are first assigned inside the loop and named by the invariants: an arbitrary value of the declared
        # kind before the loop (that they are assigned before they are read is not modelled for these -- the invariants
        # that guard their use, e.g. "contstr != '' implies endprog is not None", are what is proved)
        for n_, k_ in self._loop_var_kinds.items():
            if n_ not in st.env:
                st.env[n_] = fresh(k_, n_)
        self.check_invs(st, k, sp, 'init')
        h = st
        self.havoc_loop(h, body, extra_names)
        if post_havoc:
            post_havoc(h)
        # views: at the loop head the variable *is* this expression (kept in slice normal form); proved like an invariant
        for name, expr in sp.get('views', {}).items():
            v, new = self.spec_value(h, expr)
            for f in new:
                h.assume(f)
            h.env[name] = v
        self.assume_invs(h, sp)
        g = guard_fn(h)
        outs += self.split_pend(h)
        ex = h.fork()
        ex.pc.append(z3.Not(g))
        if smt.feasible(ex.pc):
            outs += self.exec_block(ex, orelse) if orelse else [Outcome('ok', ex)]
        b = h
        b.pc.append(g)
        if smt.feasible(b.pc):
            m0 = None
            if sp.get('decreases'):
                mv, _ = self.spec_value(b, sp['decreases'])
                m0 = mv.t
            pre_body(b)
            outs += self.split_pend(b)
            # stated assumptions about the environment of an iteration (listed in the evidence, never proved)
            for cl in sp.get('assume_in_body', []):
                self.assume_clause(b, cl)
            entry = b.fork()
            for o in self.exec_block(b, body):
                if o.kind in ('ok', 'cnt'):
                    self.end_of_body(o.st, k, sp, entry, m0)
                elif o.kind == 'brk':
                    outs.append(Outcome('ok', o.st))
                else:
                    outs.append(o)
        else:
            if sp.get('may_be_empty'):
                self.note('cover:loop%d' % k, DISCHARGED, 'loop body unreachable: the iterable is empty on every path (declared may_be_empty)')
            else:
                self.note('cover:loop%d' % k, UNDECIDED, 'loop body unreachable under the invariant (vacuous)')
        return outs

    def st_While(self, st, s):
        k, sp = self.loop_spec(s)

        def guard(h):
            return self.ev.truthy(h, self.ev.ev(h, s.test))
        return self.run_loop(st, s, k, sp, guard, lambda b: None, s.body, s.orelse)

    def st_For(self, st, s):
        k, sp = self.loop_spec(s)
        it = s.iter
        mode, start = 'list', z3.IntVal(0)
        if isinstance(it, ast.Call) and isinstance(it.func, ast.Name) and it.func.id in ('enumerate', 'reversed', 'range'):
            mode = it.func.id
            if mode == 'enumerate':
                seq = self.ev.ev(st, it.args[0])
                if len(it.args) > 1:
                    start = self.as_int(self.ev.ev(st, it.args[1]))
            elif mode == 'reversed':
                a0 = it.args[0]
                if isinstance(a0, ast.Call) and isinstance(a0.func, ast.Name) and a0.func.id == 'list' and len(a0.args) == 1 \
                        and isinstance(a0.args[0], ast.Call) and isinstance(a0.args[0].func, ast.Name) \
                        and a0.args[0].func.id == 'enumerate' and len(a0.args[0].args) == 1:
                    mode = 'revenum'          # reversed(list(enumerate(x))): pairs (n-1-i, x[n-1-i]) of a snapshot
                    seq = self.ev.ev(st, a0.args[0].args[0])
                else:
                    seq = self.ev.ev(st, a0)
            else:
                a = [self.as_int(self.ev.ev(st, x)) for x in it.args]
                lo, hi = (z3.IntVal(0), a[0]) if len(a) == 1 else (a[0], a[1])
                seq = None
        elif isinstance(it, ast.Call) and isinstance(it.func, ast.Attribute) and it.func.attr == 'items' and not it.args:
            m = self.ev.ev(st, it.func.value)
            if isinstance(m, VMap):
                return self.split_pend(st) + self.for_map_items(st, s, k, sp, m)
            seq = self.ev.ev(st, it)
        else:
            seq = self.ev.ev(st, it)
        outs = self.split_pend(st)
        ivar = '$i%d' % k
        st.env[ivar] = VInt(0)
        st.env['_i'] = st.env[ivar]
        if mode == 'range':
            n = z3.If(hi > lo, hi - lo, 0)
        elif isinstance(seq, VList):
            n = st.llen(seq.t)
        elif isinstance(seq, VStr):
            n = z3.Length(seq.t)
        elif isinstance(seq, VTuple):
            return outs + self.unroll_for(st, s, seq.items)
        elif isinstance(seq, VPy) and isinstance(seq.obj, (tuple, list)):
            return outs + self.unroll_for(st, s, [from_py(x) for x in seq.obj])
        else:
            raise OutOfSubset('for over %s' % kind_of(seq))
        st.env['$n%d' % k] = VInt(n)
        sp = dict(sp)
        sp['invariant'] = ['0 <= _i', '_i <= _n'] + list(sp.get('invariant', []))
        if not sp.get('decreases'):
            sp['decreases'] = '_n - _i'
        st.env['_n'] = VInt(n)

        def guard(h):
            h.env['_i'] = h.env[ivar]
            return h.env[ivar].t < n

        # snapshot=True: the iterable is a generator / is not changed by the body -- the loop runs over the elements
        # it had when the loop started (its parameter kind 'list:...' only gives it indexable ghost elements)
        snap = st.larr(seq.t, seq.ek) if sp.get('snapshot') and isinstance(seq, VList) else None

        def pre_body(b):
            i = b.env[ivar].t
            if snap is not None and mode == 'list':
                val = self.elem_value(z3.Select(snap, i), seq.ek)
            elif mode == 'range':
                val = VInt(lo + i)
            elif mode == 'reversed':
                val = self.elem_value(b.lget(seq.t, n - 1 - i, seq.ek), seq.ek)
            elif mode == 'revenum':
                val = VTuple([VInt(n - 1 - i), self.elem_value(b.lget(seq.t, n - 1 - i, seq.ek), seq.ek)])
            elif isinstance(seq, VStr):
                val = VStr(z3.SubString(seq.t, i, 1))        # iteration over a string: its characters
            else:
                val = self.elem_value(b.lget(seq.t, i, seq.ek), seq.ek)
            if mode == 'enumerate':
                val = VTuple([VInt(start + i), val])
            self._loop_binding = True
            try:
                self.assign(b, s.target, val)
            finally:
                self._loop_binding = False
            b.env[ivar] = VInt(i + 1)
            b.env['_i'] = b.env[ivar]
        if isinstance(seq, VList):
            body_flds, _ = self.written_heap(s.body)
            if '$len' in body_flds and 'len_stable' not in sp and not sp.get('snapshot'):
                raise OutOfSubset('for loop over a list while lists are mutated in the body')
        def post_havoc(h):
            h.env['_i'] = h.env[ivar]
        tnames = [n.id for n in ast.walk(s.target) if isinstance(n, ast.Name)]     # the loop target is rebound too
        if any(tn not in st.env for tn in tnames) and (mode == 'range' or isinstance(seq, (VList, VStr))):
            # targets that are not bound before the loop: give them a value of the right kind (so that invariants can
            # mention them) and remember that reading them is an UnboundLocalError unless the body ran
            probe = st.fork()
            probe.env = dict(st.env)
            probe.env[ivar] = VInt(z3.Int(fresh_name('probe_i')))
            pre_body(probe)
            ub = dict(st.env.get('$ub') or {})
            for tn in tnames:
                if tn not in st.env:
                    kd = value_kind(probe.env[tn]) or self._loop_var_kinds.get(tn)
                    if kd is None:
                        raise OutOfSubset('kind of loop target %s (unbound before the loop) is not known' % tn)
                    st.env[tn] = fresh(kd, tn)
                    ub[tn] = n >= 1
            st.env['$ub'] = ub
        res = self.run_loop(st, s, k, sp, guard, pre_body, s.body, s.orelse, extra_names=[ivar] + tnames, post_havoc=post_havoc)
        return outs + res

    def for_map_items(self, st, s, k, sp, m):
        """for key, value in <dict>.items(): the body runs for an arbitrary entry, any number of times (finite dict:
        termination assumed, listed as A-DICTITER).  Keys written to the same dict in the body are allowed."""
        mt = m.t
        kk, vk = m.kk, m.vk
        if sp.get('enum'):
            return self.for_map_items_enum(st, s, k, sp, m)

        def guard(h):
            return z3.Bool(fresh_name('more_items'))

        def pre_body(b):
            key = z3.Const(fresh_name('key'), S if kk == 'str' else I)
            b.pc.append(b.mhas(mt, key, kk))
            keyv = VStr(key) if kk == 'str' else (VAny(key) if vk else VInt(key))
            if kk != 'str':
                keyv = VAny(key)
            val = self.map_value(b, VMap(mt, kk, vk), key)
            if isinstance(val, (VRef, VMap, VList)):
                b.pc.append(val.t != 0)
            self.assign(b, s.target, VTuple([keyv, val]))
        sp = dict(sp)
        sp.setdefault('decreases', None)
        tnames = [n.id for n in ast.walk(s.target) if isinstance(n, ast.Name)]
        return self.run_loop(st, s, k, sp, guard, pre_body, s.body, s.orelse, extra_names=tnames)

    def for_map_items_enum(self, st, s, k, sp, m):
        """for key, value in <dict>.items() with loop clause enum=True: every entry of the dict exactly once, in an
        arbitrary but fixed order.  Ghost functions of this loop execution: key_at(i), the key met in iteration i, and
        key_idx(key), the iteration that meets key; _n = the number of entries, _i = the iterations done (as in list
        loops).  The key set must not change in the body (Python raises RuntimeError when it does): an obligation at the
        end of every iteration; assigning to an existing key is fine."""
        mt, kk, vk = m.t, m.kk, m.vk
        ks = S if kk == 'str' else I
        key_at = z3.Function(fresh_name('key_at'), I, ks)
        key_idx = z3.Function(fresh_name('key_idx'), ks, I)
        row0 = st._marr(mt, 'has', kk)[2]
        n = z3.Function('$msize' + ('S' if kk == 'str' else 'R'), row0.sort(), I)(row0)
        i_, k_ = z3.Int(fresh_name('i')), z3.Const(fresh_name('k'), ks)
        st.pc.append(n >= 0)
        st.pc.append(smt.forall([i_], z3.Implies(z3.And(0 <= i_, i_ < n), z3.And(z3.Select(row0, key_at(i_)), key_idx(key_at(i_)) == i_)),
                                patterns=[key_at(i_)]))
        st.pc.append(smt.forall([k_], z3.Implies(z3.Select(row0, k_), z3.And(0 <= key_idx(k_), key_idx(k_) < n, key_at(key_idx(k_)) == k_)),
                                patterns=[key_idx(k_)]))
        outs = self.split_pend(st)
        ivar = '$i%d' % k
        st.env[ivar] = VInt(0)
        st.env['_i'] = st.env[ivar]
        st.env['_n'] = VInt(n)
        st.env['$enum'] = (key_at, key_idx, kk)
        sp = dict(sp)
        sp['invariant'] = ['0 <= _i', '_i <= _n'] + list(sp.get('invariant', []))
        if not sp.get('decreases'):
            sp['decreases'] = '_n - _i'

        def guard(h):
            h.env['_i'] = h.env[ivar]
            return h.env[ivar].t < n

        def pre_body(b):
            i = b.env[ivar].t
            key = key_at(i)
            b.pc.append(z3.Select(row0, key))
            # the key set is the one the loop started with (checked at the end of every iteration)
            b.pc.append(b._marr(mt, 'has', kk)[2] == row0)
            keyv = VStr(key) if kk == 'str' else VAny(key)
            val = self.map_value(b, VMap(mt, kk, vk), key)
            if isinstance(val, (VRef, VMap, VList)):
                b.pc.append(val.t != 0)
            self.assign(b, s.target, VTuple([keyv, val]))
            b.env[ivar] = VInt(i + 1)
            b.env['_i'] = b.env[ivar]

        def post_havoc(h):
            h.env['_i'] = h.env[ivar]
            # (assumed at the loop head, proved at the end of each iteration through the generated invariant below)
        sp['invariant'] = sp['invariant'] + ['keys_unchanged()']
        self._enum_rows = getattr(self, '_enum_rows', {})
        self._enum_rows[k] = (mt, kk, row0)
        st.env['$enum_row'] = (mt, kk, row0)
        tnames = [n_.id for n_ in ast.walk(s.target) if isinstance(n_, ast.Name)]
        return outs + self.run_loop(st, s, k, sp, guard, pre_body, s.body, s.orelse, extra_names=[ivar] + tnames, post_havoc=post_havoc)

    def unroll_for(self, st, s, items):
        outs = []
        live = [st]
        for v in items:
            nxt = []
            for l in live:
                self.assign(l, s.target, v)
                for o in self.exec_block(l, s.body):
                    if o.kind in ('ok', 'cnt'):
                        nxt.append(o.st)
                    elif o.kind == 'brk':
                        outs.append(Outcome('ok', o.st))
                    else:
                        outs.append(o)
            live = nxt
        for l in live:
            outs += self.exec_block(l, s.orelse) if s.orelse else [Outcome('ok', l)]
        return outs

    # ------------------------------------------------------------------ driver
    def initial_state(self):
        st = State(self)
        ctr = self.ctr
        a = self.fn.args
        pnames = [x.arg for x in a.posonlyargs + a.args] + ([a.vararg.arg] if a.vararg else []) + \
                 [x.arg for x in a.kwonlyargs]
        for n in pnames:
            k = ctr.params.get(n)
            if k is None:
                raise BindingError('parameter %s of %s has no kind in the contract' % (n, self.qual))
            st.env[n] = fresh(k, n)
            if n == 'self' and isinstance(st.env[n], VRef):
                st.pc.append(st.env[n].t > 0)      # a bound method's receiver is an object
        for n in ctr.params:
            if n not in pnames and n not in ctr.free:
                raise BindingError('contract of %s names parameter %s which the function does not have' % (self.qual, n))
        for n, k in ctr.free.items():
            self.closure_env[n] = fresh(k, n)
        for n in ctr.yield_acc:
            st.env[n] = VInt(0)
        # module-level constants named in globals_: distinct live objects are distinct values, none of them is None
        gl = []
        for n_ in ctr.globals_:
            live = getattr(self.live_mod, n_, None)
            v_ = self.global_obj(st, n_)
            if isinstance(v_, VRef) and live is not None:
                st.pc.append(v_.t != 0)
                for (o_, w_) in gl:
                    if o_ is not live:
                        st.pc.append(v_.t != w_.t)
                gl.append((live, v_))
        # the static class of a parameter gives its isinstance facts
        for n, v in list(st.env.items()) + list(self.closure_env.items()):
            if isinstance(v, VRef) and v.cls and classes.get(v.cls) is not None:
                for kls in classes.get(v.cls).__mro__:
                    if kls is not object:
                        st.pc.append(z3.Or(v.t == 0, z3.Function('$isinst_' + kls.__name__, I, B)(v.t)))
        # everything reachable at entry is allocated
        for n, v in list(st.env.items()) + list(self.closure_env.items()):
            if isinstance(v, (VRef, VList)):
                st.pc.append(z3.Or(v.t == 0, st.is_alloc(v.t)))
        l_ = z3.Int('l!len')
        ln0 = st.arr('$len', z3.ArraySort(I, I))
        st.pc.append(smt.forall([l_], z3.Select(ln0, l_) >= 0, patterns=[z3.Select(ln0, l_)]))
        # closed heap: what an allocated list holds is allocated (so fresh objects differ from all stored ones)
        from pv.state import ARR_II
        al = st.arr('$alloc', z3.ArraySort(I, B))
        el = st.arr('$elR', z3.ArraySort(I, ARR_II))
        i_ = z3.Int('i!el')
        e_ = z3.Select(z3.Select(el, l_), i_)
        st.pc.append(z3.ForAll([l_, i_], z3.Implies(z3.And(0 <= i_, i_ < z3.Select(ln0, l_)),
                                                    z3.Or(e_ == 0, z3.Select(al, e_))), patterns=[e_]))
        for th in ctr.theories:
            fn = THEORIES.get(th)
            if fn is None:
                raise BindingError('unknown theory %s' % th)
            for ax in fn(self, st):
                st.pc.append(ax)
        for r in ctr.requires:
            self.assume_clause(st, r)
        if self.clsname and 'self' in st.env:
            for c in classes.get(self.clsname).__mro__ if classes.get(self.clsname) else []:
                for inv in CLASS_INV.get(c.__name__, []):
                    self.assume_clause(st, inv)
        return st

    def verify(self, extra_ensures=(), tag=''):
        t0 = time.time()
        try:
            ln = source.count_loops(self.fn)
            for k in self.ctr.loops:
                if k >= self.nloops:
                    raise BindingError('contract names loop %d but %s has %d loops' % (k, self.qual, self.nloops))
            st = self.initial_state()
            v, _, _, _ = smt.check_sat([f for f in st.pc if not smt.has_quant(f)], timeout_ms=2000, use_cvc5=False)
            if v == 'unsat':
                self.note('cover:requires', UNDECIDED, 'precondition (with theory axioms) is unsatisfiable: vacuous contract')
                return self.obs
            self.note('cover:requires', DISCHARGED, 'precondition satisfiable (%s)' % v)
            self.entry = st.fork()
            self._old_stack = [self.entry]          # old() in loop invariants refers to the function entry
            outs = self.exec_block(st, self.fn.body)
            nret = 0
            # vacuity guard: an exit whose path condition is contradictory (an inconsistent assumed contract, or a
            # path that branch pruning did not see die) proves nothing and is not counted as a reached exit
            live, dead, dead_sites = [], 0, set()
            for o in outs:
                if o.kind in ('ok', 'ret') or (o.kind == 'exc' and o.exc in self.ctr.raises):
                    if smt.feasible(o.st.pc, timeout_ms=1500):
                        live.append(o)
                    else:
                        dead += 1
                        dead_sites.add(o.site or 'end')
                else:
                    live.append(o)
            outs = live
            for o in outs:
                if o.kind in ('ok', 'ret'):
                    nret += 1
                    res = o.val if (o.kind == 'ret' and o.val is not None) else VNONE
                    self.check_post(o.st, res, extra_ensures)
                elif o.kind == 'exc':
                    if o.exc in self.ctr.raises:
                        nret += 1
                        cond = self.ctr.exc_ensures.get(o.exc)
                        if cond:
                            t, new = self.spec_eval(self.entry_with(o.st), cond)
                            g = o.st.fork()
                            g.pc += new
                            self.oblige('raises:%s:only-when' % o.exc, g, t)
                        for ci, cl in enumerate(self.ctr.raises_ensures.get(o.exc, [])):
                            mentions_exc = any(isinstance(n_, ast.Name) and n_.id == 'exc' for n_ in ast.walk(self.ctr.parse(cl)))
                            if o.val is None and mentions_exc:
                                raise OutOfSubset('raised %s object is not modelled (no constructor contract)' % o.exc)
                            g = o.st.fork()
                            g.env = dict(self.entry.env)
                            if o.val is not None:
                                g.env['exc'] = o.val
                            self._old_stack.append(self.entry)
                            try:
                                t, new = self.spec_eval(g, cl)
                            finally:
                                self._old_stack.pop()
                            g.pc += new
                            self.oblige('raises:%s:carries:%d' % (o.exc, ci), g, t)
                    else:
                        nm = 'safe:%s' % (o.site or o.exc)
                        if not o.site or o.exc not in o.site:
                            nm = 'safe:%s:%s' % (o.exc, o.site)
                        self.oblige(nm, o.st, z3.BoolVal(False))
                elif o.kind in ('brk', 'cnt'):
                    raise OutOfSubset('break/continue outside loop')
            if nret == 0:
                self.note('cover:exit', UNDECIDED, 'no path reaches a return: vacuous')
            else:
                self.note('cover:exit', DISCHARGED, '%d paths reach an exit%s' % (nret, ' (%d contradictory exits dropped at %s)' % (dead, sorted(dead_sites)) if dead else ''))
        except BindingError as e:
            self.obs.append(Ob('%s#binding' % self.key, 'D', 'vcgen', UNDECIDED, 0.0,
                               'binding error: %s' % e, functions=[self.qual]))
        except OutOfSubset as e:
            self.obs.append(Ob('%s#subset' % self.key, 'D', 'vcgen', UNDECIDED, 0.0,
                               'out-of-subset: %s' % e, functions=[self.qual]))
        except z3.Z3Exception as e:
            self.obs.append(Ob('%s#encoding' % self.key, 'D', 'vcgen', UNDECIDED, 0.0,
                               'encoding error: %s' % e, functions=[self.qual]))
        for o in self.obs:
            if not o.functions:
                o.functions = (self.qual,)
        return self.obs

    def entry_with(self, st):
        s = self.entry.fork()
        s.pc = list(st.pc)
        return s

    def check_post(self, st, res, extra_ensures=()):
        ctr = self.ctr
        if ctr.returns != 'none':
            res = self.coerce(res, ctr.returns, st)
        self._old_stack.append(self.entry)
        try:
            for i, ens in enumerate(list(ctr.ensures) + list(extra_ensures)):
                s = st.fork()
                # parameters keep their entry values in postconditions unless reassigned: use entry env + result
                s.env = dict(self.entry.env)
                s.env['result'] = res
                s.env['nyield'] = VInt(st.nyield)
                for acc_ in self.ctr.yield_acc:
                    s.env[acc_] = st.env[acc_]
                t, new = self.spec_eval(s, ens)
                g = st.fork()
                g.pc += new
                self.oblige('post[%d]' % i, g, t)
        finally:
            self._old_stack.pop()


def verify_function(key, extra=None):
    """Verify the function bound to contract key -> list of Ob."""
    from pv.contract import load_all
    load_all()
    ctr = REG.get(key)
    if ctr is None:
        return [Ob(key + '#binding', 'D', 'vcgen', UNDECIDED, 0, 'no contract registered')]
    if ctr.trusted:
        return []
    try:
        v = FnVerifier(ctr.qual, ctr, key)
    except BindingError as e:
        return [Ob(key + '#binding', 'D', 'vcgen', UNDECIDED, 0, 'binding error: %s' % e, functions=[ctr.qual])]
    smt.ABSTRACT[0] = ctr.abstract_strings
    try:
        obs = v.verify()
    finally:
        smt.ABSTRACT[0] = None
    if ctr.refines:
        base = REG.get(ctr.refines)
        if base is None:
            obs.append(Ob(key + '#refines', 'D', 'vcgen', UNDECIDED, 0, 'refined contract %s missing' % ctr.refines))
        else:
            import copy
            c2 = copy.copy(ctr)
            c2.requires = list(base.requires) + list(ctr.requires)
            c2.refines = ctr.refines
            c2.ensures = list(base.ensures)
            c2._parsed = {}
            c2.theories = list(dict.fromkeys(list(ctr.theories) + list(base.theories)))
            v2 = FnVerifier(ctr.qual, c2, key + '<:' + ctr.refines.rsplit('.', 2)[-2])
            obs += v2.verify()
    return obs
