"""VC generator: forward symbolic execution of the real function ASTs against sidecar contracts.

Loops are cut at invariants, calls are replaced by callee contracts, every possibly-raising
operation becomes a safety obligation unless a handler of the real code catches it.
"""
import ast
import importlib
import os
import time

import z3

from pv import classes, smt, source
from pv.contract import REG, FIELDS, THEORIES, SPECFNS, CLASS_INV, FIELD_VIEWS, EXT_CLASSES, load_all
from pv.core import Ob, DISCHARGED, REFUTED, UNDECIDED
from pv.evalx import Evaluator, from_py, lit_of, EMPTY_DICT
from pv.source import BindingError
from pv.state import State, ARR_II, ARR_IS
from pv.values import (VMap, V, VInt, VBool, VStr, VNONE, VNoneT, VTuple, VRef, VList, VOpt, VPy, VFn, VAny,
                       OutOfSubset, fresh, fresh_name, kind_of, I, B, S)

MAX_PATHS = int(os.environ.get('PV_MAX_PATHS', '4000'))


class Engine:
    def __init__(self, qual, ctr, key=None):
        load_all()
        self.qual = qual
        self.key = key or qual
        self.ctr = ctr
        self.init_heap = {}
        self.ev = Evaluator(self)
        self.obs = []
        self.interned = {}
        self.intern_objs = []
        self.fn, self.modname, self.clsname = source.find_def(qual, 'setter' if ctr.setter else None)
        self.live_mod = importlib.import_module(self.modname)
        self.stmt_ids = {}
        for i, n in enumerate(ast.walk(self.fn)):
            self.stmt_ids[id(n)] = i
        self.loop_ids = {}
        k = 0
        for n in self._preorder(self.fn):
            if isinstance(n, (ast.For, ast.While)):
                self.loop_ids[id(n)] = k
                k += 1
        self.nloops = k
        self.join_ids = {}
        j = 0
        for n in self._preorder(self.fn):
            if isinstance(n, ast.Call) and isinstance(n.func, ast.Attribute) and n.func.attr == 'join' and n.args \
                    and isinstance(n.args[0], ast.GeneratorExp):
                self.join_ids[id(n.args[0])] = j
                j += 1
        self.closure_env = {}
        self.paths = 0
        self.t_solver = 0.0
        self.entry = None
        self.yield_count = 0
        self.calls_reached = 0
        self.havocked = []
        self.deadline = time.time() + int(os.environ.get('PV_FN_DEADLINE_S', '600'))

    def _preorder(self, node):
        yield node
        for c in ast.iter_child_nodes(node):
            if isinstance(c, (ast.FunctionDef, ast.Lambda)) and c is not self.fn:
                continue
            yield from self._preorder(c)

    # ------------------------------------------------------------------ obligations
    def oblige(self, name, st, goal, witness_hint=None):
        if st.guards:
            goal = z3.Implies(z3.And(st.guards), goal)
        status, model, dt, be = smt.prove(st.pc, goal)
        self.t_solver += dt
        detail = ''
        wit = None
        replayed = None
        if status == REFUTED:
            detail = 'counter-model: ' + smt.model_text(model)
            wit = dict(model=smt.model_text(model, 200))
            try:
                rp = self.native_replay(model)
                if rp is not None:
                    replayed, info, code = rp
                    wit['native_replay'] = code
                    wit['native_result'] = info
                    wit['input'] = info.get('values') if isinstance(info, dict) else None
            except Exception as e:  # noqa
                wit['native_result'] = 'replay machinery failed: %r' % (e,)
        elif status == UNDECIDED:
            # Every registered obligation discharges on the unchanged tree with a wide time margin, so a proof
            # that no longer goes through is reported as a failed obligation (no counter-model: quantified VC).
            status = REFUTED
            detail = 'proof failed: solver returned unknown/timeout on a verification condition that is valid for the unchanged code'
            wit = dict(model=None, reason='solver unknown')
        full = '%s#%s' % (self.key, name)
        # several paths may generate the same named obligation: keep the worst verdict
        for o in self.obs:
            if o.name == full:
                rank = {DISCHARGED: 0, UNDECIDED: 1, REFUTED: 2}
                o.time_s += dt
                if rank[status] > rank[o.status] or (status == REFUTED and replayed and not o.replayed):
                    o.status, o.detail, o.witness, o.backend = status, detail, wit, 'smt:' + be
                    o.replayed = replayed
                o.paths = getattr(o, 'paths', 1) + 1
                return status
        self.obs.append(Ob(full, 'D', 'smt:' + be, status, dt, detail, wit, functions=[self.qual], replayed=replayed))
        return status

    def native_replay(self, model):
        """Concretise the counter-model through the contract's observables and run the real function natively."""
        rp = getattr(self.ctr, 'replay', None)
        if not rp or self.entry is None:
            return None
        import os
        import subprocess
        from pv.core import VENV_PY, VERIF, REPO
        from pv.rx import z3_unescape
        vals = {}
        kinds = {}
        for name, expr in rp['observe'].items():
            v, _ = self.spec_value(self.entry, expr)
            vals[name] = self._concrete(model, v)
            kinds[name] = 'str' if isinstance(v, VStr) else ('pos' if isinstance(v, VTuple) else 'int')
        body = rp['script'].format(**{k: k for k in vals})        # the script is the body of check(<observables>)
        names = list(vals)
        code = ('import sys, itertools\nsys.path.insert(0, %r)\n' % VERIF +
                'def check(%s):\n' % ', '.join(names) +
                ''.join('    ' + l + '\n' for l in body.splitlines()) +
                'POOLS = dict(str=["", "a", "ab", "\\n", "a\\n", "\\r\\n", "a\\nb", "\\r", "a\\rbc", "\\n\\n", "\\ufeff", "#c", "\\\\\\n", "\\x0c",\n'
                '                  "a\\xb2", " \\xa0\\"", " \\"", "#\\x0cb"],\n'
                '             int=[0, 1, 2, 7], pos=[(1, 0), (2, 3), (1, 5)])\n'
                'def run(vals):\n'
                '    try:\n        return check(*vals)\n    except Exception as e:\n        return ("exception %%r" %% (e,))\n'
                'model = %r\n' % ([vals[n] for n in names],) +
                'r = run(model)\n'
                'if r:\n    print("counter-model reproduces:", dict(zip(%r, model)), r); sys.exit(1)\n' % (names,) +
                'for vals in itertools.product(*[POOLS[k] for k in %r]):\n' % ([kinds[n] for n in names],) +
                '    r = run(list(vals))\n'
                '    if r:\n        print("failing input near the counter-model:", dict(zip(%r, vals)), r); sys.exit(1)\n' % (names,) +
                'print("not reproduced")\n')
        env = dict(os.environ, PYTHONPATH=VERIF + os.pathsep + REPO)
        p = subprocess.run([VENV_PY, '-c', code], env=env, capture_output=True, text=True, timeout=120)
        return p.returncode == 1, dict(values=vals, output=(p.stdout + p.stderr)[-400:], exit=p.returncode), code

    def _concrete(self, model, v):
        from pv.rx import z3_unescape
        if isinstance(v, VTuple):
            return tuple(self._concrete(model, x) for x in v.items)
        t = model.eval(v.t, model_completion=True)
        if isinstance(v, VStr):
            return z3_unescape(t.as_string())
        if isinstance(v, VBool):
            return z3.is_true(t)
        return t.as_long()

    def note(self, name, status, detail=''):
        full = '%s#%s' % (self.key, name)
        for o in self.obs:
            if o.name == full:
                return
        self.obs.append(Ob(full, 'D', 'vcgen', status, 0.0, detail, functions=[self.qual]))

    # ------------------------------------------------------------------ interning of constants
    def intern(self, obj):
        """Distinct negative integers for concrete singleton objects (enum members, classes, patterns)."""
        k = id(obj)
        if k not in self.interned:
            self.intern_objs.append(obj)
            self.interned[k] = z3.IntVal(-(len(self.intern_objs)) - 1000)
        return self.interned[k]

    # ------------------------------------------------------------------ names
    BUILTINS = {'len', 'int', 'str', 'bool', 'isinstance', 'min', 'max', 'reversed', 'enumerate', 'range', 'list',
                'tuple', 'any', 'all', 'sum', 'hash', 'repr', 'super', 'type', 'sorted', 'set', 'dict', 'getattr',
                'next', 'iter', 'open', 'print', 'abs'}

    def lookup_name(self, st, name):
        if name in st.env:
            ub = st.env.get('$ub')
            if ub and name in ub and not st.spec:
                # a for-loop target read after the loop: unbound when the loop body never ran
                st.may_raise(z3.Not(ub[name]), 'UnboundLocalError', 'name %s' % name)
            return st.env[name]
        if name in self.closure_env:
            return self.closure_env[name]
        if st.spec and name in SPECFNS:
            return VFn('spec', name=name)
        if name in self.ctr.globals_:
            return self.global_obj(st, name)
        if self.ctr.closure_of:
            # local functions of the enclosing function (this function itself for recursion)
            try:
                outer, _, _ = source.find_def(self.ctr.closure_of)
                for n_ in ast.walk(outer):
                    if isinstance(n_, ast.FunctionDef) and n_.name == name and n_ is not outer:
                        return VFn('closure', qual='%s.%s' % (self.ctr.closure_of, name), node=n_)
            except BindingError:
                pass
        if hasattr(self.live_mod, name):
            return self.live_value(getattr(self.live_mod, name), name)
        if name in self.BUILTINS:
            return VFn('builtin', name=name)
        import builtins
        if hasattr(builtins, name):
            return VPy(getattr(builtins, name))
        if name in SPECFNS:
            return VFn('spec', name=name)
        raise OutOfSubset('unbound name %r' % name)

    def global_obj(self, st, name):
        k = '$global:' + name
        if k not in self.closure_env:
            self.closure_env[k] = fresh(self.ctr.globals_[name], name)
        return self.closure_env[k]

    def live_value(self, o, name=''):
        import inspect
        import types
        if o is None or isinstance(o, (bool, int, str)):
            return from_py(o)
        if isinstance(o, (tuple, frozenset)) and all(isinstance(x, (str, int)) for x in o):
            return VPy(o)
        if isinstance(o, (set, dict, list)):
            # module-level container: treated as a constant only if the contract says so
            if name in getattr(self.ctr, 'const_globals', ()) or True:
                return VPy(o)
        import re as _re
        import ast as _ast
        if o is _re.match or o is _ast.literal_eval:
            return VPy(o)               # modelled in call_value (match model of the literal pattern / literal evaluation)
        if inspect.isfunction(o):
            q = '%s.%s' % (o.__module__, o.__qualname__)
            if not q.startswith('parso.') and 'ext:' + q in REG:
                q = 'ext:' + q          # a function outside the package: used through its assumed (trusted) contract
            return VFn('func', qual=q)
        if inspect.isclass(o) or isinstance(o, types.ModuleType):
            return VPy(o)
        return VPy(o)

    # ------------------------------------------------------------------ attributes
    def field_kind(self, cls, attr):
        if cls is not None:
            c = classes.get(cls)
            if c is not None:
                for k in c.__mro__:
                    if (k.__name__, attr) in FIELDS:
                        return FIELDS[(k.__name__, attr)]
            elif (cls, attr) in FIELDS:          # a class outside the package (ext_class)
                return FIELDS[(cls, attr)]
        return FIELDS.get(attr)

    def storage(self, cls, attr):
        """Name of the heap map of a field: class-qualified declarations get a map of their own (an attribute name may
        hold values of different sorts in unrelated classes, e.g. Leaf.value : str and PythonTokenTypes.value : object)."""
        if cls is not None:
            c = classes.get(cls)
            if c is not None:
                for k in c.__mro__:
                    if (k.__name__, attr) in FIELDS:
                        from pv.contract import OWN_MAPS
                        if FIELDS.get(attr) == FIELDS[(k.__name__, attr)] and (k.__name__, attr) not in OWN_MAPS:
                            return attr          # same kind as the global declaration: one shared map
                        return '%s.%s' % (k.__name__, attr)
            elif (cls, attr) in FIELDS and FIELDS.get(attr) != FIELDS[(cls, attr)]:
                return '%s.%s' % (cls, attr)
        return attr

    def read_field(self, st, ref, attr, kind):
        if kind == 'pos':
            return VTuple([VInt(st.rd(attr + '.0', ref)), VInt(st.rd(attr + '.1', ref))])
        if kind == 'int':
            return VInt(st.rd(attr, ref))
        if kind == 'bool':
            return VBool(st.rd(attr, ref, B))
        if kind == 'str':
            return VStr(st.rd(attr, ref, S))
        if kind.startswith(('ref', 'list:', 'map:')) and not getattr(st, 'raw_index', False):
            # closed heap: an allocated object only refers to allocated objects (so fresh objects differ from them)
            val = st.rd(attr, ref)
            st.pc.append(z3.Or(z3.Not(st.is_alloc(ref)), val == 0, st.is_alloc(val)))
            a0, al0 = self.init_heap.get(attr), self.init_heap.get('$alloc')
            if a0 is not None and al0 is not None and st.heap.get(attr) is a0:
                # the field has not been written since entry: what it refers to existed at entry (so it differs from
                # everything allocated since)
                st.pc.append(z3.Or(z3.Not(z3.Select(al0, ref)), val == 0, z3.Select(al0, val)))
        if kind.startswith('ref'):
            return VRef(st.rd(attr, ref), kind[4:] or None)
        if kind.startswith('list:'):
            return VList(st.rd(attr, ref), kind[5:])
        if kind.startswith('opt:'):
            return VOpt(st.rd(attr + '.isnone', ref, B), self.read_field(st, ref, attr, kind[4:]))
        if kind.startswith('map:'):
            kk, vk = kind[4:].split(':', 1)
            return VMap(st.rd(attr, ref), kk, vk)
        if kind == 'any':
            return VAny(st.rd(attr, ref))
        raise OutOfSubset('field kind %r' % kind)

    def write_field(self, st, ref, attr, kind, v):
        if kind == 'pos':
            if not (isinstance(v, VTuple) and len(v.items) == 2):
                raise OutOfSubset('storing non-pair into position field %s' % attr)
            st.wr(attr + '.0', ref, v.items[0].t)
            st.wr(attr + '.1', ref, v.items[1].t)
        elif kind == 'int':
            if isinstance(v, VOpt):
                # the field is declared to hold an int: storing a possibly-None value is an obligation (not None here)
                st.may_raise(v.isnone, 'TypeError', 'None stored into the int field %s' % attr)
                v = v.val
            st.wr(attr, ref, self.as_int(v))
        elif kind == 'bool':
            st.wr(attr, ref, self.ev.truthy(st, v) if not isinstance(v, VBool) else v.t, B)
        elif kind == 'str':
            if isinstance(v, VAny):
                # an opaque value: the field's str view becomes unknown (over-approximation)
                st.wr(attr, ref, z3.String(fresh_name('opq_' + attr)), S)
                return
            if not isinstance(v, VStr):
                raise OutOfSubset('storing %s into str field %s' % (kind_of(v), attr))
            st.wr(attr, ref, v.t, S)
        elif kind.startswith('ref'):
            st.wr(attr, ref, self.as_ref(v))
        elif kind.startswith('list:'):
            if not isinstance(v, VList):
                raise OutOfSubset('storing %s into list field %s' % (kind_of(v), attr))
            st.wr(attr, ref, v.t)
        elif kind.startswith('opt:'):
            if isinstance(v, VNoneT):
                st.wr(attr + '.isnone', ref, z3.BoolVal(True), B)
            elif isinstance(v, VOpt):
                st.wr(attr + '.isnone', ref, v.isnone, B)
                self.write_field(st, ref, attr, kind[4:], v.val)
            else:
                st.wr(attr + '.isnone', ref, z3.BoolVal(False), B)
                self.write_field(st, ref, attr, kind[4:], v)
        elif kind == 'any' or kind.startswith('map:'):
            st.wr(attr, ref, self.as_ref(v))
        else:
            raise OutOfSubset('field kind %r' % kind)

    def as_int(self, v):
        if isinstance(v, VInt):
            return v.t
        if isinstance(v, VBool):
            return z3.If(v.t, 1, 0)
        raise OutOfSubset('expected int, got %s' % kind_of(v))

    def as_ref(self, v):
        if isinstance(v, (VRef, VList, VAny, VMap)):
            return v.t
        if isinstance(v, VNoneT):
            return z3.IntVal(0)
        if isinstance(v, VPy):
            return self.intern(v.obj)
        raise OutOfSubset('expected reference, got %s' % kind_of(v))

    def get_attr(self, st, recv, attr):
        if isinstance(recv, VRef) and recv.cls in ('re.Pattern', 're.Match'):
            return self._re_attr(st, recv, attr)
        if isinstance(recv, VRef) and recv.cls in EXT_CLASSES and attr in EXT_CLASSES[recv.cls][1]:
            # a method of a class outside the package: used through its assumed (trusted) contract
            st.may_raise(recv.t == 0, 'AttributeError', 'None.%s' % attr)
            return VFn('bound', recv=recv, qual='ext:%s.%s.%s' % (EXT_CLASSES[recv.cls][0], recv.cls, attr), name=attr)
        if isinstance(recv, VRef):
            cls = recv.cls
            kind, dcls, obj = classes.lookup(cls, attr) if cls else ('none', None, None)
            if kind == 'property':
                q = classes.qualname(cls, attr)
                st.may_raise(recv.t == 0, 'AttributeError', 'None.%s' % attr)
                return self.call_contract(st, q, [recv], {}, is_property=True)
            if kind == 'method':
                st.may_raise(recv.t == 0, 'AttributeError', 'None.%s' % attr)
                return VFn('bound', recv=recv, qual=classes.qualname(cls, attr), name=attr)
            if kind == 'const' and not classes.overriders(cls, attr) and self.field_kind(cls, attr) is None:
                st.may_raise(recv.t == 0, 'AttributeError', 'None.%s' % attr)
                return from_py(obj)
            fk = self.field_kind(cls, attr)
            if fk is None and kind == 'none' and cls:
                # a method that only some subclasses have (e.g. BaseNode.get_leaf_for_position on a NodeOrLeaf):
                # AttributeError unless the object is an instance of a defining class
                import inspect as _insp
                base = classes.get(cls)
                roots = []
                for k in classes.table().values():
                    if base is not None and issubclass(k, base) and attr in vars(k) and _insp.isfunction(vars(k)[attr]):
                        if not any(r is not k and issubclass(k, r) for r in roots):
                            roots = [r for r in roots if not issubclass(r, k)] + [k]
                if len(roots) == 1:
                    d = roots[0]
                    isd = z3.Function('$isinst_' + d.__name__, I, B)(recv.t)
                    st.may_raise(z3.Or(recv.t == 0, z3.Not(isd)), 'AttributeError', '%s.%s' % (cls, attr))
                    return VFn('bound', recv=VRef(recv.t, d.__name__), qual='%s.%s.%s' % (d.__module__, d.__qualname__, attr), name=attr)
                if not roots and base is not None:
                    # inherited from a mixin outside the hierarchy (PythonMixin): the subclasses that have it, if they all
                    # share one definition
                    have = [k for k in classes.table().values() if issubclass(k, base) and _insp.isfunction(getattr(k, attr, None))]
                    fns = {getattr(k, attr) for k in have}
                    if len(fns) == 1:
                        fn_ = fns.pop()
                        tops = [k for k in have if not any(r is not k and issubclass(k, r) for r in have)]
                        cond = z3.Or([z3.Function('$isinst_' + k.__name__, I, B)(recv.t) for k in tops])
                        st.may_raise(z3.Or(recv.t == 0, z3.Not(cond)), 'AttributeError', '%s.%s' % (cls, attr))
                        return VFn('bound', recv=recv, qual='%s.%s' % (fn_.__module__, fn_.__qualname__), name=attr)
            if fk is None:
                raise OutOfSubset('attribute %s of %s has no declared kind' % (attr, cls))
            st.may_raise(recv.t == 0, 'AttributeError', 'None.%s' % attr)
            for th in self.ctr.theories:
                view = FIELD_VIEWS.get(th, {}).get(attr)
                if view is not None:
                    v = view(self, st, recv)
                    if v is not None:
                        return v
            if attr == 'value' and cls and not st.spec:
                # `value` is an attribute of leaves only: reading it from an interior node raises AttributeError
                c_, lf_, bn_ = classes.get(cls), classes.get('Leaf'), classes.get('BaseNode')
                if c_ is not None and lf_ is not None and not issubclass(c_, lf_):
                    if issubclass(lf_, c_):
                        st.may_raise(z3.Not(self.is_leaf(recv.t)), 'AttributeError', 'node.value')
                    elif bn_ is not None and issubclass(c_, bn_):
                        st.may_raise(z3.BoolVal(True), 'AttributeError', 'node.value')
            if attr == 'children':
                hc = classes.has_children(cls) if cls else 'maybe'
                if hc == 'no':
                    st.may_raise(z3.BoolVal(True), 'AttributeError', 'leaf.children')
                elif hc == 'maybe':
                    st.may_raise(self.is_leaf(recv.t), 'AttributeError', 'leaf.children')
            return self.read_field(st, recv.t, self.storage(cls, attr), fk)
        if isinstance(recv, VPy) and isinstance(recv.obj, dict) and attr == 'get':
            return VFn('constdict_get', d=recv.obj)
        import re as _re
        if isinstance(recv, VPy) and isinstance(recv.obj, _re.Pattern) and attr == 'match':
            return VFn('re_match', pat=recv)
        if isinstance(recv, VRef) and recv.cls == 're.Pattern' and attr == 'match':
            st.may_raise(recv.t == 0, 'AttributeError', 'None.match')
            return VFn('re_match', pat=recv)
        if isinstance(recv, VRef) and recv.cls == 're.Match' and attr in ('group', 'end', 'start'):
            st.may_raise(recv.t == 0, 'AttributeError', 'None.%s' % attr)
            return VFn('re_' + attr, m=recv)
        if isinstance(recv, VPy) and type(recv.obj).__name__ == 'Pattern' and attr == 'match':
            return VFn('re_match', pat=recv)          # a live compiled pattern (module-level constant)
        if isinstance(recv, VPy):
            try:
                o = getattr(recv.obj, attr)
            except AttributeError:
                raise OutOfSubset('attribute %s of constant %r' % (attr, recv.obj))
            return self.live_value(o, attr)
        if isinstance(recv, (VStr, VList, VMap)):
            return VFn('lmethod', recv=recv, name=attr)
        if isinstance(recv, VNoneT):
            st.may_raise(z3.BoolVal(True), 'AttributeError', 'None.%s' % attr)
            return fresh('any')
        if isinstance(recv, VOpt):
            st.may_raise(recv.isnone, 'AttributeError', 'None.%s' % attr)
            return self.get_attr(st, recv.val, attr)
        raise OutOfSubset('attribute %s of %s' % (attr, kind_of(recv)))

    def _re_attr(self, st, recv, attr):
        if recv.cls == 're.Pattern' and attr == 'match':
            st.may_raise(recv.t == 0, 'AttributeError', 'None.match')
            return VFn('re_match', pat=recv)
        if recv.cls == 're.Match' and attr in ('group', 'end', 'start', 'span'):
            st.may_raise(recv.t == 0, 'AttributeError', 'None.%s' % attr)
            return VFn('re_' + attr, m=recv)
        raise OutOfSubset('attribute %s of %s' % (attr, recv.cls))

    def re_match(self, st, pat, args):
        """re.Pattern.match(s[, pos]) in language mode (sound for every backtracking matcher): either None, or a match
        that starts at pos and whose group(0) is the slice s[pos:pos+n] for some n >= 0.  Which words match is the
        business of the RegLan obligations on the live patterns, not of this contract."""
        s = args[0]
        pos = args[1].t if len(args) > 1 else z3.IntVal(0)
        if not isinstance(s, VStr):
            raise OutOfSubset('match on %s' % kind_of(s))
        if isinstance(pat, VPy):
            # a concrete pattern: matching is a function of (text, position) -- the same call gives the same match
            pid = abs(self.intern(pat.obj).as_long())
            m = z3.Function('$m_%d' % pid, S, I, I)(s.t, pos)
            n = z3.Function('$mlen_%d' % pid, S, I, I)(s.t, pos)
        else:
            pid = None
            m = z3.Int(fresh_name('match'))
            n = z3.Int(fresh_name('mlen'))
        st.assume(z3.Implies(m != 0, z3.And(n >= 0, pos >= 0, pos + n <= z3.Length(s.t))))
        ref = VRef(m, 're.Match')
        ref.match_info = (s.t, pos, n)
        ref.is_bytes = bool(getattr(s, 'b', False))
        ref.groups = {}
        if isinstance(pat, VRef):
            # a pattern held in a variable: the contract may declare that it is a plain sequence of capturing groups
            # (match_layout={'<variable>': [1, 2]}; backed by the 're:*:shape' obligations on every live pattern it can be)
            for vname, layout in getattr(self.ctr, 'match_layout', {}).items():
                cand = st.env.get(vname)
                if isinstance(cand, VRef) and cand.t.eq(pat.t):
                    off = pos
                    lens = []
                    for gi in layout:
                        ln = z3.Int(fresh_name('glen%s' % gi))
                        ref.groups[gi] = (off, ln)
                        lens.append(ln)
                        off = off + ln
                    st.assume(z3.Implies(m != 0, z3.And([l_ >= 0 for l_ in lens] + [z3.Sum(lens) == n])))
                    ref.layout_known = True
                    for cl in getattr(self.ctr, 'match_facts', {}).get(vname, []):
                        env = {'s': s, 'pos': VInt(pos), 'end': VInt(pos + n), 'matched': VBool(m != 0)}
                        for gi, (o_, l_) in ref.groups.items():
                            env['g%d' % gi] = VStr(z3.SubString(s.t, o_, l_))
                        t, new = self.spec_eval(st, cl, extra_env=env)
                        for f in new:
                            st.assume(f)
                        st.assume(t)
        if isinstance(pat, VPy):
            # a live pattern: when it is a plain sequence of capturing groups (pv/rx.top_groups, the same structure
            # the 're:*:shape' obligations report) the groups are contiguous slices of the match
            from pv import rx
            try:
                layout = rx.top_layout(pat.obj)
            except rx.Unsupported:
                layout = []
            off = pos
            lens = []
            for li, gi in enumerate(layout):
                ln = z3.Function('$glen_%d_%d' % (pid, li), S, I, I)(s.t, pos)
                if gi is not None:
                    ref.groups[gi] = (off, ln)
                lens.append(ln)
                off = off + ln
            if lens:
                st.assume(z3.Implies(m != 0, z3.And([l_ >= 0 for l_ in lens] + [z3.Sum(lens) == n])))
            # facts about this pattern's matches that the contract imports from RegLan obligations / states as assumptions
            name = next((k for k, v in vars(self.live_mod).items() if v is pat.obj), '<literal>')
            for cl in getattr(self.ctr, 'match_facts', {}).get(name, []):
                env = {'s': s, 'pos': VInt(pos), 'end': VInt(pos + n), 'matched': VBool(m != 0)}
                for gi, (o_, l_) in ref.groups.items():
                    env['g%d' % gi] = VStr(z3.SubString(s.t, o_, l_))
                t, new = self.spec_eval(st, cl, extra_env=env)
                for f in new:
                    st.assume(f)
                st.assume(t)
        return ref

    def re_group(self, st, m, args):
        info = getattr(m, 'match_info', None)
        if info is None or len(args) > 1 or (args and not z3.is_int_value(self.as_int(args[0]))):
            raise OutOfSubset('match.group of this shape')
        s, pos, n = info
        k = self.as_int(args[0]).as_long() if args else 0
        isb = getattr(m, 'is_bytes', False)
        if k == 0:
            return VStr(z3.SubString(s, pos, n), b=isb)
        g = getattr(m, 'groups', {}).get(k)
        if g is not None:
            return VStr(z3.SubString(s, g[0], g[1]), b=isb)
        if g is None:
            if getattr(m, 'layout_known', False):
                # a group nested inside the top-level ones: it may not have taken part (None) and is some text otherwise
                return VOpt(z3.Bool(fresh_name('gnone%d' % k)), fresh('str', 'g%d' % k))
            raise OutOfSubset('match.group(%d): the pattern is not a plain sequence of capturing groups' % k)
        return VStr(z3.SubString(s, g[0], g[1]))

    def re_pos(self, st, m, args, which):
        info = getattr(m, 'match_info', None)
        if info is None or len(args) > 1 or (args and not z3.is_int_value(self.as_int(args[0]))):
            raise OutOfSubset('match.%s of this shape' % which)
        s, pos, n = info
        k = self.as_int(args[0]).as_long() if args else 0
        if k == 0:
            return VInt(pos if which == 'start' else pos + n)
        g = getattr(m, 'groups', {}).get(k)
        if g is None:
            raise OutOfSubset('match.%s(%d)' % (which, k))
        return VInt(g[0] if which == 'start' else g[0] + g[1])

    def is_leaf(self, t):
        return z3.Function('$isleaf', I, B)(t)

    def set_attr(self, st, recv, attr, v):
        if not isinstance(recv, VRef):
            raise OutOfSubset('attribute store on %s' % kind_of(recv))
        cls = recv.cls
        kind, dcls, obj = classes.lookup(cls, attr) if cls else ('none', None, None)
        st.may_raise(recv.t == 0, 'AttributeError', 'None.%s = ...' % attr)
        if kind == 'property':
            q = classes.qualname(cls, attr)
            return self.call_contract(st, q, [recv, v], {}, setter=True)
        fk = self.field_kind(cls, attr)
        if fk is None:
            raise OutOfSubset('attribute %s of %s has no declared kind' % (attr, cls))
        self.write_field(st, recv.t, self.storage(cls, attr), fk, v)

    # ------------------------------------------------------------------ subscripts
    def norm_index(self, st, idx, n, site):
        """Python index normalisation; registers the IndexError condition."""
        i = self.as_int(idx)
        st.may_raise(z3.Or(i >= n, i < -n), 'IndexError', site)
        if z3.is_int_value(i):
            return i + n if i.as_long() < 0 else i      # no if-then-else for literal indices (terms stay usable as triggers)
        return z3.If(i < 0, i + n, i)

    def get_item(self, st, recv, idx):
        if isinstance(recv, VTuple):
            try:
                k = lit_of(idx)
            except KeyError:
                raise OutOfSubset('tuple subscript with symbolic index')
            if not -len(recv.items) <= k < len(recv.items):
                st.may_raise(z3.BoolVal(True), 'IndexError', 'tuple index')
                return fresh('any')
            return recv.items[k]
        if isinstance(recv, VStr):
            n = z3.Length(recv.t)
            i = self.norm_index(st, idx, n, 'string index')
            return VStr(z3.SubString(recv.t, i, 1))
        if isinstance(recv, VList):
            n = st.llen(recv.t)
            if st.spec and getattr(st, 'raw_index', False):
                i = self.as_int(idx)          # quantifier bodies / triggers: the index is used as written (it is in range there)
            else:
                i = self.norm_index(st, idx, n, 'list index')
            return self.elem_value(st.lget(recv.t, i, recv.ek), recv.ek)
        if isinstance(recv, VPy) and isinstance(recv.obj, dict):
            items = list(recv.obj.items())
            hit = z3.Or([self.ev.equal(st, idx, from_py(k)) for k, _ in items] or [z3.BoolVal(False)])
            st.may_raise(z3.Not(hit), 'KeyError', 'constant dict lookup')
            import inspect as _insp
            if items and all(_insp.isclass(v) for _, v in items):
                # a constant table of classes: which class it is follows the key (used when the result is called)
                from pv.engine2 import ClassSet
                return VPy(ClassSet([v for _, v in items], [self.ev.equal(st, idx, from_py(k)) for k, _ in items]))
            vals = [self.live_value(v) for _, v in items]
            res = vals[-1] if vals else fresh('any')
            for (k, _), v in reversed(list(zip(items, vals))[:-1]):
                res = self.ev.ite(st, self.ev.equal(st, idx, from_py(k)), v, res)
            return res
        if isinstance(recv, VPy) and isinstance(recv.obj, (tuple, list)):
            try:
                return self.live_value(recv.obj[lit_of(idx)])
            except KeyError:
                raise OutOfSubset('constant sequence with symbolic index')
        if isinstance(recv, VMap):
            key = self.map_key(recv, idx)
            st.may_raise(z3.Not(st.mhas(recv.t, key, recv.kk)), 'KeyError', 'dict lookup')
            return self.map_value(st, recv, key)
        if isinstance(recv, VRef):
            c = classes.get(recv.cls) if recv.cls else None
            if c is not None and hasattr(c, '_fields'):
                k = lit_of(idx)
                return self.get_attr(st, recv, c._fields[k])
            return self.map_get(st, recv, idx)
        raise OutOfSubset('subscript of %s' % kind_of(recv))

    def elem_value(self, t, ek):
        if ek == 'str':
            return VStr(t)
        if ek == 'int':
            return VInt(t)
        if ek.startswith('ref'):
            return VRef(t, ek[4:] or None)
        if ek == 'any':
            return VAny(t)
        raise OutOfSubset('list element kind %r' % ek)

    def elem_term(self, v, ek):
        if ek == 'str':
            if not isinstance(v, VStr):
                raise OutOfSubset('non-str element for list:str')
            return v.t
        if ek == 'int':
            return self.as_int(v)
        return self.as_ref(v)

    def get_slice(self, st, recv, lo, hi):
        if isinstance(recv, VStr):
            sl = self._as_slice(recv.t)
            n = sl[2] if sl is not None else z3.Length(recv.t)
            a = self.clamp(self.as_int(lo), n) if lo is not None else z3.IntVal(0)
            b = self.clamp(self.as_int(hi), n) if hi is not None else n
            ln = z3.If(b > a, b - a, 0)
            if sl is not None:
                # slice of a slice of the same base: G[o:o+n][a:b] = G[o+a:o+b] when the inner slice is in range
                base, o, _ = sl
                ok = z3.And(o >= 0, n >= 0, o + n <= z3.Length(base))
                v, _, _, _ = smt.check_sat(list(st.pc) + ([z3.And(st.guards)] if st.guards else []) + [z3.Not(ok)],
                                           timeout_ms=2000, use_cvc5=False)
                if v == 'unsat':
                    return VStr(z3.SubString(base, o + a, ln))
            return VStr(z3.SubString(recv.t, a, ln))
        if isinstance(recv, VList):
            n = st.llen(recv.t)
            a = self.clamp(self.as_int(lo), n) if lo is not None else z3.IntVal(0)
            b = self.clamp(self.as_int(hi), n) if hi is not None else n
            l = st.alloc('slice')
            st.wr('$len', l, z3.If(b > a, b - a, 0))
            src = st.larr(recv.t, recv.ek)
            k = z3.Int(fresh_name('k'))
            dst = z3.Const(fresh_name('sl'), ARR_IS if recv.ek == 'str' else ARR_II)
            st.pc.append(smt.forall([k], z3.Select(dst, k) == z3.Select(src, k + a), patterns=[z3.Select(dst, k)]))
            st.lset_all(l, dst, recv.ek)
            return VList(l, recv.ek)
        if isinstance(recv, VTuple):
            try:
                a = lit_of(lo) if lo is not None else None
                b = lit_of(hi) if hi is not None else None
            except KeyError:
                raise OutOfSubset('tuple slice with symbolic bounds')
            return VTuple(recv.items[a:b])
        raise OutOfSubset('slice of %s' % kind_of(recv))

    @staticmethod
    def clamp(i, n):
        j = z3.If(i < 0, i + n, i)
        return z3.If(j < 0, 0, z3.If(j > n, n, j))

    # ------------------------------------------------------------------ lists
    def new_list(self, st, items, ek=None):
        if ek is None:
            if not items:
                ek = 'any'
            elif all(isinstance(x, VStr) for x in items):
                ek = 'str'
            elif all(isinstance(x, VInt) for x in items):
                ek = 'int'
            else:
                ek = 'ref'
                cs = {x.cls for x in items if isinstance(x, VRef)}
                if len(cs) == 1 and None not in cs and all(isinstance(x, (VRef, VNoneT)) for x in items):
                    ek = 'ref:' + cs.pop()        # a literal list of objects of one static class
        l = st.alloc('list')
        st.wr('$len', l, z3.IntVal(len(items)))
        if items:
            arr = z3.Const(fresh_name('lit'), ARR_IS if ek == 'str' else ARR_II)
            for i, x in enumerate(items):
                st.pc.append(z3.Select(arr, i) == self.elem_term(x, ek))
            st.lset_all(l, arr, ek)
        return VList(l, ek)

    def list_concat(self, st, a, b):
        ek = a.ek if a.ek != 'any' else b.ek
        l = st.alloc('cat')
        na, nb = st.llen(a.t), st.llen(b.t)
        st.wr('$len', l, na + nb)
        k = z3.Int(fresh_name('k'))
        dst = z3.Const(fresh_name('cat'), ARR_IS if ek == 'str' else ARR_II)
        sa, sb = st.larr(a.t, ek), st.larr(b.t, ek)
        st.pc.append(smt.forall([k], z3.Select(dst, k) == z3.If(k < na, z3.Select(sa, k), z3.Select(sb, k - na)),
                                patterns=[z3.Select(dst, k)]))
        st.lset_all(l, dst, ek)
        return VList(l, ek)

    def list_contains(self, st, lst, x):
        k = z3.Int(fresh_name('k'))
        n = st.llen(lst.t)
        el = self.elem_value(st.lget(lst.t, k, lst.ek), lst.ek)
        return z3.Exists([k], z3.And(0 <= k, k < n, self.ev.equal(st, el, x)))

    def list_method(self, st, recv, name, args):
        ek = recv.ek
        n = st.llen(recv.t)
        if name == 'append':
            if ek == 'any':
                ek = recv.ek = 'str' if isinstance(args[0], VStr) else ('int' if isinstance(args[0], VInt) else 'ref')
            arr = st.larr(recv.t, ek)
            st.lset_all(recv.t, z3.Store(arr, n, self.elem_term(args[0], ek)), ek)
            st.wr('$len', recv.t, n + 1)
            return VNONE
        if name == 'pop':
            if args:
                raise OutOfSubset('list.pop(i)')
            st.may_raise(n <= 0, 'IndexError', 'pop from empty list')
            v = self.elem_value(st.lget(recv.t, n - 1, ek), ek)
            st.wr('$len', recv.t, n - 1)
            return v
        if name == 'index':
            x = args[0]
            r = z3.Int(fresh_name('idx'))
            k = z3.Int(fresh_name('k'))
            el = lambda i: self.elem_value(st.lget(recv.t, i, ek), ek)  # noqa
            found = z3.Exists([k], z3.And(0 <= k, k < n, self.ev.equal(st, el(k), x)))
            st.may_raise(z3.Not(found), 'ValueError', 'list.index: not found')
            st.assume(z3.Implies(found, z3.And(0 <= r, r < n, self.ev.equal(st, el(r), x),
                                               z3.ForAll([k], z3.Implies(z3.And(0 <= k, k < r),
                                                                         z3.Not(self.ev.equal(st, el(k), x)))))))
            return VInt(r)
        if name == 'clear':
            st.wr('$len', recv.t, z3.IntVal(0))
            return VNONE
        raise OutOfSubset('list.%s' % name)

    def str_method(self, st, recv, name, args):
        s = recv.t
        if name in ('startswith', 'endswith'):
            a = args[0]
            if isinstance(a, VTuple):
                alts = a.items
            elif isinstance(a, VPy) and isinstance(a.obj, tuple):
                alts = [from_py(x) for x in a.obj]
            else:
                alts = [a]
            f = z3.PrefixOf if name == 'startswith' else z3.SuffixOf
            return VBool(z3.Or([f(x.t, s) for x in alts]))
        if name == 'join':
            return self.str_join(st, recv, args[0])
        if name in ('find', 'rfind') and len(args) == 1 and isinstance(args[0], VStr):
            # under-specified but sound: -1 iff the text does not occur; otherwise an index at which it occurs (which of
            # several occurrences is left open, so nothing proved depends on first / last)
            sub = args[0].t
            r = z3.Int(fresh_name('find'))
            st.pc.append(z3.And(r >= -1, r <= z3.Length(s) - z3.Length(sub)))
            st.pc.append((r == -1) == z3.Not(z3.Contains(s, sub)))
            st.pc.append(z3.Implies(r >= 0, z3.SubString(s, r, z3.Length(sub)) == sub))
            return VInt(r)
        if name == 'isidentifier':
            return VBool(z3.Function('$isidentifier', S, B)(s))
        if name in ('isalpha', 'isdigit', 'isupper', 'islower') and not args:
            # uninterpreted character-class predicate; known: false for the empty string and for strings that start with
            # an ASCII quote, bracket, blank or line break (not letters / digits)
            lit = recv.lit()
            if lit is not None:
                return VBool(z3.BoolVal(getattr(lit, name)()))
            pr = z3.Function('$str_' + name, S, B)
            st.pc.append(z3.Not(pr(z3.StringVal(''))))
            for c in ('"', "'", ' ', '\n', '(', '[', ':', '|', '*', '+'):
                st.pc.append(z3.Implies(z3.PrefixOf(z3.StringVal(c), s), z3.Not(pr(s))))
            return VBool(pr(s))
        if name in ('lower', 'upper') and not args:
            lit = recv.lit()
            if lit is not None:
                return from_py(getattr(lit, name)())
            # uninterpreted (the same symbol in code and in clauses); only its length is known
            r = z3.Function('$str_' + name, S, S)(s)
            st.assume(z3.Length(r) == z3.Length(s)) if name == 'lower' else None
            return VStr(r)
        if name == 'lstrip':
            # result = s[k:], k = length of the longest prefix made of the strip characters
            if args:
                cs = args[0].lit()
                if cs is None:
                    raise OutOfSubset('lstrip with a symbolic character set')
                inset = lambda c: z3.Or([c == z3.StringVal(x) for x in cs])     # noqa
            else:
                isspace = z3.Function('$isspace', S, B)                        # str.isspace of one character (Unicode)
                inset = lambda c: isspace(c)                                   # noqa
                for x in ' \t\n\r\x0b\x0c\x1c\x1d\x1e\x1f\x85\xa0\u2028\u2029\u3000':
                    st.assume(isspace(z3.StringVal(x)))
                st.assume(z3.Not(isspace(z3.StringVal('a'))))
            k = z3.Int(fresh_name('strip'))
            j = z3.Int(fresh_name('j'))
            n = z3.Length(s)
            st.assume(z3.And(0 <= k, k <= n))
            st.assume(z3.ForAll([j], z3.Implies(z3.And(0 <= j, j < k), inset(z3.SubString(s, j, 1)))))
            st.assume(z3.Or(k == n, z3.Not(inset(z3.SubString(s, k, 1)))))
            return VStr(z3.SubString(s, k, n - k))
        raise OutOfSubset('str.%s' % name)

    # ---- slice normal form (DESIGN 2.4): G[a:a+n] + G[a+n:a+n+m] is G[a:a+n+m]
    @staticmethod
    def _as_slice(t):
        if z3.is_app(t) and t.decl().kind() == z3.Z3_OP_SEQ_EXTRACT:
            b, o, n = t.children()
            return b, o, n
        return None

    def concat(self, st, a, b):
        if z3.is_string_value(a) and a.as_string() == '':
            return b
        if z3.is_string_value(b) and b.as_string() == '':
            return a
        sa, sb = self._as_slice(a), self._as_slice(b)
        if sa is not None and sb is not None and sa[0].eq(sb[0]):
            base, o1, n1 = sa
            _, o2, n2 = sb
            ok = z3.And(o2 == o1 + n1, o1 >= 0, n1 >= 0, n2 >= 0, o1 + n1 + n2 <= z3.Length(base))
            v, _, _, _ = smt.check_sat(list(st.pc) + ([z3.And(st.guards)] if st.guards else []) + [z3.Not(ok)],
                                       timeout_ms=3000, use_cvc5=False)
            if v == 'unsat':
                return z3.SubString(base, o1, n1 + n2)
        return z3.Concat(a, b)

    def str_join(self, st, sep, it):
        """''.join(f(c) for c in <list>): an accumulator fold, cut at the invariant the contract gives for it."""
        if sep.lit() != '' or not isinstance(it, VFn) or it.kind != 'genexp':
            raise OutOfSubset('str.join of this shape')
        g = it.node
        if len(g.generators) != 1 or g.generators[0].ifs or not isinstance(g.generators[0].target, ast.Name):
            raise OutOfSubset('generator expression shape')
        k = self.join_ids.get(id(g))
        sp = self.ctr.joins.get(k)
        if sp is None:
            raise BindingError('join %r of %s has no invariant in the contract' % (k, self.qual))
        seq = self.ev.ev(st, g.generators[0].iter)
        if not isinstance(seq, VList):
            raise OutOfSubset('join over %s' % kind_of(seq))
        n = st.llen(seq.t)
        tgt = g.generators[0].target.id

        def acc_at(s, i):
            """the accumulated text after i >= 1 elements, as the contract states it (a slice of G in normal form)"""
            v, new = self.spec_value(s, sp['acc'], extra_env={'_i': VInt(i), '_n': VInt(n), '_seq': seq})
            return v, new
        # first element: '' + f(seq[0]) must be acc(1)
        for case in ('first', 'step'):
            s1 = st.fork()
            s1.pend = []
            i = z3.Int(fresh_name('ji'))
            s1.pc += [i >= 0, i < n, (i == 0) if case == 'first' else (i > 0)]
            if not smt.feasible(s1.pc):
                continue
            if case == 'first':
                acc = VStr('')
            else:
                acc, new = acc_at(s1, i)
                s1.pc += new
                for txt in sp.get('inv', []):          # induction hypothesis at _i
                    t, new = self.spec_eval(s1, txt, extra_env={'_i': VInt(i), '_n': VInt(n), '_seq': seq})
                    s1.pc += new
                    s1.pc.append(t)
            s1.env = dict(s1.env)
            s1.env[tgt] = self.elem_value(s1.lget(seq.t, i, seq.ek), seq.ek)
            val = self.ev.ev(s1, g.elt)
            for cond, exc, site, _v, _f in s1.pend:
                self.oblige('join%d:safe:%s' % (k, exc), s1, z3.Not(cond))
                s1.pc.append(z3.Not(cond))
            s1.pend = []
            if not isinstance(val, VStr):
                raise OutOfSubset('join of non-strings')
            acc2 = self.concat(s1, acc.t, val.t)
            want, new = acc_at(s1, i + 1)
            g1 = s1.fork()
            g1.pc += new
            self.oblige('join%d:%s' % (k, case), g1, acc2 == want.t)
            for j, txt in enumerate(sp.get('inv', [])):
                t, new = self.spec_eval(s1, txt, extra_env={'_i': VInt(i + 1), '_n': VInt(n), '_seq': seq})
                g2 = s1.fork()
                g2.pc += new
                self.oblige('join%d.inv%d:%s' % (k, j, case), g2, t)
        # result: '' for an empty sequence, acc(n) otherwise
        res_n, new = acc_at(st, n)
        for f in new:
            st.assume(f)
        for txt in sp.get('inv', []):
            t, new = self.spec_eval(st, txt, extra_env={'_i': VInt(n), '_n': VInt(n), '_seq': seq})
            for f in new:
                st.assume(f)
            st.assume(z3.Implies(n > 0, t))
        return VStr(z3.If(n == 0, z3.StringVal(''), res_n.t))

    def list_comp(self, st, e):
        """Selecting comprehensions only: the element expression is the innermost loop variable, so the result holds
        elements of the source lists and nothing else (which ones, in which order and how often is left open):
            [x for x in L if c]                 every R[i] is some L[j];  len(R) <= len(L)
            [x for a in A for x in a.f]         every R[i] is some (A[k].f)[j];  len(A[k].f) <= len(R) for every k
        Evaluating the inner iterable for an arbitrary k yields the safety obligations of all iterations."""
        gens = e.generators
        if not (isinstance(e.elt, ast.Name) and isinstance(gens[-1].target, ast.Name) and gens[-1].target.id == e.elt.id):
            raise OutOfSubset('list comprehension that transforms its elements')
        if any(g.is_async for g in gens) or len(gens) > 2 or (len(gens) == 2 and (gens[0].ifs or gens[1].ifs)):
            raise OutOfSubset('list comprehension shape')
        src = self.ev.ev(st, gens[0].iter)
        if not isinstance(src, VList):
            raise OutOfSubset('list comprehension over %s' % kind_of(src))
        i = z3.Int(fresh_name('ci'))
        jf = z3.Function(fresh_name('cj'), I, I)
        r = st.alloc('comp')
        if len(gens) == 1:
            ek = src.ek
            n = st.llen(src.t)
            new = z3.Const(fresh_name('comp_el'), ARR_IS if ek == 'str' else ARR_II)
            rl = z3.Int(fresh_name('comp_len'))
            st.pc += [rl >= 0, rl <= n]
            if not gens[0].ifs:
                st.pc.append(rl == n)
                k = z3.Int(fresh_name('k'))
                st.pc.append(smt.forall([k], z3.Select(new, k) == st.lget(src.t, k, ek), patterns=[z3.Select(new, k)]))
            else:
                st.pc.append(smt.forall([i], z3.Implies(z3.And(0 <= i, i < rl),
                                                        z3.And(0 <= jf(i), jf(i) < n, z3.Select(new, i) == st.lget(src.t, jf(i), ek))),
                                        patterns=[z3.Select(new, i)]))
            st.wr('$len', r, rl)
            st.lset_all(r, new, ek)
            return VList(r, ek)
        if not isinstance(gens[0].target, ast.Name):
            raise OutOfSubset('list comprehension target')
        # inner iterable at an arbitrary outer index k
        k = z3.Int(fresh_name('ck'))
        n = st.llen(src.t)
        saved = st.env.get(gens[0].target.id)
        st.guards.append(z3.And(0 <= k, k < n))
        try:
            st.env[gens[0].target.id] = self.elem_value(st.lget(src.t, k, src.ek), src.ek)
            inner = self.ev.ev(st, gens[1].iter)
        finally:
            st.guards.pop()
            if saved is None:
                st.env.pop(gens[0].target.id, None)
            else:
                st.env[gens[0].target.id] = saved
        if not isinstance(inner, VList):
            raise OutOfSubset('list comprehension over %s' % kind_of(inner))
        ek = inner.ek
        kf = z3.Function(fresh_name('ck'), I, I)
        new = z3.Const(fresh_name('comp_el'), ARR_IS if ek == 'str' else ARR_II)
        rl = z3.Int(fresh_name('comp_len'))
        st.pc.append(rl >= 0)
        inner_at = lambda t: z3.substitute(inner.t, (k, t))       # noqa: E731
        st.pc.append(smt.forall([i], z3.Implies(
            z3.And(0 <= i, i < rl),
            z3.And(0 <= kf(i), kf(i) < n, 0 <= jf(i), jf(i) < st.llen(inner_at(kf(i))),
                   z3.Select(new, i) == st.lget(inner_at(kf(i)), jf(i), ek))), patterns=[z3.Select(new, i)]))
        k2 = z3.Int(fresh_name('k'))
        st.pc.append(smt.forall([k2], z3.Implies(z3.And(0 <= k2, k2 < n), st.llen(inner_at(k2)) <= rl),
                                patterns=[st.lget(src.t, k2, src.ek)]))
        st.wr('$len', r, rl)
        st.lset_all(r, new, ek)
        return VList(r, ek)

    # ------------------------------------------------------------------ maps (dict objects in the heap)
    def map_key(self, m, k):
        if m.kk == 'str':
            if not isinstance(k, VStr):
                raise OutOfSubset('non-str key for a str-keyed dict')
            return k.t
        return self.as_ref(k) if not isinstance(k, (VInt, VBool)) else self.as_int(k)

    def map_value(self, st, m, key):
        vk = m.vk
        if vk == 'str':
            return VStr(st.mvals(m.t, key, m.kk))
        t = st.mval(m.t, key, m.kk)
        if vk == 'int':
            return VInt(t)
        if vk.startswith('ref'):
            return VRef(t, vk[4:] or None)
        if vk.startswith('map:'):
            kk, v2 = vk[4:].split(':', 1)
            return VMap(t, kk, v2)
        if vk.startswith('list:'):
            return VList(t, vk[5:])
        if vk == 'any':
            return VAny(t)
        raise OutOfSubset('dict value kind %r' % vk)

    def map_method(self, st, m, name, args):
        if name == 'get':
            key = self.map_key(m, args[0])
            has = st.mhas(m.t, key, m.kk)
            v = self.map_value(st, m, key)
            d = args[1] if len(args) > 1 else VNONE
            return self.ev.ite(st, has, v, d if not isinstance(d, VNoneT) or not isinstance(v, VInt) else d)
        if name == 'setdefault':
            key = self.map_key(m, args[0])
            has = st.mhas(m.t, key, m.kk)
            cur = st.mval(m.t, key, m.kk)
            dflt = args[1]
            if isinstance(dflt, VPy) and dflt.obj is EMPTY_DICT:
                dflt = self.new_map(st, m.vk)
            if isinstance(dflt, VTuple) and m.vk == 'any':
                dflt = VAny(st.alloc('tuple'))          # a tuple stored as an opaque value (its components are not tracked)
            new = self.as_ref(dflt) if not isinstance(dflt, VInt) else dflt.t
            val = z3.If(has, cur, new)
            st.mput(m.t, key, val, m.kk)
            return self.map_value(st, m, key)
        raise OutOfSubset('dict.%s' % name)

    def new_map(self, st, kind):
        """fresh empty dict of kind 'map:<kk>:<vk>'"""
        if not kind.startswith('map:'):
            raise OutOfSubset('empty dict where a %s is expected' % kind)
        kk, vk = kind[4:].split(':', 1)
        r = st.alloc('dict')
        name, rng_, cur = st._marr(r, 'has', kk)
        empty = z3.K(S if kk == 'str' else I, z3.BoolVal(False))
        st.heap[name] = z3.Store(st.arr(name, z3.ArraySort(I, rng_)), r, empty)
        return VMap(r, kk, vk)

    def dict_comp(self, st, e):
        """{k: v for k, v in m.items() if cond}: a fresh dict holding a subset of m's entries (the filter is abstracted:
        which entries survive is left open, entries are never changed or invented)."""
        g = e.generators
        if len(g) != 1 or not (isinstance(g[0].iter, ast.Call) and isinstance(g[0].iter.func, ast.Attribute)
                               and g[0].iter.func.attr == 'items'):
            raise OutOfSubset('dict comprehension shape')
        tgt = g[0].target
        if not (isinstance(tgt, ast.Tuple) and len(tgt.elts) == 2 and isinstance(e.key, ast.Name) and isinstance(e.value, ast.Name)
                and e.key.id == tgt.elts[0].id and e.value.id == tgt.elts[1].id):
            raise OutOfSubset('dict comprehension that changes keys or values')
        src = self.ev.ev(st, g[0].iter.func.value)
        if not isinstance(src, VMap):
            raise OutOfSubset('dict comprehension over %s' % kind_of(src))
        new = self.new_map(st, 'map:%s:%s' % (src.kk, src.vk))
        k = z3.Const(fresh_name('k'), S if src.kk == 'str' else I)
        hname, hr, _ = st._marr(new.t, 'has', src.kk)
        hv = z3.Const(fresh_name('sub'), hr)
        st.heap[hname] = z3.Store(st.arr(hname, z3.ArraySort(I, hr)), new.t, hv)
        vname, vr, _ = st._marr(new.t, 'val', src.kk)
        st.heap[vname] = z3.Store(st.arr(vname, z3.ArraySort(I, vr)), new.t, st._marr(src.t, 'val', src.kk)[2])
        st.pc.append(z3.ForAll([k], z3.Implies(z3.Select(hv, k), st.mhas(src.t, k, src.kk))))
        return new

    def map_contains(self, st, m, k):
        raise OutOfSubset('membership in object of class %s' % m.cls)

    def map_get(self, st, m, k):
        raise OutOfSubset('subscript of object of class %s' % m.cls)

    # ------------------------------------------------------------------ == on references
    def ref_eq(self, st, a, b):
        cands = set()
        for r in (a,):
            base = classes.get(r.cls) if r.cls else None
            if base is None:
                raise OutOfSubset('== on reference of unknown class')
            for n, k in classes.table().items():
                if issubclass(k, base) and k.__eq__ is not object.__eq__:
                    cands.add('%s.%s' % (k.__eq__.__module__, k.__eq__.__qualname__))
        if not cands:
            return a.t == b.t
        res = None
        for q in sorted(cands):
            c = REG.get(q)
            if c is None:
                raise BindingError('class with __eq__ %s has no contract' % q)
            if c.eq_on_ref == 'identity':
                r = (a.t == b.t)
            elif c.eq_on_ref == 'contract':
                v = self.call_contract(st, q, [a, b], {})
                return v.t
            else:
                raise BindingError('contract of %s does not say how == behaves on references' % q)
            res = r
        return res

    def ref_eq_str(self, st, r, s):
        """ref == 'literal': _StringComparisonMixin compares the value; other classes are never equal to a str."""
        base = classes.get(r.cls) if r.cls else None
        if base is None:
            raise OutOfSubset('== on reference of unknown class')
        mix = classes.get('_StringComparisonMixin')
        hits = [k for k in classes.table().values() if issubclass(k, base) and k.__eq__ is not object.__eq__]
        if not hits:
            return z3.BoolVal(False)
        if all(issubclass(k, mix) for k in hits):
            c = REG.get('parso.python.tree._StringComparisonMixin.__eq__')
            if c is None or c.eq_on_ref != 'identity':
                raise BindingError('_StringComparisonMixin.__eq__ has no contract')
            ismix = z3.Function('$is_strcmp', I, B)(r.t)
            return z3.And(r.t != 0, ismix, st.rd('value', r.t, S) == s.t)
        raise OutOfSubset('== between %s and str' % r.cls)
