from props.common import run_bounded


def run(report):
    run_bounded(report, ['err', 'blk'])
