"""Symbolic values of the VC generator and the kind language of contracts.

Kinds (strings used in contracts):
  int  bool  str  none  pos (= tuple of two ints)  tuple:<k1>,<k2>,...
  ref:<Class>  (object reference; 0 is None)       list:<elemkind>   (heap list; elemkind in ref:<C>/int/str)
  opt:<scalar kind>   (None or a scalar; for things like change_time)
  any  (opaque value: only identity / truthiness-free uses)
"""
import z3

I = z3.IntSort()
B = z3.BoolSort()
S = z3.StringSort()


class OutOfSubset(Exception):
    """The real code uses a construct the encoding does not model: obligations become undecided."""


class V:
    pass


class VInt(V):
    def __init__(self, t):
        self.t = z3.IntVal(t) if isinstance(t, int) and not isinstance(t, bool) else t

    def __repr__(self):
        return 'VInt(%s)' % self.t


class VBool(V):
    def __init__(self, t):
        self.t = z3.BoolVal(t) if isinstance(t, bool) else t

    def __repr__(self):
        return 'VBool(%s)' % self.t


class VStr(V):
    def __init__(self, t, b=False):
        self.t = z3.StringVal(t) if isinstance(t, str) else t
        self.b = b          # a bytes object (one character per byte); str otherwise

    def lit(self):
        if z3.is_string_value(self.t):
            return self.t.as_string()
        return None

    def __repr__(self):
        return 'VStr(%s)' % self.t


class VNoneT(V):
    def __repr__(self):
        return 'VNone'


VNONE = VNoneT()


class VTuple(V):
    def __init__(self, items):
        self.items = list(items)

    def __repr__(self):
        return 'VTuple(%r)' % (self.items,)


class VRef(V):
    """Object reference; the integer 0 is None.  cls: static class name (may be a base class)."""

    def __init__(self, t, cls=None):
        self.t = z3.IntVal(t) if isinstance(t, int) else t
        self.cls = cls

    def __repr__(self):
        return 'VRef(%s:%s)' % (self.t, self.cls)


class VList(V):
    """Reference to a heap list.  ek: element kind string."""

    def __init__(self, t, ek):
        self.t = t
        self.ek = ek

    def __repr__(self):
        return 'VList(%s:%s)' % (self.t, self.ek)


class VMap(V):
    """Reference to a heap dict.  kk: key kind ('str' or 'int'/'ref...'), vk: value kind."""

    def __init__(self, t, kk, vk):
        self.t, self.kk, self.vk = t, kk, vk

    def __repr__(self):
        return 'VMap(%s:%s->%s)' % (self.t, self.kk, self.vk)


class VOpt(V):
    def __init__(self, isnone, val):
        self.isnone = isnone
        self.val = val


class VPy(V):
    """A concrete Python constant (tuple/dict/set of literals, class object, module)."""

    def __init__(self, obj):
        self.obj = obj

    def __repr__(self):
        return 'VPy(%r)' % (self.obj,)


class VFn(V):
    """Callable: kind in 'func' (qualname), 'bound' (recv, qualname), 'builtin' (name), 'spec' (python fn),
    'lmethod' (list/str/dict method: recv, name), 'closure' (FunctionDef, captured env)"""

    def __init__(self, kind, **kw):
        self.kind = kind
        self.__dict__.update(kw)

    def __repr__(self):
        return 'VFn(%s)' % self.kind


class VAny(V):
    """Opaque value identified by an integer term (equality = identity)."""

    def __init__(self, t):
        self.t = t


_counter = [0]


def fresh_name(base):
    _counter[0] += 1
    return '%s!%d' % (base, _counter[0])


def fresh(kind, base='v'):
    """Fresh symbolic value of a kind (heap contents of new refs are unconstrained)."""
    if kind == 'int':
        return VInt(z3.Int(fresh_name(base)))
    if kind == 'bool':
        return VBool(z3.Bool(fresh_name(base)))
    if kind == 'str':
        return VStr(z3.String(fresh_name(base)))
    if kind == 'bytes':
        return VStr(z3.String(fresh_name(base)), b=True)
    if kind == 'none':
        return VNONE
    if kind == 'pos':
        return VTuple([fresh('int', base + '.0'), fresh('int', base + '.1')])
    if kind.startswith('tuple:'):
        return VTuple([fresh(k, base + '.%d' % i) for i, k in enumerate(split_kinds(kind[6:]))])
    if kind.startswith('ref:'):
        return VRef(z3.Int(fresh_name(base)), kind[4:])
    if kind == 'ref':
        return VRef(z3.Int(fresh_name(base)), None)
    if kind.startswith('list:'):
        return VList(z3.Int(fresh_name(base)), kind[5:])
    if kind.startswith('map:'):
        kk, vk = kind[4:].split(':', 1)
        return VMap(z3.Int(fresh_name(base)), kk, vk)
    if kind.startswith('opt:'):
        return VOpt(z3.Bool(fresh_name(base + '.isnone')), fresh(kind[4:], base))
    if kind == 'any':
        return VAny(z3.Int(fresh_name(base)))
    raise OutOfSubset('unknown kind %r' % kind)


def split_kinds(s):
    """split 'int,tuple:int,int' is not supported nested; flat comma list only"""
    return [k.strip() for k in s.split(',') if k.strip()]


def kind_of(v):
    if isinstance(v, VInt):
        return 'int'
    if isinstance(v, VBool):
        return 'bool'
    if isinstance(v, VStr):
        return 'bytes' if getattr(v, 'b', False) else 'str'
    if isinstance(v, VNoneT):
        return 'none'
    if isinstance(v, VTuple):
        return 'tuple'
    if isinstance(v, VRef):
        return 'ref'
    if isinstance(v, VList):
        return 'list'
    if isinstance(v, VOpt):
        return 'opt'
    if isinstance(v, VMap):
        return 'map'
    return type(v).__name__


def elem_sort(ek):
    return S if ek == 'str' else I
