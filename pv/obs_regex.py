"""Regex obligations (kind D, back end reglan:z3) on the live patterns of parso.python.tokenize / prefix / utils."""
import importlib
import re

import z3

from pv import rx, smt
from pv.core import Ob, DISCHARGED, REFUTED, UNDECIDED, VENV_PY, VERIF, REPO
from pv.rx import lit, chars, not_chars, union, concat, ALL, ANYCHAR, EPS, NONE

BOM = '\ufeff'
NL = union([lit('\r\n'), lit('\r'), lit('\n')])
BRK = chars('\r\n')
NOBRK = z3.Star(not_chars('\r\n'))
HASBRK = z3.Concat(ALL, BRK, ALL)
TOK = 'parso.python.tokenize'
PFX = 'parso.python.prefix'


def _tc(version):
    tk = importlib.import_module(TOK)
    from parso.utils import PythonVersionInfo
    major, minor = version.split('.')
    return tk._get_token_collection(PythonVersionInfo(int(major), int(minor)))


def _native(code):
    """Run a replay snippet under the test-suite interpreter; exit status 1 = reproduced."""
    import os
    import subprocess
    env = dict(os.environ, PYTHONPATH=VERIF + os.pathsep + REPO)
    p = subprocess.run([VENV_PY, '-c', code], env=env, capture_output=True, text=True, timeout=60)
    return p.returncode == 1, (p.stdout + p.stderr)[-400:]


def _shape(name, pattern, n, functions):
    try:
        groups, t = rx.top_groups(pattern)
    except rx.Unsupported as e:
        return None, None, Ob(name, 'D', 'reglan:structure', UNDECIDED, 0, 'binding error: %s' % e, functions=functions)
    if len(groups) != n:
        return None, None, Ob(name, 'D', 'reglan:structure', UNDECIDED, 0,
                              'binding error: pattern has %d top-level groups, contract expects %d' % (len(groups), n),
                              functions=functions)
    return groups, t, Ob(name, 'D', 'reglan:structure', DISCHARGED, 0,
                         'pattern is a sequence of %d capturing groups: match groups are contiguous slices' % n,
                         functions=functions)


# ------------------------------------------------------------------------------- tokenizer
def prefix_language(tc, comment_class_extra=''):
    """P: everything tokenize_lines can put into a prefix (from the assignments to prefix/additional_prefix):
    leading BOM, group 1 of the pseudo token, comment tokens, newline tokens, backslash continuations."""
    groups, t = rx.top_groups(tc.pseudo_token)
    g1 = groups[0][1]
    g2 = groups[1][1]
    comment = z3.Intersect(g2, z3.Concat(lit('#'), ALL))
    if comment_class_extra:
        comment = z3.Intersect(comment, z3.Star(not_chars(comment_class_extra)))
    newline = z3.Intersect(g2, z3.Concat(BRK, ALL))
    bs = union([lit('\\\n'), lit('\\\r\n'), lit('\\\r')])
    body = z3.Star(union([g1, comment, newline, bs]))
    return z3.Concat(z3.Option(lit(BOM)), body), dict(g1=g1, g2=g2, comment=comment, newline=newline)


def token_table_obligations(version):
    """T: the shape facts about one live token collection that the contract of _get_token_collection states
    (contracts/tokenizer.py TC_FACTS): decided by inspection of the finite tables."""
    import re as _re
    tc = _tc(version)
    bad = []
    if not (isinstance(tc.pseudo_token, _re.Pattern) and isinstance(tc.whitespace, _re.Pattern)):
        bad.append('pseudo_token / whitespace are not compiled patterns')
    for k, p in tc.endpats.items():
        if not (isinstance(k, str) and isinstance(p, _re.Pattern)):
            bad.append('endpats[%r]' % (k,))
    for k, q in tc.fstring_pattern_map.items():
        if not (isinstance(q, str) and len(q) >= 1 and q in tc.endpats):
            bad.append('fstring_pattern_map[%r] = %r has no end pattern' % (k, q))
    for q in tc.triple_quoted:
        if q not in tc.endpats:
            bad.append('triple quote %r has no end pattern' % (q,))
    for q in tc.single_quoted:
        if not (1 <= len(q) <= 3 and q[-1:] in tc.endpats):
            bad.append('single quote %r: last character has no end pattern' % (q,))
    return [Ob('tok:%s:tables' % version, 'T', 'class-table', DISCHARGED if not bad else REFUTED, 0,
               'end patterns exist for every f-string quote, triple quote and for the quote character of every (prefixed) '
               'single quote; %d end patterns, %d single, %d triple quotes' % (len(tc.endpats), len(tc.single_quoted), len(tc.triple_quoted))
               if not bad else '; '.join(bad[:5]), None if not bad else dict(failures=bad[:10]),
               functions=[TOK + '._create_token_collection', TOK + '.tokenize_lines'], replayed=True if bad else None)]


def tokenizer_obligations(version, props=('C09',)):
    f = [TOK + '.tokenize_lines', TOK + '._create_token_collection']
    tc = _tc(version)
    v = version
    obs = list(token_table_obligations(version))
    groups, t, o = _shape('re:pseudo_token[%s]:shape' % v, tc.pseudo_token, 2, f)
    obs.append(o)
    if groups is None:
        return obs
    g1, g2 = groups[0][1], groups[1][1]
    g3 = t.groups.get(3)
    ws = z3.Star(chars(' \f\t'))
    obs.append(rx.ob_subset('re:pseudo_token[%s]:group1-is-whitespace' % v, g1, ws, f,
                            what='group 1 (becomes prefix text) is only blanks, tabs, form feeds'))
    wsl, _ = rx.lang(tc.whitespace)
    obs.append(rx.ob_subset('re:whitespace[%s]:only-blank' % v, wsl, ws, f, what='fallback whitespace pattern'))
    obs.append(rx.ob_subset('re:pseudo_token[%s]:hash-token-is-comment' % v,
                            z3.Intersect(g2, z3.Concat(lit('#'), ALL)), z3.Concat(lit('#'), NOBRK), f,
                            what='a token whose first character is # (dispatch: prefix) is a comment without line break'))
    obs.append(rx.ob_subset('re:pseudo_token[%s]:break-token-is-newline' % v,
                            z3.Intersect(g2, z3.Concat(BRK, ALL)), NL, f,
                            what='a token whose first character is CR/LF (dispatch: NEWLINE or prefix) is exactly one line break'))
    if g3 is None:
        obs.append(Ob('re:pseudo_token[%s]:name-no-break' % v, 'D', 'reglan:structure', UNDECIDED, 0,
                      'binding error: no capturing group 3 (Name)', functions=f))
    else:
        obs.append(rx.ob_empty('re:pseudo_token[%s]:name-no-break' % v, z3.Intersect(g3, HASBRK), f,
                               what='NAME tokens (Name/Keyword leaves, _LeafWithoutNewlines) contain no line break'))
    # tokens that reach the OP branch (Operator leaves) contain no line break: a token with a break starts with a
    # break (newline branch), a backslash (continuation branch), a quote or a name character (string branches)
    namech = union([rx.rng(ord('A'), ord('Z')), rx.rng(ord('a'), ord('z')), rx.rng(ord('0'), ord('9')), lit('_'),
                    rx.rng(0x80, rx.MAXC)])
    starts = union([BRK, lit('\\'), chars('\'"'), namech])
    obs.append(rx.ob_subset('re:pseudo_token[%s]:op-token-no-break' % v, z3.Intersect(g2, HASBRK),
                            z3.Concat(starts, ALL), f,
                            what='only newline, continuation and string tokens contain a line break (class invariant '
                                 'of Operator/Keyword/Name leaves: breaks(value) == 0)'))
    return obs


# ------------------------------------------------------------------------------- prefix re-lexer
def _pfx():
    return importlib.import_module(PFX)


def _split_prefix_replay(w):
    code = ('import sys\n'
            'from parso.python.prefix import split_prefix\n'
            'class L: pass\n'
            'l = L(); l.prefix = %r; l.parent = None\n'
            'try:\n'
            '    parts = list(split_prefix(l, (1, 0)))\n'
            'except Exception as e:\n'
            '    print("split_prefix raised", type(e).__name__, e); sys.exit(1)\n'
            'ok = "".join(p.spacing + p.value for p in parts) == l.prefix\n'
            'print("tiles" if ok else "does not tile"); sys.exit(0 if ok else 1)\n' % (w,))
    return _native(code)


def relexer_success_language(pattern):
    """D: the strings on which the scanning loop of split_prefix never gets a failed match.

    Derived from the live pattern (spacing)(A1|..|An): the matcher is deterministic when the first-character
    sets of spacing and of the alternatives are pairwise disjoint (checked); an alternative that ends in a
    greedy class star (the comment) is matched maximally, so the next chunk must start outside that class.
    """
    groups, t = rx.top_groups(pattern)
    sp = groups[0][1]
    alts = rx.alternatives(groups[1][2], t)
    c = rx.sre_c
    N, E, K = [], [], None
    for items, r in alts:
        items = list(items)
        if not items or (len(items) == 1 and items[0][0] is c.AT):
            continue                      # the '$' alternative: empty value, ends the loop
        last = items[-1]
        if last[0] is c.MAX_REPEAT and last[1][1] is c.MAXREPEAT and len(last[1][2]) == 1 and last[1][2][0][0] is c.IN:
            cls = union([rx.rng(a, b) for a, b in t.class_ranges(last[1][2][0][1])])
            if K is not None:
                raise rx.Unsupported('two extensible alternatives')
            K = cls
            E.append(r)
        else:
            N.append(r)
    A = z3.Concat(sp, union(N))
    if not E:
        return z3.Concat(z3.Star(A), sp), dict(sp=sp, alts=alts)
    B = z3.Concat(sp, union(E))
    notK = z3.Concat(z3.Intersect(ANYCHAR, z3.Complement(K)), ALL)
    A1 = z3.Intersect(A, notK)
    B1 = z3.Intersect(B, notK)
    T0 = z3.Intersect(sp, z3.Union(EPS, notK))
    D = z3.Concat(z3.Star(z3.Union(A, z3.Concat(B, z3.Star(B1), A1))),
                  z3.Union(sp, z3.Concat(B, z3.Star(B1), T0)))
    return D, dict(sp=sp, alts=alts, K=K)


def prefix_obligations(version='3.10'):
    f = [PFX + '.split_prefix']
    p = _pfx()
    obs = []
    groups, t, o = _shape('re:prefix._regex:shape', p._regex, 2, f)
    obs.append(o)
    if groups is None:
        return obs
    sp, g2 = groups[0][1], groups[1][1]
    obs.append(rx.ob_subset('re:prefix._regex:spacing-no-break', sp, NOBRK, f + [PFX + '.PrefixPart.create_spacing_part'],
                            what='spacing of a part has no line break (precondition of create_spacing_part)'))
    endbrk = z3.Concat(ALL, BRK)
    obs.append(rx.ob_subset('re:prefix._regex:part-ends-in-its-only-break', z3.Intersect(g2, endbrk),
                            z3.Concat(NOBRK, NL), f + [PFX + '.PrefixPart.end_pos'],
                            what='a part value that ends in CR/LF contains exactly that one line break '
                                 '(precondition of PrefixPart.end_pos)'))
    obs.append(rx.ob_subset('re:prefix._regex:part-without-final-break-has-none',
                            z3.Intersect(g2, z3.Complement(endbrk)), NOBRK, f + [PFX + '.PrefixPart.end_pos'],
                            what='a part value that does not end in CR/LF contains no line break'))
    keys = [k for k in p._types]
    obs.append(rx.ob_subset('re:prefix._regex:type-lookup-total', z3.Intersect(g2, z3.Concat(ANYCHAR, ALL)),
                            z3.Concat(chars(keys), ALL), f,
                            what='_types[value[0]] never raises KeyError: every non-empty value starts with a key'))
    # an empty value comes from the '$' alternative only, and then the match ends the string: every other alternative
    # rejects the empty word (RegLan); '$' also matches just before a final line feed, but an alternative that matches
    # exactly that line feed is tried first (ordered alternation, read off the parse tree)
    try:
        alts = rx.alternatives(groups[1][2], t)
        c = rx.sre_c
        bad, at_end_idx, nl_idx = [], None, None
        for ai, (items, r) in enumerate(alts):
            items = list(items)
            if len(items) == 1 and items[0][0] is c.AT and items[0][1] is c.AT_END:
                at_end_idx = ai
                continue
            v_, _, _, _ = smt.check_sat([z3.InRe(z3.StringVal(''), r)], timeout_ms=5000, use_cvc5=False)
            if v_ != 'unsat':
                bad.append('alternative %d may match the empty string' % ai)
            v2, _, _, _ = smt.check_sat([z3.Not(z3.InRe(z3.StringVal('\n'), r))], timeout_ms=5000, use_cvc5=False)
            if v2 == 'unsat' and nl_idx is None:
                nl_idx = ai
        if at_end_idx is None:
            bad.append('no $ alternative')
        elif nl_idx is None or nl_idx > at_end_idx:
            bad.append('no alternative matching a line feed precedes $')
        obs.append(Ob('re:prefix._regex:empty-value-only-at-end', 'D', 'reglan:z3', DISCHARGED if not bad else REFUTED, 0,
                      'value == "" only through $, and then the match ends at the end of the prefix' if not bad else '; '.join(bad),
                      None if not bad else dict(reasons=bad), functions=f, replayed=False if bad else None))
    except rx.Unsupported as e:
        obs.append(Ob('re:prefix._regex:empty-value-only-at-end', 'D', 'reglan:structure', UNDECIDED, 0, 'binding error: %s' % e, functions=f))
    # totality of the re-lexer on everything the tokenizer puts into a prefix
    try:
        D, info = relexer_success_language(p._regex)
    except rx.Unsupported as e:
        obs.append(Ob('re:prefix:relexer-total', 'D', 'reglan:structure', UNDECIDED, 0, 'binding error: %s' % e, functions=f))
        return obs
    tc = _tc(version)
    P_noff, _ = prefix_language(tc, comment_class_extra='\f')
    P, parts = prefix_language(tc)
    obs.append(rx.ob_subset('re:prefix:relexer-total[comments-without-formfeed]', P_noff, D, f, _split_prefix_replay,
                            what='split_prefix never gets a failed match on a tokenizer prefix whose comments contain no form feed'))
    obs.append(rx.ob_subset('re:prefix:relexer-total', P, D, f, _split_prefix_replay,
                            what='split_prefix never gets a failed match on any tokenizer prefix: L(prefix) <= L(re-lexer runs)'))
    return obs


# ------------------------------------------------------------------------------- C15: coding cookie
def cookie_obligations():
    """parso's declaration search against PEP 263 / CPython's tokenize.cookie_re, per line."""
    import tokenize as ref
    f = ['parso.utils.python_bytes_to_unicode']
    obs = []
    # parso searches  coding[=:]\s*([-\w.]+)  anywhere in the first two lines
    src, _, _ = __import__('pv.source', fromlist=['x']).module_ast('parso.utils')
    import ast
    # bind the declaration pattern: the one bytes constant containing b"coding", used anchored (match) -- either
    # inline (re.match(P, source)) or through a module-level re.compile(P) whose .match is called
    consts = [n for n in ast.walk(src) if isinstance(n, ast.Constant) and isinstance(n.value, bytes) and b'coding' in n.value]
    modes = set()
    names = set()
    for n in ast.walk(src):
        if isinstance(n, ast.Call) and isinstance(n.func, ast.Attribute) and n.func.attr in ('match', 'search', 'fullmatch'):
            if n.args and any(c is n.args[0] for c in consts):
                modes.add(n.func.attr)
        if isinstance(n, ast.Assign) and isinstance(n.value, ast.Call) and getattr(n.value.func, 'attr', '') == 'compile' \
                and n.value.args and any(c is n.value.args[0] for c in consts) and isinstance(n.targets[0], ast.Name):
            names.add(n.targets[0].id)
    for n in ast.walk(src):
        if isinstance(n, ast.Call) and isinstance(n.func, ast.Attribute) and isinstance(n.func.value, ast.Name) \
                and n.func.value.id in names and n.func.attr in ('match', 'search', 'fullmatch'):
            modes.add(n.func.attr)
    cookie = [c.value for c in consts]
    if len(cookie) != 1 or modes != {'match'}:
        obs.append(Ob('re:utils.cookie:bind', 'D', 'reglan:structure', UNDECIDED, 0,
                      'binding error: expected one bytes pattern containing "coding" in parso.utils used with .match, '
                      'found %d pattern(s), uses %r' % (len(cookie), sorted(modes)), functions=f))
        return obs
    pl, _ = rx.lang(cookie[0], 'over')
    hi = 255
    anyb = rx.rng(0, hi)
    allb = z3.Star(anyb)
    nocr = z3.Star(union([rx.rng(a, b) for a, b in rx.complement_ranges([[13, 13]], hi)]))
    notnl = union([rx.rng(a, b) for a, b in rx.complement_ranges([[10, 10], [13, 13]], hi)])
    src_parso = z3.Concat(pl, allb)      # sources in which parso finds a declaration

    def enc(p):
        return p.encode('latin-1') if isinstance(p, str) else p
    cookie_ref, _ = rx.lang(enc(ref.cookie_re.pattern), 'over')
    line = z3.Star(notnl)
    c_line = z3.Intersect(z3.Concat(cookie_ref, line), line)            # a line holding a PEP 263 declaration
    # "the first line is blank or a comment": transcription of tokenize.blank_re for a line without its newline,
    # validated against blank_re itself on every string of length <= 4 over a 7-character alphabet
    b_line = z3.Concat(z3.Star(chars(' \t\x0c')), z3.Option(z3.Concat(lit('#'), line)))
    import itertools
    mine = re.compile(br'[ \t\f]*(?:#[^\n\r]*)?\Z')
    for L in range(5):
        for tup in itertools.product([b' ', b'\t', b'\x0c', b'#', b'a', b'c', b'='], repeat=L):
            w = b''.join(tup)
            if bool(ref.blank_re.match(w + b'\n')) != bool(mine.match(w)):
                obs.append(Ob('re:utils.cookie:bind', 'D', 'reglan:structure', UNDECIDED, 0,
                              'transcription of tokenize.blank_re disagrees with it on %r' % w, functions=f))
                return obs
    # CPython's decoder reads the source with universal newlines (validated against compile() by the bounded stand-in's
    # oracle self-check): a line ends at CRLF, CR or LF
    nl = union([lit('\r\n'), lit('\r'), lit('\n')])
    src_ref = z3.Union(z3.Concat(c_line, z3.Option(z3.Concat(nl, allb))),
                       z3.Concat(b_line, nl, c_line, z3.Option(z3.Concat(nl, allb))))

    def replay(w):
        b = w.encode('latin-1', 'replace')
        code = ('import sys, io, tokenize\n'
                'from parso.utils import python_bytes_to_unicode\n'
                'b = %r\n'
                'try:\n'
                '    enc, _ = tokenize.detect_encoding(io.BytesIO(b).readline)\n'
                '    exp = b.decode(enc)\n'
                'except Exception as e:\n'
                '    print("reference cannot decode:", e); sys.exit(0)\n'
                'try:\n'
                '    got = python_bytes_to_unicode(b)\n'
                'except Exception as e:\n'
                '    print("parso raised", type(e).__name__, e, "; CPython decodes with", enc); sys.exit(1)\n'
                'print("same" if got == exp else "parso %%r != CPython %%r" %% (got, exp)); sys.exit(0 if got == exp else 1)\n' % (b,))
        return _native(code)
    obs.append(rx.ob_subset('re:utils.cookie:only-where-pep263-allows', src_parso, src_ref, f, replay,
                            what='parso finds a coding declaration only in sources where PEP 263 / the running CPython\'s '
                                 'tokenize (cookie_re, blank_re) finds one: a comment on line 1, or on line 2 after a blank/comment line'))
    obs.append(rx.ob_subset('re:utils.cookie:none-missed', src_ref, src_parso, f, replay,
                            what='every source in which CPython finds a declaration is one in which parso finds it'))
    return obs


# ------------------------------------------------------------------------------- C10: lexeme classes
def lexeme_obligations(version):
    """Lexeme languages of parso's token collection against the regex grammar of the running CPython's tokenize."""
    import tokenize as ref
    import token as reftoken
    tk = importlib.import_module(TOK)
    f = [TOK + '._create_token_collection']
    v = version
    obs = []
    # parso's Number: rebuild from the live source constants is not possible (locals); take it from the pseudo token:
    tc = _tc(version)
    groups, t = rx.top_groups(tc.pseudo_token)
    g2items = groups[1][2]
    alts = rx.alternatives(g2items, t)
    if len(alts) != 5:
        obs.append(Ob('re:lexeme[%s]:bind' % v, 'D', 'reglan:structure', UNDECIDED, 0,
                      'binding error: token group has %d alternatives, contract expects 5 '
                      '(PseudoExtras, Number, Funny, ContStr, Name)' % len(alts), functions=f))
        return obs
    extras, number, funny, contstr, name = [r for _, r in alts]
    refnum, _ = rx.lang(ref.Number)
    obs.append(rx.ob_subset('re:lexeme[%s]:number<=ref' % v, number, refnum, f, what='every parso number literal is a CPython number literal'))
    obs.append(rx.ob_subset('re:lexeme[%s]:ref<=number' % v, refnum, number, f, what='every CPython number literal is a parso number literal'))
    # operators: every exact token type of the reference is a parso operator token (':=' from 3.8, '<>'/'!' excluded)
    minor = int(version.split('.')[1])
    ops = sorted(reftoken.EXACT_TOKEN_TYPES)
    want = [o for o in ops if o not in ('!',) and not (o == ':=' and minor < 8)]
    refops = union([lit(o) for o in want])
    obs.append(rx.ob_subset('re:lexeme[%s]:operators' % v, refops, funny, f,
                            what='every operator/delimiter of token.EXACT_TOKEN_TYPES is matched by parso (%d operators)' % len(want)))
    if minor < 8:
        obs.append(rx.ob_empty('re:lexeme[%s]:no-walrus' % v, z3.Intersect(funny, lit(':=')), f, what=':= is not a token before 3.8'))
    # maximal munch inside the ordered operator alternatives: no operator that is matched is a proper prefix of a
    # longer reference operator that the same position would have to yield
    longest = []
    for o in want:
        for o2 in want:
            if o2 != o and o2.startswith(o):
                longest.append((o, o2))
    bad = []
    rxp = re.compile(tc.pseudo_token.pattern)
    for o, o2 in longest:
        m = rxp.match(o2)
        if m is None or m.group(2) != o2:
            bad.append((o, o2, m.group(2) if m else None))
    obs.append(Ob('re:lexeme[%s]:operator-maximal-munch' % v, 'T', 'exhaustive-pairs', DISCHARGED if not bad else REFUTED, 0,
                  'all %d (operator, longer operator) pairs of the reference yield the longer one%s' % (len(longest), '' if not bad else '; failing: %r' % bad[:3]),
                  dict(pairs=bad[:5]) if bad else None, functions=f, replayed=bool(bad)))
    # comments / whitespace / names
    refc, _ = rx.lang(ref.Comment)
    cm = z3.Intersect(extras, z3.Concat(lit('#'), ALL))
    obs.append(rx.ob_subset('re:lexeme[%s]:comment=ref(1)' % v, cm, refc, f, what='parso comment <= CPython comment'))
    obs.append(rx.ob_subset('re:lexeme[%s]:comment=ref(2)' % v, refc, cm, f, what='CPython comment <= parso comment'))
    refname, _ = rx.lang(ref.Name, maxc=127)     # \w+ restricted to ASCII
    asc = z3.Star(rx.rng(0, 127))
    obs.append(rx.ob_subset('re:lexeme[%s]:ascii-name=ref(1)' % v, z3.Intersect(name, asc), z3.Intersect(refname, asc), f,
                            what='ASCII names: parso <= CPython'))
    obs.append(rx.ob_subset('re:lexeme[%s]:ascii-name=ref(2)' % v, z3.Intersect(refname, asc), z3.Intersect(name, asc), f,
                            what='ASCII names: CPython <= parso'))
    # string prefixes
    pref = tk._all_string_prefixes(include_fstring=True)
    refpref = set(ref._all_string_prefixes())
    ok = set(pref) == refpref
    obs.append(Ob('re:lexeme[%s]:string-prefixes' % v, 'T', 'finite-set', DISCHARGED if ok else REFUTED, 0,
                  'string prefix sets equal (%d prefixes)' % len(refpref) if ok else
                  'differ: parso-only %r, CPython-only %r' % (sorted(set(pref) - refpref)[:5], sorted(refpref - set(pref))[:5]),
                  None if ok else dict(parso_only=sorted(set(pref) - refpref), ref_only=sorted(refpref - set(pref))),
                  functions=f, replayed=not ok))
    return obs
