from props.common import run_bounded, verify_keys

KEYS = ['parso.tree.Leaf.get_code', 'parso.tree.BaseNode.get_code', 'parso.tree.BaseNode._get_code_for_children', 'parso.python.tree.Param.get_code',
        'parso.utils.python_bytes_to_unicode', 'parso.python.parser.Parser.convert_leaf', 'parso.tree.Leaf.__init__',
        'parso.python.tokenize._close_fstring_if_necessary', 'parso.python.tokenize._find_fstring_string',
        'parso.python.tokenize.FStringNode.allow_multiline', 'parso.python.tokenize._split_illegal_unicode_name',
        # every token of a finished rule stays a child of its node, except the zero-width INDENT / DEDENT of a suite;
        # the prefix re-lexer tiles the prefix
        'parso.python.parser.Parser.convert_node', 'parso.python.prefix.split_prefix']


def run(report):
    verify_keys(report, KEYS)
    report.assume("tree side only: under wf(tree) and tile(tree, G) (every leaf's prefix/value are adjacent slices of the input "
                  "G, consecutive children adjacent) get_code of every node is the slice it spans; that the tokenizer and "
                  "the parser *establish* tile (split_lines tiling, tokenize_lines tiling, one leaf per token, suite "
                  "INDENT/DEDENT removal, param regrouping) is not discharged deductively: bounded stand-in",
                  "slice normal form: G[a:a+n] + G[a+n:a+n+m] = G[a:a+n+m] is applied by the VC generator when the solver "
                  "proves adjacency and bounds (rule of pv/engine.py concat)")
    run_bounded(report, ['parse', 'tok', 'fstr'])
