"""Sidecar contract registry.  Contracts are bound to the real source by qualified name and loop ordinal."""
import ast
import importlib
import os
import pkgutil

REG = {}
FIELDS = {}        # attribute name or (Class, attribute) -> kind
THEORIES = {}      # name -> fn(eng, st) -> list of z3 axioms
SPECFNS = {}       # name -> fn(eng, st, *args) -> V
CLASS_INV = {}     # class name -> list of clause strings over 'self'
EXT_CLASSES = {}   # class name outside the package -> (module, set of method names): methods are used through ext:<module>.<Class>.<name> contracts
GHOST_ARRAYS = {}  # name of a ghost heap array -> its z3 sort (created on first havoc as well as on first read)
FIELD_VIEWS = {}   # theory name -> {attribute: fn(eng, st, ref term) -> V}  (sound under the theory's axioms)


class Contract:
    def __init__(self, qual, kind='function', params=None, returns='none', requires=(), ensures=(), raises=(),
                 loops=None, inline=(), theories=(), refines=None, modifies=(), yields=None, decreases=None,
                 props=(), eq_on_ref=None, setter=False, joins=None, closure_of=None, free=None, trusted=False, note='',
                 exc_ensures=None, ghost_out=None, fresh_result=False, globals_=None, replay=None, lists=None, yield_acc=None, yield_ensures=None,
                 raises_ensures=None, call_keys=None, frame_assumed=None,
                 frame_prune=None, frame_dispatch=None, match_facts=None, locals_=None, match_layout=None, attr_calls=None, abstract_strings=None):
        self.qual = qual
        self.kind = kind              # function | method | property | generator
        self.params = dict(params or {})
        self.returns = returns
        self.requires = list(requires)
        self.ensures = list(ensures)
        self.raises = list(raises)    # exception class names allowed to escape
        self.loops = dict(loops or {})
        self.joins = dict(joins or {})   # ordinal of ''.join(<genexp>) -> dict(invariant=[...]) over _acc, _i, _n
        self.inline = list(inline)
        self.theories = list(theories)
        self.refines = refines
        self.modifies = list(modifies)  # heap fields a call may change (havocked at call sites)
        self.yields = yields
        self.decreases = decreases
        self.props = list(props)      # property ids this contract serves
        self.eq_on_ref = eq_on_ref
        self.setter = setter
        self.closure_of = closure_of
        self.free = dict(free or {})  # free variables of a closure: name -> kind
        self.trusted = trusted        # contract of an external/builtin: assumed, never verified
        self.note = note
        self.exc_ensures = dict(exc_ensures or {})
        self.fresh_result = fresh_result
        self.globals_ = dict(globals_ or {})
        self.frame_dispatch = dict(frame_dispatch or {})   # method name -> the implementations `self.<name>` can reach (static class of self)
        self.match_layout = dict(match_layout or {})   # variable holding a pattern -> its top-level capturing groups, in order
        self.locals_ = dict(locals_ or {})       # local name -> kind (for empty list literals)
        self.match_facts = dict(match_facts or {})       # module-level pattern name -> clauses over matched, s, pos, end, g1.. (imported RegLan facts / assumptions)
        self.frame_prune = dict(frame_prune or {})       # callee name -> reason: calls the frame check does not follow
        self.frame_assumed = dict(frame_assumed or {})   # attribute -> reason: writes the frame check does not count (assumption)
        self.lists = ('*' if lists == '*' else list(lists)) if lists is not None else None   # list objects a call may change (frame for all others)
        self.yield_acc = dict(yield_acc or {})      # ghost integer accumulators: name -> expression over the yielded value y
        self.yield_ensures = list(yield_ensures or [])   # obligations at every yield, over y and the accumulators (before update)
        self.raises_ensures = dict(raises_ensures or {})   # exception class -> clauses over the raised object `exc`
        self.call_keys = dict(call_keys or {})   # callee qualname -> contract key to use at this function's call sites
        self.attr_calls = dict(attr_calls or {})   # attribute of self holding a callable (class / function given at construction) -> contract key used for calls through it
        self.abstract_strings = abstract_strings   # None | 'first' | 'only': discharge through the string abstraction (pv/abstr.py)
        self.replay = replay          # dict(observe={name: spec expr over the entry state}, script=python template)
        self._parsed = {}

    def parse(self, text):
        p = self._parsed.get(text)
        if p is None:
            p = self._parsed[text] = ast.parse(text.strip(), mode='eval').body
        return p


def contract(qual, **kw):
    tag = ''
    if '#' in qual:
        qual, tag = qual.split('#', 1)
        tag = '#' + tag
    key = qual + ('.setter' if kw.get('setter') else '') + tag
    c = Contract(qual, **kw)
    REG[key] = c
    return c


def fields(**kw):
    FIELDS.update(kw)


OWN_MAPS = set()    # (Class, attribute): stored in a heap map of its own although the kind equals the global declaration


def class_fields(cls, _own=False, **kw):
    """_own=True: the class is unrelated to the classes that share the attribute name (e.g. the diff parser's tree builder
    has a `prefix` like every leaf): its fields get heap maps of their own, so a write to one cannot alias the other"""
    for k, v in kw.items():
        FIELDS[(cls, k)] = v
        if _own:
            OWN_MAPS.add((cls, k))


def ext_class(name, module, methods):
    EXT_CLASSES[name] = (module, set(methods))


def theory(name):
    def deco(fn):
        THEORIES[name] = fn
        return fn
    return deco


def specfn(name):
    def deco(fn):
        SPECFNS[name] = fn
        return fn
    return deco


_loaded = [False]


def load_all():
    if _loaded[0]:
        return
    _loaded[0] = True
    import contracts
    for m in pkgutil.iter_modules(contracts.__path__):
        importlib.import_module('contracts.' + m.name)
