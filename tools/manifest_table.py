NOTES = ("All checks rebuild every obligation from /repo's working tree. Obligation kinds: D = SMT-discharged "
         "verification condition generated from the real function's ast, T = exact decision over a complete finite "
         "domain (all shipped grammar tables / node classes / live regexes), B = bounded stand-in (run-time contract "
         "over a stated scope; never counted as proved). level is 'proof' only when every obligation of the property "
         "is D/T and discharged; otherwise 'other' with the split in the evidence. Exit 0 held / 1 VIOLATION / "
         "2 undecided / 3 checker error. Known findings: known_findings.json.")

NOT_APPLICABLE = [
    dict(property_id='C12', reason="oracle is the CPython compiler of 8 interpreter versions (6 absent offline); no "
         "pre/postcondition over parso's functions can state it without calling that oracle on sampled programs, "
         "which is differential testing, not contract verification"),
    dict(property_id='C14', reason="reference semantics exists only as CPython's ast output on concrete programs; an "
         "independent contract for get_definition & co. would be a second hand-written copy of the same pattern "
         "matching"),
]

_B = ("bounded stand-in: executable contract of the public API checked at run time on every concatenation of <=4 (quick) "
      "/ <=5 (thorough) atoms of a 12-atom adversarial alphabet, seeded random atom strings, mutated template programs "
      "and repository files; ")

CHECKS = {
    'C01': dict(category='other', design_ref='4 C01', technique='run-time contract over exhaustive small scope (bounded); deductive obligations being added',
                text=_B + 'oracle is the input text itself', note='bounded only so far; nothing is proved'),
    'C02': dict(category='other', design_ref='4 C02', technique='run-time contract over exhaustive small scope (bounded)',
                text=_B + 'parse never raises and returns a well-formed module', note='bounded only so far; recursion depth not modelled'),
    'C03': dict(category='other', design_ref='4 C03', technique='run-time contract over exhaustive small scope (bounded)',
                text=_B + 'oracle walks the input with the spec function advance()', note='bounded only so far'),
    'C07': dict(category='other', design_ref='4 C07', technique='run-time relational contract over exhaustive small scope (bounded)',
                text=_B + 'strict raises iff recovered tree has an error object; same tree; same first token', note='bounded only so far'),
    'C11': dict(category='other', design_ref='4 C11', technique='run-time contract over exhaustive small scope (bounded)',
                text=_B + 'navigation API against own in-order leaf numbering, every position of the text', note='bounded only so far'),
    'C19': dict(category='other', design_ref='4 C19', technique='run-time contract over exhaustive small scope (bounded)',
                text=_B + 'eval(dump()) for 4 indent styles, pickle round trip, refactor = splice for 1 and 2 disjoint nodes', note='bounded only so far'),
}
