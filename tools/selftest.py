#!/usr/bin/env python3
"""Must-fail mutants (DESIGN 2.8 ii): each committed mutant is applied to a scratch copy of /repo/parso under a fresh
mktemp directory (removed afterwards); the deductive part of the named property's check (bounded back end skipped)
must report a violation of the expected obligation.  Writes selftest/kill_matrix.json.   Informational only."""
import json
import os
import shutil
import subprocess
import sys
import tempfile
from concurrent.futures import ThreadPoolExecutor

HERE = os.path.dirname(os.path.dirname(os.path.abspath(__file__)))
REPO = os.environ.get('PARSO_REPO', '/repo')


def run(m):
    d = tempfile.mkdtemp(prefix='pv_mut_')
    try:
        shutil.copytree(os.path.join(REPO, 'parso'), os.path.join(d, 'parso'), ignore=shutil.ignore_patterns('__pycache__'))
        p = os.path.join(d, m['file'])
        s = open(p).read()
        if m['old'] not in s:
            return dict(id=m['id'], prop=m['prop'], result='does-not-apply')
        open(p, 'w').write(s.replace(m['old'], m['new'], 1))
        env = dict(os.environ, PARSO_REPO=d, PV_SKIP_BOUNDED='1', PV_OUT_DIR=os.path.join(d, 'out'), PV_CVC5_TIMEOUT_S='3')
        try:
            r = subprocess.run([os.path.join(HERE, 'check'), m['prop'], '--tier', 'quick'], env=env, capture_output=True, text=True, timeout=1500)
        except subprocess.TimeoutExpired:
            return dict(id=m['id'], prop=m['prop'], expect=m['expect'], result='timeout')
        lines = [l for l in r.stdout.splitlines() if l.startswith(('VIOLATION', 'UNDECIDED'))]
        hit = [l for l in lines if l.startswith('VIOLATION') and m['expect'] in l]
        return dict(id=m['id'], prop=m['prop'], expect=m['expect'], result='killed' if hit else ('other-violation' if any(l.startswith('VIOLATION') for l in lines) else 'survived'),
                    exit=r.returncode, reported=[l[:160] for l in lines[:4]])
    finally:
        shutil.rmtree(d, ignore_errors=True)


def main():
    ms = json.load(open(os.path.join(HERE, 'selftest', 'mutants.json')))
    only = set(sys.argv[1:])
    if only:
        ms = [m for m in ms if m['id'] in only or m['prop'] in only]
    with ThreadPoolExecutor(8) as ex:
        res = list(ex.map(run, ms))
    for r in res:
        print('%-4s %-4s %-16s %s' % (r['id'], r['prop'], r['result'], (r.get('reported') or [''])[0][:120]))
    if not only:
        json.dump(dict(mutants=len(res), killed=sum(r['result'] == 'killed' for r in res), results=res),
                  open(os.path.join(HERE, 'selftest', 'kill_matrix.json'), 'w'), indent=1)
    return 0


if __name__ == '__main__':
    sys.exit(main())
