"""Bridge to the bounded back end (harness/, run under the test-suite interpreter)."""
import json
import os
import subprocess
import tempfile
import time

from pv.core import Ob, DISCHARGED, REFUTED, UNDECIDED, VERIF, REPO, VENV_PY

TIERS = {
    # n atoms exhaustive, random, template, versions exhaustive, versions for the random tail
    'quick': dict(n=4, rnd=30000, tpl=20000, versions='3.6,3.14',
                  rnd_versions='3.6,3.8,3.9,3.10,3.12,3.14'),
    'thorough': dict(n=5, rnd=300000, tpl=200000, versions='3.6,3.8,3.10,3.12,3.14',
                     rnd_versions='3.6,3.7,3.8,3.9,3.10,3.11,3.12,3.13,3.14'),
}


def run_harness(prop, alpha, tier, seed, scale=1.0, extra='', no_files=False, n=None, versions=None, timeout=3000,
                rnd_versions=None):
    if os.environ.get('PV_SKIP_BOUNDED'):
        return dict(evaluations=0, distinct_nontrivial=0, failures=[], samples=[], wall_s=0.0, rule='skipped (PV_SKIP_BOUNDED)',
                    scope=dict(exhaustive_programs=0))
    t = dict(TIERS[tier])
    if n is not None:
        t['n'] = n
    if versions:
        t['versions'] = versions
    if rnd_versions:
        t['rnd_versions'] = rnd_versions
    fd, out = tempfile.mkstemp(prefix='pv_%s_' % prop, suffix='.json')
    os.close(fd)
    cmd = [VENV_PY, '-m', 'harness.run', '--prop', prop, '--alpha', alpha or 'none', '--n', str(t['n']),
           '--rnd', str(int(t['rnd'] * scale)), '--tpl', str(int(t['tpl'] * scale)),
           '--versions', t['versions'], '--rnd-versions', t['rnd_versions'],
           '--seed', str(seed), '--out', out, '--repo', REPO]
    if extra:
        cmd += ['--extra', extra]
    if no_files:
        cmd.append('--no-files')
    env = dict(os.environ)
    env['PYTHONPATH'] = VERIF + os.pathsep + REPO
    env['PYTHONDONTWRITEBYTECODE'] = '1'
    try:
        p = subprocess.run(cmd, cwd=VERIF, env=env, capture_output=True, text=True, timeout=timeout)
        if p.returncode != 0:
            raise RuntimeError('bounded harness failed (rc %d): %s' % (p.returncode, p.stderr[-2000:]))
        with open(out) as f:
            return json.load(f)
    finally:
        if os.path.exists(out):
            os.remove(out)


def bounded_obligations(report, prop, names, res, functions=()):
    """Turn a harness result into B obligations: one per declared name, plus one per failure group."""
    failed = {}
    for f in res['failures']:
        failed.setdefault(f['ob'], []).append(f)
    t = res['wall_s'] / max(1, len(names))
    if os.environ.get('PV_SKIP_BOUNDED'):
        return res
    for name in names:
        if name not in failed:
            report.add(Ob(name, 'B', 'runtime-contract', DISCHARGED, t, functions=functions,
                          detail='held on %d evaluations' % res['evaluations']))
    for name, fl in failed.items():
        for f in fl:
            report.add(Ob(name, 'B', 'runtime-contract', REFUTED, t, functions=functions,
                          detail='%s (x%d)' % (f['detail'], f['count']), signature=f['sig'],
                          witness=dict(input=f['inp'], version=f.get('version'), count=f['count'],
                                       truncated=f.get('inp_truncated', False)),
                          replayed=True))
    b = report.bounded
    b['evaluations'] = b.get('evaluations', 0) + res['evaluations']
    b['distinct_nontrivial'] = max(b.get('distinct_nontrivial', 0), res['distinct_nontrivial'])
    b.setdefault('samples', []).extend(res.get('samples', [])[:4])
    b['rule'] = res['rule']
    b['scope'] = res['scope']
    b['exhaustive'] = False
    if res.get('pred_stats'):
        b.setdefault('scope', {})['pred_stats'] = res['pred_stats']
    return res


def run_script(module, args, timeout=3000):
    """Run a harness script (python -m <module> ... --out <tmp>) under the test-suite interpreter -> result dict."""
    if os.environ.get('PV_SKIP_BOUNDED'):
        return dict(evaluations=0, distinct_nontrivial=0, failures=[], samples=[], wall_s=0.0, rule='skipped (PV_SKIP_BOUNDED)',
                    scope={}, per_version=[])
    fd, out = tempfile.mkstemp(prefix='pv_', suffix='.json')
    os.close(fd)
    env = dict(os.environ)
    env['PYTHONPATH'] = VERIF + os.pathsep + REPO
    env['PYTHONDONTWRITEBYTECODE'] = '1'
    try:
        p = subprocess.run([VENV_PY, '-m', module] + list(args) + ['--out', out, '--repo', REPO], cwd=VERIF, env=env,
                           capture_output=True, text=True, timeout=timeout)
        if p.returncode != 0:
            raise RuntimeError('%s failed (rc %d): %s' % (module, p.returncode, p.stderr[-2000:]))
        with open(out) as f:
            return json.load(f)
    finally:
        if os.path.exists(out):
            os.remove(out)
