"""C08: the small helpers of the parser generator (parso/pgen2/generator.py) under contract.

DFAState.__eq__ is the state equivalence _simplify_dfas merges by (same finality, the same labels leading to the identical
states); unifystate redirects exactly the arcs that pointed to the merged state; add_arc never overwrites an arc;
_make_transition gives every spelling of a reserved string the one shared ReservedString of its value and a named token
its token type.  The dict loops are verified with the enumerated iteration (each entry exactly once)."""
from pv.contract import contract, class_fields, fields

class_fields('DFAState', arcs='map:str:ref:DFAState', is_final='bool', from_rule='str')

ARCS_NN = 'forall(lambda l: implies(l in self.arcs, self.arcs[l] is not None), kinds=dict(l="str"))'
contract('parso.pgen2.generator.DFAState.__eq__', params={'self': 'ref:DFAState', 'other': 'ref:DFAState'}, returns='bool',
         requires=['other is not None', 'self.arcs is not None', 'other.arcs is not None', 'isinstance(other, DFAState)'],
         ensures=['result == (self.is_final == other.is_final and len(self.arcs) == len(other.arcs) and '
                  'forall(lambda l: implies(l in self.arcs, l in other.arcs and self.arcs[l] is other.arcs[l]), kinds=dict(l="str")))'],
         loops={0: dict(enum=True, invariant=[
             'forall(lambda l: implies(l in self.arcs and key_idx(l) < _i, l in other.arcs and self.arcs[l] is other.arcs[l]), kinds=dict(l="str"))'])},
         raises=[], modifies=[], lists=[], props=['C08'])

contract('parso.pgen2.generator.DFAState.unifystate', params={'self': 'ref:DFAState', 'old': 'ref:DFAState', 'new': 'ref:DFAState'},
         requires=['self.arcs is not None', 'new is not None', 'old is not None', ARCS_NN],
         ensures=['forall(lambda l: (l in self.arcs) == old(l in self.arcs), kinds=dict(l="str"))',
                  # exactly the arcs that led to `old` lead to `new` now, every other arc is what it was
                  'forall(lambda l: implies(l in self.arcs, self.arcs[l] is ite(old(self.arcs[l]) is old, new, old(self.arcs[l]))), kinds=dict(l="str"))'],
         loops={0: dict(enum=True, invariant=[
             'forall(lambda l: implies(l in self.arcs and key_idx(l) < _i, self.arcs[l] is ite(old(self.arcs[l]) is old, new, old(self.arcs[l]))), kinds=dict(l="str"))',
             'forall(lambda l: implies(l in self.arcs and key_idx(l) >= _i, self.arcs[l] is old(self.arcs[l])), kinds=dict(l="str"))'])},
         raises=[], modifies=['arcs', '$maps'], lists=[], props=['C08'])

contract('parso.pgen2.generator.DFAState.add_arc', params={'self': 'ref:DFAState', 'next_': 'ref:DFAState', 'label': 'str'},
         requires=['self.arcs is not None', 'next_ is not None', 'isinstance(next_, DFAState)', 'not (label in self.arcs)'],
         ensures=['label in self.arcs', 'self.arcs[label] is next_',
                  'forall(lambda l: implies(l != label, (l in self.arcs) == old(l in self.arcs) and '
                  'implies(l in self.arcs, self.arcs[l] is old(self.arcs[l]))), kinds=dict(l="str"))'],
         raises=[], modifies=['arcs', '$maps'], lists=[], props=['C08'])
