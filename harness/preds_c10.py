"""C10 bounded stand-in: parso's token stream for version V equals the tokenize module of CPython V on programs CPython V
compiles, and up to the rejected token on programs its parser rejects with a plain 'invalid syntax'.  References: the
interpreter running the harness (3.12 in /venv) in process, the other versions through harness/ref_tokens.py under the
interpreters of ~/.pyenv/versions (PV_CPYTHONS); a version without an interpreter is counted, not compared."""
import io
import os
import sys
import tokenize as ref
import token as reftok
import warnings

from harness.treeutil import Fail, crash_signature

PYV = '%d.%d' % sys.version_info[:2]
STATS = {'compared_with_cpython': 0}
FLAGS = set()
SIGNIFICANT = {'NAME', 'NUMBER', 'STRING', 'OP', 'NEWLINE', 'INDENT', 'DEDENT', 'ENDMARKER'}


def _inner(toks, cooked):
    """Normal form of the tokens of one (possibly nested) f-string, FSTRING_START .. FSTRING_END inclusive:
    ('F<', opening text), ('FTXT', literal text with adjacent pieces merged and '{{' / '}}' read as one brace),
    (type, text, position) for the tokens of replacement fields, ('F>', closing quote)."""
    out = []
    lit = []

    def flush():
        if ''.join(lit):            # CPython emits empty FSTRING_MIDDLE tokens after a nested field of a format spec
            out.append(('FTXT', ''.join(lit)))
        del lit[:]
    for name, string, pos in toks:
        if name == 'FSTRING_START':
            flush()
            out.append(('F<', string))
        elif name == 'FSTRING_END':
            flush()
            out.append(('F>', string))
        elif name in ('FSTRING_MIDDLE', 'FSTRING_STRING'):
            lit.append(string if cooked else string.replace('{{', '{').replace('}}', '}'))
        elif name in ('COMMENT', 'NL') or (name == 'NEWLINE' and string == ''):
            continue
        else:
            flush()
            out.append((name, string, pos))
    flush()
    return out


def _raw_inprocess(code):
    """-> (compiles, err, raw tokens or None) from the interpreter running the harness"""
    err = None
    compiles = False
    try:
        with warnings.catch_warnings():
            warnings.simplefilter('ignore')
            compile(code, '<c10>', 'exec')
        compiles = True
    except SyntaxError as e:
        err = [type(e).__name__, e.msg, e.lineno, e.offset]
    except (ValueError, RecursionError, MemoryError, OverflowError) as e:
        err = [type(e).__name__, str(e), None, None]
    try:
        toks = [[reftok.tok_name[t.type], t.string, t.start[0], t.start[1]]
                for t in ref.generate_tokens(io.StringIO(code).readline)]
    except (ref.TokenError, SyntaxError, ValueError, RecursionError, MemoryError, OverflowError):
        toks = None
    return compiles, err, toks


_SERVERS = {}
_CPY_ROOT = os.environ.get('PV_CPYTHONS', os.path.expanduser('~/.pyenv/versions'))


def _server(version):
    """A reference tokenizer process under CPython <version> (harness/ref_tokens.py), or None when that interpreter is
    not installed."""
    if version in _SERVERS:
        return _SERVERS[version]
    import glob
    import subprocess
    srv = None
    cands = sorted(glob.glob(os.path.join(_CPY_ROOT, version + '.*', 'bin', 'python')))
    if cands:
        try:
            srv = subprocess.Popen([cands[-1], '-S', '-E', os.path.join(os.path.dirname(os.path.abspath(__file__)), 'ref_tokens.py')],
                                   stdin=subprocess.PIPE, stdout=subprocess.PIPE, universal_newlines=True, bufsize=1)
        except OSError:
            srv = None
    _SERVERS[version] = srv
    return srv


def raw_reference(code, version):
    """-> (compiles, err, raw tokens) from CPython <version>, or None when no such interpreter is available"""
    if version == PYV:
        return _raw_inprocess(code)
    srv = _server(version)
    if srv is None:
        return None
    import json
    try:
        srv.stdin.write(json.dumps({'code': code}) + '\n')
        srv.stdin.flush()
        line = srv.stdout.readline()
        d = json.loads(line)
    except Exception:  # noqa   the server died (e.g. interpreter crash on a pathological input): restart next time
        _SERVERS.pop(version, None)
        return None
    return d['compiles'], d['err'], d['toks']


def _is_fstring_literal(string):
    k = 0
    while k < len(string) and string[k] not in '\'"':
        k += 1
    return 'f' in string[:k].lower()


def reference(raw, inner=True):
    """Normal form of a raw CPython token list [[name, string, line, column], ...]."""
    out = []
    toks = raw
    i = 0
    n = len(toks)
    while i < n:
        name, string, sl, sc = toks[i]
        start = (sl, sc)
        if name in ('COMMENT', 'NL'):
            i += 1
            continue
        if name in ('ASYNC', 'AWAIT'):      # 3.6: context-dependent token types of the same text
            name = 'NAME'
        if name == 'FSTRING_START':
            depth = 0
            j = i
            while j < n:
                nm = toks[j][0]
                if nm == 'FSTRING_START':
                    depth += 1
                elif nm == 'FSTRING_END':
                    depth -= 1
                    if depth == 0:
                        break
                j += 1
            out.append(('STRING', None, start))
            if j < n and toks[j][2] != sl and not string.endswith(('\'\'\'', '"""')):
                FLAGS.add('pep701-multiline-single-quoted-fstring')
            q = string[-1:]
            if any(x[0] in ('FSTRING_START', 'STRING') and x[1].lstrip('rRbBuUfF')[:1] == q for x in toks[i + 1:j]):
                FLAGS.add('pep701-quote-reuse')
            if any(x[0] == 'COMMENT' for x in toks[i + 1:j]):
                FLAGS.add('pep701-comment-in-replacement-field')
            # the inside of the f-string: literal text (adjacent pieces merged; CPython reports '{{' as '{') and the tokens
            # of the replacement fields
            if inner:
                out.extend(_inner([(x[0], x[1], (x[2], x[3])) for x in toks[i:j + 1]], cooked=True))
            i = j + 1
            continue
        if name == 'STRING' and not inner and _is_fstring_literal(string):
            out.append(('STRING', None, start))      # before 3.12 an f-string is one STRING token: its inside is not compared
            i += 1
            continue
        if name == 'NEWLINE' and string == '':
            i += 1
            continue
        if name in ('INDENT', 'DEDENT'):
            out.append((name, None, None))
        elif name == 'ENDMARKER':
            out.append((name, None, None))
        else:
            out.append((name, string, start))
        i += 1
    return out


def parso_stream(code, version, inner=True, upto=None):
    from parso.python.tokenize import tokenize
    from parso.utils import parse_version_string
    out = []
    toks = list(tokenize(code, version_info=parse_version_string(version)))
    if upto is not None:
        toks = [t for t in toks if t.start_pos <= upto]
    i = 0
    n = len(toks)
    while i < n:
        t = toks[i]
        name = t.type.name
        if name == 'FSTRING_START':
            depth = 0
            j = i
            while j < n:
                if toks[j].type.name == 'FSTRING_START':
                    depth += 1
                elif toks[j].type.name == 'FSTRING_END':
                    depth -= 1
                    if depth == 0:
                        break
                j += 1
            out.append(('STRING', None, t.start_pos))
            if inner:
                out.extend(_inner([(x.type.name, x.string, x.start_pos) for x in toks[i:j + 1]], cooked=False))
            i = j + 1
            continue
        if name in ('INDENT', 'DEDENT', 'ENDMARKER'):
            out.append((name, None, None))
        else:
            out.append((name, t.string, t.start_pos))
        i += 1
    return out


def check(code, version, env):
    if '\x00' in code or '\ufeff' in code or '\r' in code.replace('\r\n', ''):
        return []      # BOM and lone CR are handled by the decoder
    # (form feeds used to be excluded as well -- "they reset CPython's column count" -- which hid that the reset changes the
    # INDENT / DEDENT tokens, not the reported columns: now compared, the divergence is a listed known finding)
    r = raw_reference(code, version)
    if r is None:
        STATS['no_reference_interpreter'] = STATS.get('no_reference_interpreter', 0) + 1
        return []
    compiles, err, raw = r
    if raw is None:
        return []
    if version == '3.6':
        # tokenize.py of 3.6 holds an 'async' NAME back until the next token and, when that is a number or a string,
        # emits the two in the wrong order (the number / string branches do not flush the held token): put them back in
        # source order (stable, so zero-width DEDENTs stay in front of the token they precede)
        raw = sorted(raw, key=lambda t: (t[2], t[3]))
    vt = tuple(int(x) for x in version.split('.'))
    import re as _re
    if (3, 9) <= vt < (3, 12) and _re.search(r'\\\r?\n[ \t\x0b]*(?:#[^\r\n]*)?\r?\n', code):
        # a blank or comment-only line right after a backslash continuation: the tokenize module of 3.9-3.11 reports a NEWLINE token, the C
        # tokenizer of 3.9 (seen through the parser module) does not -- no reliable reference for these versions
        STATS['skipped_reference_unreliable'] = STATS.get('skipped_reference_unreliable', 0) + 1
        return []
    inner = vt >= (3, 12)
    upto = None
    if not compiles:
        # CPython's tokenizer accepted the program up to the token its parser rejected: a plain 'invalid syntax' is
        # raised by the parser at the first token it cannot use (offset: start of that token since 3.8, its end before),
        # every token up to and including that one has been produced by the tokenizer without error
        if not err or err[0] != 'SyntaxError' or err[1] != 'invalid syntax' or not err[2] or not err[3]:
            return []
        if '<>' in code:
            return []      # the '<>' error is raised by the tokenizer glue with a position of its own (3.6-3.8)
        # the tokenize module is more lenient than the tokenizer behind compile(): names with characters no identifier may
        # contain (pure-Python \\w+), numbers such as 0_01 (the leading-zero test is off in its C mode): not "tokenized without
        # error" either
        import re as _re2
        if any((t[0] == 'NAME' and not t[1].isidentifier()) or
               (t[0] == 'NUMBER' and not _re2.fullmatch(ref.Number, t[1])) for t in raw if (t[2], t[3]) <= (err[2], err[3] - 1)):
            return []
        upto = (err[2], err[3] - 1)
        raw = [t for t in raw if (t[2], t[3]) <= upto]
        if any(t[0] in ('ERRORTOKEN', 'FSTRING_START') or (t[0] == 'STRING' and _is_fstring_literal(t[1])) for t in raw):
            return []
        # since 3.12 the tokenize module reports characters that are no token at all ('$', '?', '!') as OP, and '<>' is an
        # operator for the tokenizer only under the barry_as_FLUFL future import: not "tokenized without error"
        if any(t[0] == 'OP' and (t[1] not in reftok.EXACT_TOKEN_TYPES or t[1] == '<>') for t in raw):
            return []
    elif any(t[0] == 'ERRORTOKEN' for t in raw):
        return []      # the pure-Python tokenize module (before 3.12) is more lenient than the tokenizer that compiled it
    FLAGS.clear()
    try:
        exp = reference(raw, inner=inner)
    except RecursionError:
        return []
    key = 'compared_with_cpython' if compiles else 'compared_up_to_parser_error'
    STATS[key] = STATS.get(key, 0) + 1
    STATS['compared:' + version] = STATS.get('compared:' + version, 0) + 1
    try:
        got = parso_stream(code, version, inner=inner, upto=upto)
    except Exception as e:  # noqa
        return [Fail('bnd:C10.tokenize.total', crash_signature(e), repr(e), code)]
    if upto is not None:
        # layout tokens after the last compared token carry positions of their own in both tokenizers
        while exp and exp[-1][0] in ('INDENT', 'DEDENT', 'ENDMARKER', 'NEWLINE'):
            exp.pop()
        while got and got[-1][0] in ('INDENT', 'DEDENT', 'ENDMARKER', 'NEWLINE'):
            got.pop()
    if got != exp:
        k = next((i for i in range(min(len(got), len(exp))) if got[i] != exp[i]), min(len(got), len(exp)))
        g = got[k] if k < len(got) else None
        e = exp[k] if k < len(exp) else None
        sig = '%s/%s' % (g[0] if g else '-', e[0] if e else '-')
        import re as _re
        if ('INDENT' in sig or 'DEDENT' in sig) and _re.search(r'(?:^|\n)[ \t]*\\\r?\n', code):
            FLAGS.add('indent-from-continuation-line')
        if ('INDENT' in sig or 'DEDENT' in sig) and _re.search(r'(?:^|\n)[ \t]*\x0c[ \t\x0c]*[^ \t\x0c\r\n#]', code):
            # a form feed in the leading whitespace of a line that carries a token: CPython restarts the indentation column there
            FLAGS.add('formfeed-resets-indentation-column')
        if vt < (3, 9) and e and e[0] == 'NEWLINE' and _re.search(r'\\\r?\n[ \t\x0b]*(?:#[^\r\n]*)?\r?\n', code):
            FLAGS.add('newline-token-for-blank-line-after-continuation')
        if vt >= (3, 13) and e and g and e[0] == 'FTXT' and g[0] == 'OP' and g[1] in ('{', '}') \
                and _re.search(r':[^\'"\n]*(?:\{\{|\}\})', code):
            FLAGS.add('doubled-brace-in-format-spec-3.13')
        if FLAGS:
            sig = sorted(FLAGS)[0]
        how = '' if compiles else ' (tokens up to the parser error at %r)' % (upto,)
        return [Fail('bnd:C10.same_tokens', sig, 'token %d: parso %r, CPython %s %r%s' % (k, g, version, e, how), code)]
    return []
