"""String abstraction back end.

z3's sequence theory was seen to spin without honouring time or resource limits on path conditions of the tokenizer's
main loop.  Most obligations of such a function (index safety, stack discipline, integer bookkeeping) need nothing of
the string theory beyond a handful of facts about lengths.  This module rewrites a list of z3 formulas so that

  * the sort String becomes an uninterpreted sort AStr (also inside arrays, uninterpreted functions and quantifiers),
  * every string operation becomes an uninterpreted function over AStr (one symbol per operation; one per regular
    expression for membership),
  * string literals become distinct constants of known length,

and adds axioms that are TRUE of strings (lengths of concatenations, substrings, characters; prefix / suffix / contains
length bounds; neutral element).  Every model of the original formulas induces a model of the rewritten ones (interpret
AStr as the strings and every symbol by the operation it stands for), hence

      abstract query unsat   ==>   original query unsat.

So an abstract `unsat` discharges an obligation (and prunes an infeasible path) soundly; an abstract `sat` / `unknown`
means nothing and is never turned into a refutation.
"""
import z3

AStr = z3.DeclareSort('AStr')
I = z3.IntSort()
B = z3.BoolSort()

alen = z3.Function('a.len', AStr, I)
acat = z3.Function('a.cat', AStr, AStr, AStr)
asub = z3.Function('a.sub', AStr, I, I, AStr)
aat = z3.Function('a.at', AStr, I, AStr)
apre = z3.Function('a.prefixof', AStr, AStr, B)
asuf = z3.Function('a.suffixof', AStr, AStr, B)
acon = z3.Function('a.contains', AStr, AStr, B)
aidx = z3.Function('a.indexof', AStr, AStr, I, I)
arep = z3.Function('a.replace', AStr, AStr, AStr, AStr)
atoi = z3.Function('a.to_int', AStr, I)
aits = z3.Function('a.from_int', I, AStr)
alt = z3.Function('a.lt', AStr, AStr, B)
ale = z3.Function('a.le', AStr, AStr, B)
aempty = z3.Const('a.empty', AStr)


class Unsupported(Exception):
    pass


def _map_sort(s):
    k = s.kind()
    if k == z3.Z3_SEQ_SORT:
        if s.is_string():
            return AStr
        raise Unsupported('sequence sort ' + str(s))
    if k == z3.Z3_ARRAY_SORT:
        d, r = _map_sort(s.domain()), _map_sort(s.range())
        return z3.ArraySort(d, r)
    if k == z3.Z3_RE_SORT:
        raise Unsupported('regex sort outside membership')
    return s


def _has_str(s):
    k = s.kind()
    if k == z3.Z3_SEQ_SORT:
        return True
    if k == z3.Z3_ARRAY_SORT:
        return _has_str(s.domain()) or _has_str(s.range())
    return False


class Abstraction:
    def __init__(self):
        self.cache = {}
        self.lits = {}       # python str -> AStr const
        self.res = {}        # regex sexpr -> predicate
        self.fns = {}        # original decl (by ast id) -> abstract decl
        self.consts = {}
        self.used = set()
        self.rel = set()     # (relation, id of the literal argument) that occur: literal-vs-literal facts are generated for these only

    # ------------------------------------------------------------------ symbols
    def lit(self, s):
        if s == '':
            return aempty
        c = self.lits.get(s)
        if c is None:
            c = self.lits[s] = z3.Const('a.lit!%d' % len(self.lits), AStr)
        return c

    def re_pred(self, r):
        key = r.sexpr()
        p = self.res.get(key)
        if p is None:
            p = self.res[key] = z3.Function('a.inre!%d' % len(self.res), AStr, B)
        return p

    def fn(self, d):
        key = d.get_id()
        f = self.fns.get(key)
        if f is None:
            dom = [_map_sort(d.domain(i)) for i in range(d.arity())]
            rng = _map_sort(d.range())
            changed = rng.get_id() != d.range().get_id() or any(a.get_id() != d.domain(i).get_id() for i, a in enumerate(dom))
            if not changed:
                f = d
            elif d.arity() == 0:
                f = z3.Const(d.name() + '!a', rng).decl()
            else:
                f = z3.Function(d.name() + '!a', *(dom + [rng]))
            self.fns[key] = f
        return f

    # ------------------------------------------------------------------ terms
    def tr(self, e, bound=()):
        """translate expression e; `bound` = tuple of abstract consts standing for de Bruijn variables (innermost last)"""
        key = (e.get_id(), tuple(b.get_id() for b in bound))
        r = self.cache.get(key)
        if r is not None:
            return r
        r = self._tr(e, bound)
        self.cache[key] = r
        return r

    def _tr(self, e, bound):
        if z3.is_quantifier(e):
            n = e.num_vars()
            vs = [z3.FreshConst(_map_sort(e.var_sort(i)), 'q') for i in range(n)]
            nb = tuple(bound) + tuple(vs)
            body = self.tr(e.body(), nb)
            pats = []
            for i in range(e.num_patterns()):
                p = e.pattern(i)
                pats.append(z3.MultiPattern(*[self.tr(p.arg(j), nb) for j in range(p.num_args())]))
            if e.is_forall():
                return z3.ForAll(vs, body, patterns=pats) if pats else z3.ForAll(vs, body)
            if e.is_exists():
                return z3.Exists(vs, body, patterns=pats) if pats else z3.Exists(vs, body)
            raise Unsupported('lambda')
        if z3.is_var(e):
            idx = z3.get_var_index(e)
            return bound[len(bound) - 1 - idx]
        if not z3.is_app(e):
            raise Unsupported(str(e)[:60])
        d = e.decl()
        k = d.kind()
        if z3.is_string_value(e):
            return self.lit(e.as_string() if False else _pystr(e))
        ch = e.children()
        if k == z3.Z3_OP_SEQ_IN_RE:
            return self.re_pred(ch[1])(self.tr(ch[0], bound))
        a = [self.tr(c, bound) for c in ch]
        if k == z3.Z3_OP_SEQ_CONCAT:
            r = a[-1]
            for x in reversed(a[:-1]):
                r = acat(x, r)
            return r
        if k == z3.Z3_OP_SEQ_LENGTH:
            return alen(a[0])
        if k == z3.Z3_OP_SEQ_EXTRACT:
            return asub(a[0], a[1], a[2])
        if k == z3.Z3_OP_SEQ_AT:
            return aat(a[0], a[1])
        if k == z3.Z3_OP_SEQ_PREFIX:
            self.rel.add(('pre', a[0].get_id()))
            return apre(a[0], a[1])
        if k == z3.Z3_OP_SEQ_SUFFIX:
            self.rel.add(('suf', a[0].get_id()))
            return asuf(a[0], a[1])
        if k == z3.Z3_OP_SEQ_CONTAINS:
            self.rel.add(('con', a[1].get_id()))
            return acon(a[0], a[1])
        if k == z3.Z3_OP_SEQ_INDEX:
            return aidx(a[0], a[1], a[2] if len(a) > 2 else z3.IntVal(0))
        if k == z3.Z3_OP_SEQ_REPLACE:
            return arep(a[0], a[1], a[2])
        if k == z3.Z3_OP_STR_TO_INT:
            return atoi(a[0])
        if k == z3.Z3_OP_INT_TO_STR:
            return aits(a[0])
        if k == z3.Z3_OP_STRING_LT:
            return alt(a[0], a[1])
        if k == z3.Z3_OP_STRING_LE:
            return ale(a[0], a[1])
        if k == z3.Z3_OP_SEQ_EMPTY:
            return aempty
        if k == z3.Z3_OP_UNINTERPRETED:
            f = self.fn(d)
            return f(*a) if a else f()
        # built-in polymorphic / theory operators: rebuild over the translated children
        if k == z3.Z3_OP_EQ:
            return a[0] == a[1]
        if k == z3.Z3_OP_DISTINCT:
            return z3.Distinct(*a)
        if k == z3.Z3_OP_ITE:
            return z3.If(a[0], a[1], a[2])
        if k == z3.Z3_OP_SELECT:
            return z3.Select(a[0], *a[1:])
        if k == z3.Z3_OP_STORE:
            return z3.Store(a[0], *a[1:])
        if k == z3.Z3_OP_CONST_ARRAY:
            return z3.K(_map_sort(e.sort()).domain(), a[0])
        if _has_str(e.sort()) or any(_has_str(c.sort()) for c in ch):
            raise Unsupported('operator %s over strings' % d.name())
        if not ch:
            return e
        # no string below the sort level: children may still have changed (e.g. a.len inside arithmetic)
        if all(x.get_id() == c.get_id() for x, c in zip(a, ch)):
            return e
        return _rebuild(e, d, k, a)

    # ------------------------------------------------------------------ axioms
    def axioms(self):
        x, y, z_ = z3.Consts('ax!x ax!y ax!z', AStr)
        i, n = z3.Ints('ax!i ax!n')
        ax = [
            z3.ForAll([x], alen(x) >= 0, patterns=[alen(x)]),
            z3.ForAll([x], (alen(x) == 0) == (x == aempty), patterns=[alen(x)]),
            z3.ForAll([x, y], alen(acat(x, y)) == alen(x) + alen(y), patterns=[acat(x, y)]),
            z3.ForAll([x], acat(aempty, x) == x, patterns=[acat(aempty, x)]),
            z3.ForAll([x], acat(x, aempty) == x, patterns=[acat(x, aempty)]),
            z3.ForAll([x, i, n], alen(asub(x, i, n)) == z3.If(z3.And(0 <= i, i < alen(x), n > 0),
                                                               z3.If(n < alen(x) - i, n, alen(x) - i), 0),
                      patterns=[asub(x, i, n)]),
            z3.ForAll([x, n], z3.Implies(n >= alen(x), asub(x, 0, n) == x), patterns=[asub(x, 0, n)]),
            z3.ForAll([x, i], alen(aat(x, i)) == z3.If(z3.And(0 <= i, i < alen(x)), 1, 0), patterns=[aat(x, i)]),
            z3.ForAll([x, i], aat(x, i) == asub(x, i, 1), patterns=[aat(x, i)]),
            z3.ForAll([x, y], z3.Implies(apre(x, y), alen(x) <= alen(y)), patterns=[apre(x, y)]),
            z3.ForAll([x, y], z3.Implies(asuf(x, y), alen(x) <= alen(y)), patterns=[asuf(x, y)]),
            z3.ForAll([x, y], z3.Implies(acon(x, y), alen(y) <= alen(x)), patterns=[acon(x, y)]),
            z3.ForAll([x, y], z3.Implies(z3.And(apre(x, y), alen(x) == alen(y)), x == y), patterns=[apre(x, y)]),
            z3.ForAll([x, y], z3.Implies(z3.And(asuf(x, y), alen(x) == alen(y)), x == y), patterns=[asuf(x, y)]),
            z3.ForAll([x], apre(aempty, x), patterns=[apre(aempty, x)]),
            z3.ForAll([x], asuf(aempty, x), patterns=[asuf(aempty, x)]),
            z3.ForAll([x], apre(x, x), patterns=[apre(x, x)]),
            z3.ForAll([x], asuf(x, x), patterns=[asuf(x, x)]),
            # a prefix of positive length fixes the first character; a suffix the last
            z3.ForAll([x, y], z3.Implies(z3.And(apre(x, y), alen(x) >= 1), aat(y, 0) == aat(x, 0)), patterns=[apre(x, y)]),
            z3.ForAll([x, y], z3.Implies(z3.And(asuf(x, y), alen(x) >= 1), aat(y, alen(y) - 1) == aat(x, alen(x) - 1)),
                      patterns=[asuf(x, y)]),
            z3.ForAll([x, y, i], z3.And(aidx(x, y, i) >= -1, aidx(x, y, i) <= alen(x)), patterns=[aidx(x, y, i)]),
            z3.ForAll([x], atoi(x) >= -1, patterns=[atoi(x)]),
        ]
        lits = sorted(self.lits.items())
        for s, c in lits:
            ax.append(alen(c) == len(s))
        if len(lits) > 1:
            ax.append(z3.Distinct(*[c for _, c in lits]))
        # relations between the literals that occur: first / last characters, prefixes, suffixes
        one = {s: c for s, c in lits if len(s) == 1}
        for s, c in lits:
            if len(s) == 1:
                ax.append(aat(c, 0) == c)
            elif len(s) > 1:
                if s[0] in one:
                    ax.append(aat(c, 0) == one[s[0]])
                if s[-1] in one:
                    ax.append(aat(c, len(s) - 1) == one[s[-1]])
            for t, dd in lits:
                if t != s:
                    if ('pre', dd.get_id()) in self.rel:
                        ax.append(apre(dd, c) == z3.BoolVal(s.startswith(t)))
                    if ('suf', dd.get_id()) in self.rel:
                        ax.append(asuf(dd, c) == z3.BoolVal(s.endswith(t)))
                    if ('con', dd.get_id()) in self.rel:
                        ax.append(acon(c, dd) == z3.BoolVal(t in s))
            ax.append(apre(c, aempty) == z3.BoolVal(False))
            ax.append(asuf(c, aempty) == z3.BoolVal(False))
            if 1 < len(s) <= 8:
                for j in range(len(s)):
                    if s[j] in one:
                        ax.append(aat(c, j) == one[s[j]])
                    for m in range(1, len(s) - j + 1):
                        if s[j:j + m] in self.lits and (j, m) != (0, len(s)):
                            ax.append(asub(c, j, m) == self.lits[s[j:j + m]])
        return ax


def _pystr(e):
    s = e.as_string()
    # z3 escapes non-printable characters as \u{..}
    out = []
    i = 0
    while i < len(s):
        if s.startswith('\\u{', i):
            j = s.index('}', i)
            out.append(chr(int(s[i + 3:j], 16)))
            i = j + 1
        else:
            out.append(s[i])
            i += 1
    return ''.join(out)


def _rebuild(e, d, k, a):
    if k == z3.Z3_OP_AND:
        return z3.And(*a)
    if k == z3.Z3_OP_OR:
        return z3.Or(*a)
    if k == z3.Z3_OP_NOT:
        return z3.Not(a[0])
    if k == z3.Z3_OP_IMPLIES:
        return z3.Implies(a[0], a[1])
    if k == z3.Z3_OP_XOR:
        return z3.Xor(a[0], a[1])
    if k == z3.Z3_OP_ADD:
        r = a[0]
        for x in a[1:]:
            r = r + x
        return r
    if k == z3.Z3_OP_SUB:
        r = a[0]
        for x in a[1:]:
            r = r - x
        return r
    if k == z3.Z3_OP_MUL:
        r = a[0]
        for x in a[1:]:
            r = r * x
        return r
    if k == z3.Z3_OP_UMINUS:
        return -a[0]
    if k == z3.Z3_OP_LE:
        return a[0] <= a[1]
    if k == z3.Z3_OP_LT:
        return a[0] < a[1]
    if k == z3.Z3_OP_GE:
        return a[0] >= a[1]
    if k == z3.Z3_OP_GT:
        return a[0] > a[1]
    if k == z3.Z3_OP_IDIV:
        return a[0] / a[1]
    if k == z3.Z3_OP_MOD:
        return a[0] % a[1]
    try:
        return d(*a)
    except Exception as ex:  # noqa
        raise Unsupported('operator %s: %s' % (d.name(), ex))


_SHARED = [None]
_KEEP = []     # the original formulas are kept alive: the memo is keyed by their ast ids


def abstract(formulas):
    """-> list of formulas over AStr (incl. axioms); raises Unsupported."""
    ab = _SHARED[0]
    if ab is None or len(ab.cache) > 400000:
        ab = _SHARED[0] = Abstraction()
        del _KEEP[:]
    _KEEP.extend(formulas)
    out = [ab.tr(f) for f in formulas]
    return ab.axioms() + out
