import os
import re

from pv.core import VERIF
from pv import bounded as B

ASSUME_BOUNDED = ("bounded obligations (bnd:*) are run-time-checked contracts over the stated finite scope; "
                  "they are never counted as proved")


def declared_bounded(prop):
    names = []
    for fn in ('preds.py', 'preds_%s.py' % prop.lower()):
        p = os.path.join(VERIF, 'harness', fn)
        if os.path.exists(p):
            for m in re.finditer(r"'(bnd:%s\.[A-Za-z0-9_.]+)'" % prop, open(p).read()):
                if m.group(1) not in names:
                    names.append(m.group(1))
    return names


def run_bounded(report, alpha, functions=(), scale=1.0, **kw):
    """alpha: one alphabet name or a list (first one gets the random/template/corpus tail as well)."""
    alphas = [alpha] if isinstance(alpha, str) or alpha is None else list(alpha)
    merged = None
    for i, a in enumerate(alphas):
        if i == 0:
            res = B.run_harness(report.prop, a, report.tier, report.seed, scale=scale, **kw)
        else:
            res = B.run_harness(report.prop, a, report.tier, report.seed, scale=0.0, no_files=True,
                                **{k: v for k, v in kw.items() if k not in ('no_files',)})
        if merged is None:
            merged = res
            merged['scope']['alphabets'] = {a: res['scope'].get('atoms')}
        else:
            merged['evaluations'] += res['evaluations']
            merged['distinct_nontrivial'] = max(merged['distinct_nontrivial'], res['distinct_nontrivial'])  # lower bound
            merged['wall_s'] += res['wall_s']
            merged['scope']['alphabets'][a] = res['scope'].get('atoms')
            merged['scope']['exhaustive_programs'] += res['scope']['exhaustive_programs']
            seen = {(f['ob'], f['sig']) for f in merged['failures']}
            for f in res['failures']:
                if (f['ob'], f['sig']) not in seen:
                    merged['failures'].append(f)
    merged['rule'] = merged['rule'].replace('of the %s alphabet' % alphas[0], 'of each of the alphabets %s' % alphas)
    B.bounded_obligations(report, report.prop, declared_bounded(report.prop), merged, functions=functions)
    report.assume(ASSUME_BOUNDED)
    return merged


def _verify_one(key):
    import sys
    sys.setrecursionlimit(10000)
    from pv.engine3 import verify_function
    from pv import smt
    obs = verify_function(key)
    st = dict(smt.STATS)
    st['trusted_used'] = sorted(st.get('trusted_used', ()))
    return key, obs, st


KEY_DEADLINE_S = int(__import__('os').environ.get('PV_KEY_DEADLINE_S', '900'))


def _map_with_deadline(keys, procs, seconds):
    """One forked child per key, at most `procs` at a time, each killed after `seconds`: z3 has been seen to spin inside its
    string theory without honouring its time or resource limits, and a check must never hang.  A key whose child had to be
    killed yields one failed obligation ("solver did not return")."""
    import multiprocessing as mp
    import time as _t
    from pv.core import Ob, REFUTED
    from pv.contract import REG
    ctx = mp.get_context('fork')
    todo = list(enumerate(keys))
    running = {}
    out = [None] * len(keys)

    def target(key, conn):
        try:
            conn.send(_verify_one(key))
        except BaseException:  # noqa
            import traceback
            conn.send(('#error', key, traceback.format_exc()))
    while todo or running:
        while todo and len(running) < procs:
            i, key = todo.pop(0)
            parent, child = ctx.Pipe(False)
            p = ctx.Process(target=target, args=(key, child))
            p.start()
            running[i] = (p, parent, _t.time(), key)
        for i, (p, parent, t0, key) in list(running.items()):
            if parent.poll(0.05):
                res = parent.recv()
                p.join(5)
                del running[i]
                if res and res[0] == '#error':
                    raise RuntimeError(res[2])
                out[i] = res
            elif _t.time() - t0 > seconds:
                p.kill()
                p.join(5)
                del running[i]
                q = REG[key].qual if key in REG else key
                out[i] = (key, [Ob(key + '#solver-returns', 'D', 'smt:z3', REFUTED, seconds,
                                   'proof failed: the solver did not return within the hard limit of %d s on the verification '
                                   'conditions of this function (they discharge in seconds on the unchanged code)' % seconds,
                                   dict(model=None, reason='hard deadline'), functions=[q], replayed=False)], {})
            elif not p.is_alive() and not parent.poll(0.05):
                del running[i]
                raise RuntimeError('verification child for %s died without a result' % key)
    return out


def verify_keys(report, keys, standin=None, procs=8):
    """Discharge the VCs of the functions bound to these contract keys (one process per function)."""
    import multiprocessing as mp
    from pv.contract import REG, load_all
    load_all()
    results = _map_with_deadline(keys, min(procs, max(1, len(keys))), KEY_DEADLINE_S)
    stats = report.extra.setdefault('solver', dict(queries=0, z3_time=0.0, cvc5_time=0.0, cvc5_queries=0))
    used_trusted = set(report.extra.get('trusted_contracts', ()))
    for key, obs, st in results:
        if not obs:
            continue
        for o in obs:
            if standin and o.standin is None:
                o.standin = standin if isinstance(standin, str) else standin.get(key)
            report.add(o)
        for k in stats:
            stats[k] = round(stats[k] + st.get(k, 0), 3)
        used_trusted.update(st.get('trusted_used', ()))
    report.assume(
        "A-INT: integers are mathematical (Python's are)",
        "A-REC: no RecursionError/MemoryError",
        "A-DISPATCH: attribute/method resolution through the class table read from the live modules; field kinds "
        "declared in contracts/a_base.py",
        "VC generator pv/ (symbolic executor over the real ast, self-validated by must-fail mutants) and z3 5.1 / cvc5 1.0",
        "callee contracts marked trusted (builtins, re, os, pickle) are assumed, listed per evidence file")
    # the assumed (trusted) contracts that the VCs of this property actually called, with what they assume
    report.extra['trusted_contracts'] = sorted(used_trusted)
    report.extra['trusted_contract_notes'] = {k: (REG[k].note or 'abstract / external: contract assumed')[:300]
                                              for k in sorted(used_trusted) if k in REG}
    # the frames the call sites rely on: declared modifies / lists cover what the real code writes (effect analysis)
    from pv import obs_effects as E_
    for o in E_.contract_frame_obligations(keys):
        report.add(o)
    assumed = sorted({'%s: %s (%s)' % (k, a, why) for k in keys if k in REG for a, why in REG[k].frame_assumed.items()})
    loop_assumed = sorted({'%s loop %s: %s' % (k, n, cl) for k in keys if k in REG for n, sp in REG[k].loops.items()
                           for cl in sp.get('assume_in_body', [])})
    if loop_assumed:
        report.extra['loop_assumptions'] = loop_assumed
        report.assume('assumed at the start of a loop iteration (environment facts, not proved): ' + '; '.join(c[:200] for c in loop_assumed))
    pruned = sorted({'%s: calls of %s not followed (%s)' % (k, a, why) for k in keys if k in REG for a, why in REG[k].frame_prune.items()})
    pruned += sorted({'%s: self.%s resolves to %s (static class of self)' % (k, a, t) for k in keys if k in REG
                      for a, t in REG[k].frame_dispatch.items()})
    if pruned:
        report.assume('frame check call-graph pruning: ' + '; '.join(pruned))
    if assumed:
        report.extra['frame_assumptions'] = assumed
        report.assume('frame assumptions (writes not counted by the frame check): ' + '; '.join(assumed))
    if any('convert_leaf' in k for k in keys):
        from pv import obs_classes as C_
        for o in C_.leaf_dispatch_obligations():
            report.add(o)
    return results


def _call_with_deadline(fn, args, seconds):
    """Run fn(*args) in a forked child; a hang of a solver becomes 'undecided', never a hung check."""
    import multiprocessing as mp
    ctx = mp.get_context('fork')
    parent, child = ctx.Pipe(False)

    def target():
        try:
            child.send(('ok', fn(*args)))
        except BaseException as e:  # noqa
            import traceback
            child.send(('err', traceback.format_exc()))
    p = ctx.Process(target=target)
    p.start()
    if parent.poll(seconds):
        kind, val = parent.recv()
        p.join(5)
        if kind == 'err':
            raise RuntimeError(val)
        return val
    p.terminate()
    p.join(5)
    return None


def add_obs(report, fn, *args, deadline=240, name=None):
    from pv.core import Ob, UNDECIDED
    obs = _call_with_deadline(fn, args, deadline)
    if obs is None:
        report.add(Ob('%s#deadline' % (name or fn.__name__), 'D', 'driver', UNDECIDED, deadline,
                      'obligation group did not finish within %ds' % deadline))
        return []
    report.extend(obs)
    return obs
