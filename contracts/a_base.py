"""Field kinds, specification functions and axioms shared by all contracts (DESIGN section 3)."""
import z3

from pv.contract import contract, fields, class_fields, theory, specfn, CLASS_INV
from pv.values import VInt, VBool, VStr, VTuple, VRef, VList, VNONE, VNoneT, OutOfSubset, I, B, S
from spec import text as T

# ----------------------------------------------------------------------------- field kinds (A-DISPATCH)
fields(
    line='int', column='int', value='str', prefix='str', parent='ref:BaseNode', children='list:ref:NodeOrLeaf',
    type='str', token_type='str', spacing='str', start_pos='pos', end_pos='pos', code='int', message='str',
    _used_names='ref',
)
class_fields('PrefixPart', parent='ref:Leaf', start_pos='pos', type='str', value='str', spacing='str')
class_fields('Issue', start_pos='pos', end_pos='pos', code='int', message='str')

# ----------------------------------------------------------------------------- text vocabulary
_breaks = z3.Function('breaks', S, I)
_tail = z3.Function('tail', S, I)


def _text_axioms(st, s):
    st.assume(_breaks(s) >= 0)
    st.assume(_tail(s) >= 0)
    st.assume(_tail(s) <= z3.Length(s))
    st.assume(z3.Implies(_breaks(s) == 0, _tail(s) == z3.Length(s)))
    st.assume(z3.Implies(z3.Length(s) == 0, _breaks(s) == 0))
    # a text ending in a line break has an empty tail and at least one break; and conversely
    ends = z3.Or(z3.SuffixOf(z3.StringVal('\n'), s), z3.SuffixOf(z3.StringVal('\r'), s))
    st.assume(ends == z3.And(_tail(s) == 0, _breaks(s) >= 1))


@specfn('breaks')
def sp_breaks(eng, st, s):
    lit = s.lit()
    if lit is not None:
        return VInt(T.breaks(lit))
    _text_axioms(st, s.t)
    return VInt(_breaks(s.t))


@specfn('tail')
def sp_tail(eng, st, s):
    lit = s.lit()
    if lit is not None:
        return VInt(T.tail(lit))
    _text_axioms(st, s.t)
    return VInt(_tail(s.t))


@specfn('advance')
def sp_advance(eng, st, pos, s):
    b = sp_breaks(eng, st, s).t
    t = sp_tail(eng, st, s).t
    l, c = pos.items[0].t, pos.items[1].t
    n = z3.Length(s.t)
    return VTuple([VInt(z3.If(b == 0, l, l + b)), VInt(z3.If(b == 0, c + n, t))])


@specfn('is_bom')
def sp_is_bom(eng, st, s):
    return VBool(s.t == z3.StringVal(T.BOM))


@specfn('ends_nl')
def sp_ends_nl(eng, st, s):
    return VBool(z3.Or(z3.SuffixOf(z3.StringVal('\n'), s.t), z3.SuffixOf(z3.StringVal('\r'), s.t)))


# ----------------------------------------------------------------------------- trusted library contracts
contract('parso.utils.split_lines', params={'string': 'str', 'keepends': 'bool'}, returns='list:str',
         requires=[],
         ensures=['implies(not keepends, len(result) == breaks(string) + 1)',
                  'implies(not keepends, len(result[len(result) - 1]) == tail(string))',
                  'len(result) >= 1'],
         fresh_result=True, trusted=True, lists=[],
         note='ASSUMED (used by Leaf.end_pos): the keepends=False branch is re.split(r"\\n|\\r\\n|\\r", s), whose result has '
              'breaks(s)+1 pieces and a last piece of length tail(s); validated by the exhaustive bounded check of C15, not proved')


# ----------------------------------------------------------------------------- enumerated dict iteration (loop clause enum=True)
@specfn('key_at')
def sp_key_at(eng, st, i):
    """the key met in iteration i of the enclosing `for k, v in d.items()` loop"""
    key_at, key_idx, kk = st.env['$enum']
    from pv.values import VAny
    t = key_at(i.t)
    return VStr(t) if kk == 'str' else VAny(t)


@specfn('key_idx')
def sp_key_idx(eng, st, k):
    """the iteration of the enclosing dict loop that meets key k"""
    key_at, key_idx, kk = st.env['$enum']
    return VInt(key_idx(k.t))


@specfn('keys_unchanged')
def sp_keys_unchanged(eng, st):
    """the dict the enclosing loop runs over has the key set it started with"""
    mt, kk, row0 = st.env['$enum_row']
    return VBool(st._marr(mt, 'has', kk)[2] == row0)
