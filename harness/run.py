"""Bounded back end driver (runs under the test-suite interpreter, /venv/bin/python).

  python -m harness.run --prop C01 --alpha parse --n 4 --rnd 20000 --tpl 4000 --versions 3.6,3.14 \
         --seed 0 --out /path/result.json

Result: evaluations, distinct_nontrivial (distinct token-type sequences longer than the bare
end marker), per-obligation evaluation counts, failures grouped by (obligation, signature).
"""
import argparse
import hashlib
import json
import multiprocessing as mp
import os
import sys
import time

sys.path.insert(0, os.path.dirname(os.path.dirname(os.path.abspath(__file__))))
sys.setrecursionlimit(3000)

from harness import scope  # noqa


def _shape_hash(code, vi):
    from parso.python.tokenize import tokenize
    try:
        names = [t.type.name for t in tokenize(code, version_info=vi)]
    except Exception:  # noqa
        names = ['<crash>']
    if len(names) <= 1:
        return None
    return int.from_bytes(hashlib.blake2b(' '.join(names).encode(), digest_size=8).digest(), 'big')


def work(args):
    chunk, prop, versions, repo, extra = args
    from harness import preds
    from parso.utils import parse_version_string
    mod = None
    if prop in preds.CHECKS:
        fn = preds.CHECKS[prop]
    else:
        import importlib
        mod = importlib.import_module('harness.preds_' + prop.lower())
        fn = mod.check
    vi0 = parse_version_string(versions[0])
    evals = 0
    shapes = set()
    fails = {}
    samples = []
    env = dict(repo=repo, extra=extra)
    for k, code in enumerate(scope.expand(chunk, repo)):
        h = _shape_hash(code, vi0) if len(code) < 4000 else hash(code)
        if h is not None:
            shapes.add(h)
        if len(samples) < 2 and h is not None and k % 97 == 3:
            samples.append(code[:200])
        vs = versions if chunk[0] in ('exh', 'files', 'list', 'gram') else [versions[(k + chunk[1]) % len(versions)]]
        for v in vs:
            evals += 1
            try:
                res = fn(code, v, env)
            except RecursionError:
                res = []
            for f in res:
                key = f.ob + ' :: ' + f.sig
                d = fails.get(key)
                if d is None:
                    fails[key] = dict(ob=f.ob, sig=f.sig, count=1, detail=f.detail[:500],
                                      inp=f.inp if f.inp is None or len(f.inp) <= 400 else f.inp[:400],
                                      inp_truncated=bool(f.inp and len(f.inp) > 400), version=v)
                else:
                    d['count'] += 1
                    if f.inp is not None and d['inp'] is not None and len(f.inp) < len(d['inp']):
                        d['inp'] = f.inp
                        d['detail'] = f.detail[:500]
                        d['version'] = v
                        d['inp_truncated'] = False
    stats = dict(getattr(mod, 'STATS', {}) or {}) if mod is not None else {}
    if mod is not None and hasattr(mod, 'STATS'):
        for k in mod.STATS:
            mod.STATS[k] = 0
    return evals, shapes, fails, samples, stats


def main():
    ap = argparse.ArgumentParser()
    ap.add_argument('--prop', required=True)
    ap.add_argument('--alpha', default='parse')
    ap.add_argument('--n', type=int, default=4)
    ap.add_argument('--rnd', type=int, default=0)
    ap.add_argument('--tpl', type=int, default=0)
    ap.add_argument('--versions', default='3.6,3.14')
    ap.add_argument('--rnd-versions', default='')
    ap.add_argument('--seed', type=int, default=0)
    ap.add_argument('--out', required=True)
    ap.add_argument('--repo', default=os.environ.get('PARSO_REPO', '/repo'))
    ap.add_argument('--no-files', action='store_true')
    ap.add_argument('--extra', default='')
    ap.add_argument('--procs', type=int, default=min(16, os.cpu_count() or 4))
    a = ap.parse_args()
    t0 = time.time()
    versions = a.versions.split(',')
    alpha = a.alpha if a.alpha != 'none' else None
    chunks = scope.plan(alpha, a.n, a.rnd, a.tpl, a.seed, a.repo, files=not a.no_files, extra=a.extra)
    rv = a.rnd_versions.split(',') if a.rnd_versions else versions
    jobs = []
    for c in chunks:
        jobs.append((c, a.prop, versions if c[0] in ('exh', 'files', 'list', 'gram') else rv, a.repo, a.extra))
    evals = 0
    shapes = set()
    fails = {}
    samples = []
    with mp.Pool(a.procs) as pool:
        pstats = {}
        for e, s, f, sm, ps in pool.imap_unordered(work, jobs, chunksize=1):
            for k, v in ps.items():
                pstats[k] = pstats.get(k, 0) + v
            evals += e
            shapes |= s
            if len(samples) < 8:
                samples.extend(sm)
            for k, d in f.items():
                if k in fails:
                    fails[k]['count'] += d['count']
                    if d['inp'] is not None and (fails[k]['inp'] is None or len(d['inp']) < len(fails[k]['inp'])):
                        c = fails[k]['count']
                        fails[k] = d
                        fails[k]['count'] = c
                else:
                    fails[k] = d
    exh_total = scope.exh_count(len(scope.ALPHA[alpha]), a.n) if alpha else 0
    res = dict(prop=a.prop, evaluations=evals, distinct_nontrivial=len(shapes), samples=samples[:8],
               failures=list(fails.values()), wall_s=round(time.time() - t0, 2), pred_stats=pstats,
               scope=dict(alphabet=alpha, atoms=scope.ALPHA.get(alpha), max_atoms=a.n, exhaustive_programs=exh_total,
                          random_programs=a.rnd, template_programs=a.tpl, versions_exhaustive=versions,
                          versions_random=rv, corpus_files=0 if a.no_files else len(scope.corpus_files(a.repo)),
                          seed=a.seed),
               rule='every concatenation of <= %d atoms of the %s alphabet on versions %s (exhaustive), plus %d seeded '
                    'random atom strings (<=14 of %d atoms) and %d mutated template programs spread over versions %s, '
                    'plus repository corpus files; distinct_nontrivial = distinct token-type sequences longer than the '
                    'bare end marker' % (a.n, alpha, versions, a.rnd, len(scope.EXT), a.tpl, rv))
    with open(a.out, 'w') as f:
        json.dump(res, f)


if __name__ == '__main__':
    main()
