"""Class-level obligations (kind T): exact checks over the finite set of live classes (rule registries of the error
finder, tree node classes and their constructor / dump / slots protocol)."""
import ast
import importlib
import inspect

from pv import source
from pv.core import Ob, DISCHARGED, REFUTED, UNDECIDED


def _ob(name, bad, detail, functions=(), sig=None):
    if not bad:
        return Ob(name, 'T', 'class-table', DISCHARGED, 0, detail, functions=functions)
    return Ob(name, 'T', 'class-table', REFUTED, 0, '%s; failing: %r' % (detail, bad[:4]), dict(failures=[repr(b) for b in bad[:10]]),
              functions=functions, signature=sig or name, replayed=True)


# --------------------------------------------------------------------------------------------- C13
def error_rule_obligations():
    er = importlib.import_module('parso.python.errors')
    nz = importlib.import_module('parso.normalizer')
    EF = er.ErrorFinder
    rules = set()
    for reg in (EF.rule_value_classes, EF.rule_type_classes):
        for lst in reg.values():
            rules.update(lst)
    for base in EF.__mro__[1:]:
        for attr in ('rule_value_classes', 'rule_type_classes'):
            for lst in getattr(base, attr, {}).values():
                rules.update(lst)
    bad = []
    for r in sorted(rules, key=lambda c: c.__name__):
        if issubclass(r, er.SyntaxRule):
            want, pre, base = 901, 'SyntaxError: ', er.SyntaxRule
        elif issubclass(r, er.IndentationRule):
            want, pre, base = 903, 'IndentationError: ', er.IndentationRule
        else:
            bad.append((r.__name__, 'neither SyntaxRule nor IndentationRule'))
            continue
        if r.code != want:
            bad.append((r.__name__, 'code %r' % (r.code,)))
        gm = r._get_message
        if gm is not base._get_message:
            bad.append((r.__name__, '_get_message overridden'))
        if r.add_issue is not nz.Rule.add_issue:
            bad.append((r.__name__, 'add_issue overridden'))
    obs = [_ob('cls:C13:rule-classes-code', bad,
               'each of the %d registered rule classes derives from SyntaxRule (code 901) or IndentationRule (code 903) and '
               'overrides neither code, _get_message nor add_issue' % len(rules), ['parso.python.errors.ErrorFinder'])]
    # no call site passes code=... to Rule.add_issue, and the two prefixing _get_message implementations end in the prefix
    tree, _, _ = source.module_ast('parso.python.errors')
    bad = []
    for n in ast.walk(tree):
        if isinstance(n, ast.Call) and isinstance(n.func, ast.Attribute) and n.func.attr == 'add_issue':
            if isinstance(n.func.value, ast.Name) and n.func.value.id == 'self':
                kws = {k.arg for k in n.keywords}
                # inside rule classes self.add_issue(node, message=...) ; inside ErrorFinder self.add_issue(node, code, message)
                if 'code' in kws:
                    bad.append(('line %d' % n.lineno, 'code= passed'))
    obs.append(_ob('cls:C13:no-code-override-at-call-sites', bad, 'no add_issue call site in errors.py passes code=', ['parso.normalizer.Rule.add_issue']))
    bad = []
    for cls, pre in ((er.SyntaxRule, 'SyntaxError: '), (er.IndentationRule, 'IndentationError: ')):
        fn, _, _ = source.find_def('parso.python.errors.%s._get_message' % cls.__name__)
        rets = [s for s in ast.walk(fn) if isinstance(s, ast.Return)]
        ok = len(rets) == 1 and isinstance(rets[0].value, ast.BinOp) and isinstance(rets[0].value.op, ast.Add) and \
            isinstance(rets[0].value.left, ast.Constant) and rets[0].value.left.value == pre
        if not ok:
            bad.append((cls.__name__, 'does not return %r + message' % pre))
    obs.append(_ob('cls:C13:message-prefix', bad, "SyntaxRule/IndentationRule._get_message return the class's prefix + message",
                   ['parso.python.errors.SyntaxRule._get_message', 'parso.python.errors.IndentationRule._get_message']))
    return obs


def add_issue_callsite_obligations(modname, prop):
    """Signature contract of add_issue(node, code, message): positional order at every call site of the module."""
    tree, _, _ = source.module_ast(modname)
    bad = []
    n_sites = 0
    for n in ast.walk(tree):
        if isinstance(n, ast.Call) and isinstance(n.func, ast.Attribute) and n.func.attr == 'add_issue':
            if any(isinstance(a, ast.Starred) for a in n.args):
                continue
            n_sites += 1
            if n.args and isinstance(n.args[0], ast.Constant):
                bad.append((n.lineno, 'first argument (node) is the constant %r' % (n.args[0].value,)))
            if len(n.args) >= 2:
                a = n.args[1]
                if isinstance(a, ast.Constant) and not isinstance(a.value, int):
                    bad.append((n.lineno, 'second argument (code) is %r' % (a.value,)))
                if isinstance(a, (ast.JoinedStr, ast.BinOp)) and not (isinstance(a, ast.BinOp) and isinstance(a.op, (ast.Add, ast.Sub)) and isinstance(a.left, ast.Constant) and isinstance(a.left.value, int)):
                    bad.append((n.lineno, 'second argument (code) is a string expression'))
            if len(n.args) >= 3 and isinstance(n.args[2], ast.Constant) and not isinstance(n.args[2].value, str):
                bad.append((n.lineno, 'third argument (message) is %r' % (n.args[2].value,)))
            if len(n.args) >= 3 and isinstance(n.args[2], ast.Name) and n.args[2].id in ('leaf', 'node', 'part', 'spacing'):
                bad.append((n.lineno, 'third argument (message) is the node variable %s' % n.args[2].id))
    return [_ob('cls:%s:add_issue-signature[%s]' % (prop, modname.rsplit('.', 1)[-1]), bad,
                '%d call sites of add_issue pass (node, int code, str message) in this order' % n_sites, [modname])]


# --------------------------------------------------------------------------------------------- C19
def tree_protocol_obligations():
    """For each concrete tree class: the branch of _format_dump that prints it agrees with its __init__ on arity and
    order, the fields dump reads are the ones __init__ stores, `type` is a class attribute exactly where dump omits it,
    every assigned attribute has a slot (or a __dict__), and the class is importable under its printed name."""
    bt = importlib.import_module('parso.tree')
    pt = importlib.import_module('parso.python.tree')
    classes = []
    for mod in (bt, pt):
        for name, c in vars(mod).items():
            if inspect.isclass(c) and issubclass(c, bt.NodeOrLeaf) and c.__module__ == mod.__name__:
                classes.append(c)
    bad_ctor, bad_slots, bad_name, bad_type = [], [], [], []
    probe_pos = (3, 7)
    # the classes the parser can put into a tree (everything else is an abstract helper)
    pp = importlib.import_module('parso.python.parser')
    used = set(pp.Parser.node_map.values()) | set(pp.Parser._leaf_map.values()) | {
        pp.Parser.default_node, pt.Keyword, pt.Name, pt.Operator, pt.PythonErrorLeaf, pt.PythonErrorNode, pt.Param}

    def has_class_type(k):
        t = inspect.getattr_static(k, 'type', None)
        return isinstance(t, (str, property))
    for c in classes:
        nm = c.__name__
        # importable under the printed name (dump's text and pickle both rely on it)
        holder = pt if hasattr(pt, nm) else bt
        if getattr(holder, nm, None) is not c:
            bad_name.append((nm, 'not reachable as %s.%s' % (holder.__name__, nm)))
        if c not in used:
            continue
        try:
            if issubclass(c, bt.Leaf):
                if issubclass(c, bt.ErrorLeaf):
                    o = c('TT', 'val', probe_pos, prefix='pp')
                    ok = o.token_type == 'TT'
                elif issubclass(c, bt.TypedLeaf):
                    o = c('ty', 'val', probe_pos, prefix='pp')
                    ok = o.type == 'ty'
                else:
                    o = c('val', probe_pos, prefix='pp')
                    ok = has_class_type(c)
                ok = ok and o.value == 'val' and o.start_pos == probe_pos and o.prefix == 'pp' and o.parent is None \
                    and (o.line, o.column) == probe_pos
                if not ok:
                    bad_ctor.append((nm, 'leaf constructor does not store (value, start_pos, prefix) as dump prints them'))
            else:
                kid = bt.Leaf('x', (1, 0))
                if issubclass(c, bt.Node):
                    o = c('ty', [kid])
                    ok = o.type == 'ty'
                elif nm in ('Function', 'Lambda'):
                    continue        # constructor needs a parameters child (regrouping is checked by the bounded stand-in)
                else:
                    o = c([kid])
                    ok = has_class_type(c)
                ok = ok and o.children == [kid] and kid.parent is o and o.parent is None
                if not ok:
                    bad_ctor.append((nm, 'node constructor does not store children / set parents'))
            # slots: every instance attribute lives in a slot unless the class has a __dict__
            if not hasattr(o, '__dict__'):
                slots = set()
                for k in c.__mro__:
                    s = vars(k).get('__slots__', ())
                    slots.update([s] if isinstance(s, str) else s)
                need = {'parent'} | ({'value', 'line', 'column', 'prefix'} if issubclass(c, bt.Leaf) else {'children'})
                if not need <= slots:
                    bad_slots.append((nm, sorted(need - slots)))
            # 'type' is a class attribute exactly where dump omits it
            prints_type = issubclass(c, (bt.TypedLeaf, bt.Node))
            has_cls_type = has_class_type(c)
            if prints_type == has_cls_type and not issubclass(c, bt.ErrorLeaf):
                bad_type.append((nm, 'dump prints type=%s but class attribute type present=%s' % (prints_type, has_cls_type)))
        except Exception as e:  # noqa
            bad_ctor.append((nm, 'constructor probe raised %s: %s' % (type(e).__name__, e)))
    F = ['parso.tree.NodeOrLeaf.dump', 'parso.tree.Leaf.__init__', 'parso.tree.BaseNode.__init__']
    return [
        _ob('cls:C19:constructor-matches-dump', bad_ctor, '%d tree classes: constructor arity/order as printed by dump, stored in the fields dump reads' % len(classes), F),
        _ob('cls:C19:slots-cover-fields', bad_slots, 'instance fields are covered by __slots__ (pickle and eval(dump) restore them)', F),
        _ob('cls:C19:importable-by-printed-name', bad_name, 'every class is reachable by the bare name dump prints', F),
        _ob('cls:C19:type-attribute-vs-dump', bad_type, "dump prints the type argument exactly for the classes that do not fix it as a class attribute", F),
    ]


def leaf_dispatch_obligations():
    """A-DISPATCH for convert_leaf (pv/obs_effects.DYNAMIC): everything the leaf tables of the parsers can construct is a
    Leaf subclass whose __init__ is Leaf.__init__, TypedLeaf.__init__ or ErrorLeaf.__init__ (no node constructor)."""
    bt = importlib.import_module('parso.tree')
    pp = importlib.import_module('parso.python.parser')
    bp = importlib.import_module('parso.parser')
    pt = importlib.import_module('parso.python.tree')
    cands = list(pp.Parser._leaf_map.values()) + list(getattr(pp.Parser, 'leaf_map', {}).values()) + \
        list(getattr(bp.BaseParser, 'leaf_map', {}).values()) + [bp.BaseParser.default_leaf, pp.Parser.default_leaf,
                                                                   pt.Operator, pt.Keyword, pt.Name]
    ok_inits = {bt.Leaf.__init__, bt.TypedLeaf.__init__, bt.ErrorLeaf.__init__}
    bad = [c.__name__ for c in cands if not (inspect.isclass(c) and issubclass(c, bt.Leaf) and c.__init__ in ok_inits)]
    return [_ob('cls:leaf-dispatch', bad, '%d classes reachable from the leaf tables: all are leaves built by Leaf / TypedLeaf / '
                'ErrorLeaf.__init__' % len(cands), ['parso.python.parser.Parser.convert_leaf', 'parso.parser.BaseParser.convert_leaf'])]


def python_tree_class_obligations():
    """PYTREE (assumed by the navigation contracts that call Python-specific methods on children): every class the Python
    parser can instantiate for an interior node derives from PythonBaseNode, PythonNode or PythonErrorNode, every leaf class
    from PythonLeaf."""
    bt = importlib.import_module('parso.tree')
    pp = importlib.import_module('parso.python.parser')
    pt = importlib.import_module('parso.python.tree')
    nodes = list(pp.Parser.node_map.values()) + [pp.Parser.default_node, pt.PythonErrorNode, pt.Param]
    leaves = list(pp.Parser._leaf_map.values()) + [pt.Operator, pt.Keyword, pt.Name, pt.PythonErrorLeaf]
    bad = [c.__name__ for c in nodes if not (inspect.isclass(c) and issubclass(c, (pt.PythonBaseNode, pt.PythonNode, pt.PythonErrorNode)))]
    bad += [c.__name__ for c in leaves if not (inspect.isclass(c) and issubclass(c, pt.PythonLeaf))]
    return [_ob('cls:python-tree-classes', bad, '%d node classes derive from PythonBaseNode / PythonNode / PythonErrorNode (all carry PythonMixin), %d leaf classes from PythonLeaf'
                % (len(nodes), len(leaves)), ['parso.python.parser.Parser.convert_node', 'parso.python.parser.Parser.convert_leaf'])]
