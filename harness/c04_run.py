"""C04 bounded stand-in: postcondition of Grammar.parse(..., diff_cache=True) after every step of an edit history:
same dump(), code, parent links and used-names key set as a fresh parse of the same text; never raises.

Histories: base texts x edit alphabet {delete line, duplicate line, insert pool line, replace by pool line,
indent/dedent line, append to line, undo}, exhaustive up to length L per base, seeded random beyond.
"""
import argparse
import itertools
import json
import multiprocessing as mp
import os
import random
import sys
import time

sys.path.insert(0, os.path.dirname(os.path.dirname(os.path.abspath(__file__))))
sys.setrecursionlimit(3000)
from harness.treeutil import crash_signature, nodes_of, is_leaf  # noqa

BASES = [
    'a = 1\nb = 2\n',
    'def f(x):\n    if x:\n        return 1\n    return 2\n\nclass C:\n    def g(self):\n        pass\n',
    '@dec\ndef f():\n    try:\n        a\n    except E:\n        b\n    else:\n        c\n    finally:\n        d\nx\n',
    'x = (1,\n     2,\n     [3,\n      4])\ny = """s\nt"""\nz = f"{a}"\n',
    'if a:\n    b\nelif c:\n    d\nelse:\n    e\nfor i in j:\n    k\nwhile l:\n    m\n',
    '\ufeffimport os\n\x0cdef f():\n  # c\n  return os\n',
    'class A:\n  def f(self):\n    x = 1\n    def g():\n      return x\n    return g\n  y = 2',
    'async def f():\n    async with a as b:\n        await c\n    return [i async for i in d]\nlambda: (yield)\n',
    # decorated / async one-line compound statements whose bodies are broken mid-expression
    '@dec\nasync def foo(): bar.-\n@dec\nclass K: x(\ny = 2\n@a\n@b\ndef g(): return [\nz = 3\n',
    # every wrapper combination around a suite: decorated x async x function / method / class, async block statements
    '@dec\nasync def f():\n    x\n    y\n@dec\nclass K:\n    @a\n    async def m(self):\n        z\n    @b\n    def n(self):\n        w\n'
    'async def o():\n    async with p as q:\n        r\n    async for s in t:\n        u\n',
    # last statement continued by a backslash, no line break at the end of the file; CR-only line ends
    'a = 1\rb = 2 \\\r# done',
    'def f():\n    a = 1\nb = 2 \\\n\\\n# done',
    # the text ends inside an indented block, without a line break, with blanks / a comment after the last token (the end
    # marker's prefix is then all that holds them)
    'def f():\n    a\n    b  # x',
    'class A:\n  def f(self):\n    x = 1\n    y = 2 \t',
]
POOL = ['    x = 1', 'def h():', '  (', ')', '"""', 'else:', '        pass', '@d', 'class K: pass', '\tz', '    return', 'if 1:',
        "f'{", 'x = [', '# c', '', ' ', 'async def q():', '    \\', 'import a; b', 'async def r(): s.', '@t']


def edits(nlines):
    acts = []
    for i in range(nlines + 1):
        for p in range(len(POOL)):
            acts.append(('ins', i, p))
    for i in range(nlines):
        acts.append(('del', i, 0))
        acts.append(('dup', i, 0))
        acts.append(('ind', i, 0))
        acts.append(('ded', i, 0))
        for p in range(0, len(POOL), 3):
            acts.append(('rep', i, p))
        acts.append(('app', i, 0))
    return acts


def apply(lines, act):
    op, i, p = act
    lines = list(lines)
    if op == 'ins':
        lines.insert(min(i, len(lines)), POOL[p] + '\n')
    elif not lines:
        return lines
    else:
        i = min(i, len(lines) - 1)
        if op == 'del':
            del lines[i]
        elif op == 'dup':
            lines.insert(i, lines[i])
        elif op == 'ind':
            lines[i] = '    ' + lines[i]
        elif op == 'ded':
            lines[i] = lines[i][4:] if lines[i].startswith('    ') else lines[i].lstrip(' ')
        elif op == 'rep':
            lines[i] = POOL[p] + '\n'
        elif op == 'app':
            lines[i] = lines[i].rstrip('\n') + ' + (\n'
    return lines


def struct(n):
    if is_leaf(n):
        return (type(n).__name__, n.type, n.value, n.prefix, n.start_pos)
    return (type(n).__name__, n.type, tuple(struct(c) for c in n.children))


def run_one(args):
    base_i, hist, version = args
    import parso
    from parso import cache as pc
    g = parso.load_grammar(version=version)
    path = '/nonexistent/c04_%d.py' % os.getpid()
    pc.parser_cache.pop(g._hashed, None)
    texts = [BASES[base_i]]
    lines = BASES[base_i].splitlines(True)
    for act in hist:
        if act == 'undo':
            texts.append(texts[-2] if len(texts) > 1 else texts[-1])
            lines = texts[-1].splitlines(True)
        else:
            lines = apply(lines, act)
            texts.append(''.join(lines))
    try:
        for step, t in enumerate(texts):
            try:
                m = g.parse(t, diff_cache=True, path=path)
            except RecursionError:
                return None
            except Exception as e:  # noqa
                return ('bnd:C04.update.total', crash_signature(e), '%s: %s at step %d' % (type(e).__name__, e, step), texts[:step + 1])
            fresh = g.parse(t)
            if m.get_code() != t:
                return ('bnd:C04.code', 'code', 'get_code() differs from the new text at step %d' % step, texts[:step + 1])
            if struct(m) != struct(fresh):
                # classify: on a text that does not parse cleanly, with exactly the same leaves (kind, text, prefix,
                # position) in both trees, only the nesting of the recovered parts differs
                lm = [struct(x) for x in nodes_of(m) if is_leaf(x)]
                lf = [struct(x) for x in nodes_of(fresh) if is_leaf(x)]
                broken = any(getattr(x, 'type', '') in ('error_node', 'error_leaf') for x in nodes_of(fresh))
                # or: the text leaves a bracket open (more opening than closing bracket leaves in the fresh parse), so
                # the fresh tokenizer reads the rest of the file at bracket depth > 0 (no NEWLINE / INDENT tokens)
                depth = sum((x.value in ('(', '[', '{')) - (x.value in (')', ']', '}'))
                            for x in nodes_of(fresh) if is_leaf(x) and x.type in ('operator', 'error_leaf'))
                import re as _re
                if any(_re.search(r'\\(?:\r\n|\r|\n)[ \t]*\\(?:\r\n|\r|\n)[^\r\n]*\Z', x) for x in texts[:step + 1]):
                    # some text of the history ended in two backslash continuations in a row and no final line break
                    sig = 'tree:two-continuations-before-eof'
                elif lm == lf and broken:
                    sig = 'tree:same-leaves-different-recovery-nesting'
                elif broken and depth > 0:
                    sig = 'tree:unclosed-bracket-depth-not-carried'
                else:
                    sig = 'tree'
                return ('bnd:C04.equals_fresh_parse', sig, 'tree differs from a fresh parse at step %d' % step, texts[:step + 1])
            for x in nodes_of(m):
                if not is_leaf(x):
                    for c in x.children:
                        if c.parent is not x:
                            return ('bnd:C04.parent_links', 'parent', 'inconsistent parent link at step %d' % step, texts[:step + 1])
            if m.parent is not None:
                return ('bnd:C04.parent_links', 'root', 'module has a parent', texts[:step + 1])
            a = {k: [n.start_pos for n in v] for k, v in m.get_used_names().items()}
            b = {k: [n.start_pos for n in v] for k, v in fresh.get_used_names().items()}
            if a != b:
                return ('bnd:C04.used_names_fresh', 'used_names', 'used-names index is stale at step %d' % step, texts[:step + 1])
    finally:
        pc.parser_cache.pop(g._hashed, None)
    return None


def main():
    ap = argparse.ArgumentParser()
    ap.add_argument('--bases', default='0,1,3')
    ap.add_argument('--length', type=int, default=2)
    ap.add_argument('--cap', type=int, default=9000)
    ap.add_argument('--random', type=int, default=3000)
    ap.add_argument('--versions', default='3.9')
    ap.add_argument('--seed', type=int, default=0)
    ap.add_argument('--out', required=True)
    ap.add_argument('--repo', default='/repo')
    a = ap.parse_args()
    t0 = time.time()
    rng = random.Random(a.seed)
    jobs = []
    versions = a.versions.split(',')
    exhaustive = True
    for bi in [int(x) for x in a.bases.split(',')]:
        n = len(BASES[bi].splitlines())
        acts = edits(n) + ['undo']
        hs = [[x] for x in acts]
        if a.length >= 2:
            pairs = list(itertools.product(acts, repeat=2))
            if len(pairs) > a.cap:
                exhaustive = False
                pairs = rng.sample(pairs, a.cap)
            hs += [list(p) for p in pairs]
        for _ in range(a.random):
            L = rng.randint(3, 8)
            hs.append([rng.choice(acts) for _ in range(L)])
        for k, h in enumerate(hs):
            jobs.append((bi, h, versions[k % len(versions)]))
    with mp.Pool(16) as pool:
        res = pool.map(run_one, jobs, chunksize=64)
    fails = {}
    for r, j in zip(res, jobs):
        if r is None:
            continue
        ob, sig, detail, texts = r
        k = (ob, sig)
        if k not in fails or sum(map(len, texts)) < fails[k]['_size']:
            c = fails.get(k, {}).get('count', 0)
            fails[k] = dict(ob=ob, sig=sig, detail=detail, inp=json.dumps(texts), version=j[2], count=c, _size=sum(map(len, texts)))
        fails[k]['count'] += 1
    steps = sum(len(j[1]) + 1 for j in jobs)
    out = dict(prop='C04', evaluations=steps, distinct_nontrivial=len({(j[0], json.dumps(j[1])) for j in jobs}),
               failures=[{k: v for k, v in f.items() if k != '_size'} for f in fails.values()],
               samples=[dict(base=j[0], history=j[1]) for j in jobs[::max(1, len(jobs) // 4)]][:4],
               wall_s=round(time.time() - t0, 2),
               scope=dict(bases=a.bases, max_exhaustive_length=a.length, pair_cap=a.cap, random_histories=a.random, versions=versions,
                          pairs_exhaustive=exhaustive, histories=len(jobs)),
               rule='per base text: every single edit, every pair of edits (capped at %d, sampled beyond), %d seeded random '
                    'histories of 3..8 edits; evaluations = parse steps judged; distinct_nontrivial = distinct (base, history)'
                    % (a.cap, a.random), exhaustive=False)
    with open(a.out, 'w') as f:
        json.dump(out, f)


if __name__ == '__main__':
    main()
