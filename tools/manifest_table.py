NOTES = ("All checks rebuild every obligation from /repo's working tree. Obligation kinds: D = verification condition "
         "generated from the real function's ast (or RegLan / effect inclusion over the real patterns / call graph) and "
         "discharged for all inputs; T = exact decision over a complete finite domain (all shipped grammar tables / node "
         "classes / live regexes); B = bounded stand-in (run-time contract over a stated scope; never counted as proved). "
         "level is 'proof' only when every obligation of the property is D/T and discharged; otherwise 'other' with the "
         "split in the evidence. Exit 0 held / 1 VIOLATION / 2 undecided (binding error, out-of-subset) / 3 checker error; an undecided D/T obligation of a run whose bounded obligations all passed degrades to exit 0 with a DEGRADED line (the evidence then shows discharged < obligations, so the run cannot be read as a proof). "
         "A D obligation whose proof no longer goes through is reported as VIOLATION ... no-failing-input-found. "
         "Known findings: known_findings.json. Seeded changes used to test the checks: seeded/ (seeded/matrix.json: which obligations report which seed); must-fail mutants: selftest/.")

NOT_APPLICABLE = [
    dict(property_id='C12', reason="the oracle is the CPython compiler of 8 interpreter versions (they are installed under "
         "~/.pyenv/versions, so a differential test is possible, but) no pre/postcondition over parso's functions can state "
         "'CPython accepts this program' except by calling that compiler on sampled programs: the whole check would be "
         "differential testing with nothing deductive in it; the error finder's own contracts are covered under C13"),
    dict(property_id='C14', reason="reference semantics exists only as CPython's ast output on concrete programs; an "
         "independent contract for get_definition & co. would be a second hand-written copy of the same pattern "
         "matching"),
]

_B = ("bounded stand-in: executable contract of the public API checked at run time on every concatenation of <=4 (quick) "
      "/ <=5 (thorough) atoms of 12-atom adversarial alphabets, seeded random atom strings, mutated template programs "
      "and repository files")


def C(design, technique, text, note, category='other'):
    return dict(category=category, design_ref=design, technique=technique, text=text, note=note)


CHECKS = {
    'C01': C('4 C01', 'VCs of the get_code family (slice normal form over a ghost input text) and of token->leaf construction, discharged by z3; '
             'tokenizer helper VCs; run-time contract over exhaustive small scope (bounded)',
             'D: Leaf.get_code / BaseNode.get_code / _get_code_for_children return exactly the slice of the input their subtree '
             'spans (theories tree+tile, join folds); Parser.convert_leaf, Leaf.__init__: one leaf per token with the token\'s text, '
             'prefix, position; _close_fstring_if_necessary, _find_fstring_string, _split_illegal_unicode_name tile the text they '
             'consume; str branch of python_bytes_to_unicode; ' + _B + '; oracle is the input text itself',
             'that tokenize_lines and the parser establish the tiling invariant (wf+tile) is not proved: bounded only'),
    'C02': C('4 C02', 'VCs of the parser engine path (parse driver, _add_token, _pop, error_recovery in both modes, _stack_removal) discharged by z3; '
             'exact table facts (T); frame obligations; run-time contract over exhaustive small scope and nesting generators (bounded)',
             'D: BaseParser.parse / _add_token / _pop / Parser.error_recovery (strict, recovering, closure current_suite) / '
             '_stack_removal raise no IndexError, KeyError, AttributeError, UnboundLocalError and keep the stack well formed; parse '
             'returns a node; frames of all of them cover the real writes; Parser.convert_node and the node constructors it reaches incl. '
                'Function.__init__ / Function._find_parameters / Lambda.__init__ (total on a funcdef / lambdef production); T: no nullable rule, ENDMARKER only in start rules, '
             'ERRORTOKEN/ERROR_DEDENT in no rule, suite shape, funcdef shape, table shape, for all 9 grammars; ' + _B + ' plus nesting up to depth '
             '100 under the default recursion limit',
             '_create_params is the one assumed callee of the constructors; the grammar-shape preconditions of convert_node (suite, funcdef) are '
                'T facts the dispatch site does not establish (I_stack not proved); per-iteration assumptions of parse and caller-side preconditions of '
             'error_recovery are listed in the evidence; termination of the error_recovery/_add_token recursion not proved; '
             'tokenizer and Grammar._parse not under contract; A-REC'),
    'C03': C('4 C03', 'VCs of every end_pos/start_pos implementation against one spec function, discharged by z3; regex class '
             'invariants; bounded walk of the input',
             'D: Leaf.end_pos, _LeafWithoutNewlines.end_pos, PrefixPart.end_pos/create_spacing_part, start_pos getter/setter '
             'equal advance(start, value) for all values; ' + _B,
             'tokenizer start positions (true_pos) are bounded only except in the f-string / illegal-name helpers; node delegation '
             'is proved over ghost spos/epos; split_lines(keepends=False) contract trusted from re.split (validated exhaustively in C15)'),
    'C04': C('4 C04', 'VCs of the position update, end-line computation and leaf walks of the diff parser over a ghost leaf numbering (z3); run-time contract '
             'over enumerated edit histories (bounded); oracle = batch parser',
             'D: _update_positions shifts exactly the leaves from the first copied leaf up to last_leaf, writes only `line`, raises '
             'iff last_leaf is among them; _skip_dedent_error_leaves returns the nearest non-DEDENT leaf (found whenever one exists), '
             '_ends_with_newline, _get_last_line (the end marker\'s line when only the end marker follows a statement without NEWLINE), '
             '_get_previous/_next_leaf_if_indentation; the copy conditions helper by helper: _flows_finished, _func_or_class_has_suite '
             '(decorated / async wrappers in the grammar\'s nesting), _suite_or_file_input_is_valid, _is_flow_node; the diff branch of '
             'Grammar.parse (cached module reused only for identical lines, the updated module filed with the new lines); B: every '
             'single edit, capped pairs and seeded longer histories over 12 base texts (incl. CR line ends, BOM, continuation before end '
             'of file): dump, code, parents and used names equal a fresh parse after every step',
             'partly applicable: no inductive invariant for the copy conditions within reach; the core is bounded only'),
    'C05': C('4 C05', 'exact table obligations (T) on all grammars + VCs of the recovery cut-back (z3) + bounded conformance monitor against an independent EBNF reading',
             'T: automaton language = rule right-hand side, plan chains, LL(1) facts for all rules/states; D: error recovery cuts the stack '
             'back to a file_input / suite entry (or the root) and puts the removed nodes, as one error node, into that entry '
             '(current_suite, _stack_removal, Parser.error_recovery); B: every non-error node is a sentence of its rule (modulo documented '
             'conventions), errors only where a statement/block is expected',
             'stack invariant I_stack of the engine (entries spell runs of their rule automata) not discharged'),
    'C06': C('4 C06', 'exact LL(1) table obligations (T) + VCs of _token_to_transition and convert_leaf + generated derivations covering every automaton arc (bounded)',
             'T: FIRST-exact transitions, plan chains, no nullable rule, no FOLLOW conflict on all 9 tables; D: token->label; every token '
             'becomes a leaf of the kind of its token type (keyword iff reserved NAME); the push loop of _add_token performs the table '
             'step; B: every spelling used for NAME / NUMBER / STRING is one token of its class; one derivation per automaton arc, one per '
             '(arc, rule using the arc\'s rule) and one per pair of consecutive arcs of a rule, token spellings rotating through 6 / 14 / 8 '
             'forms, 1 (quick) / 3 (thorough) layouts: strict parse returns the collapsed derivation with the same leaf '
             'kinds, recovering parse identical',
             'M-LL1 paper lemma; I_stack not discharged'),
    'C07': C('4 C07', 'VCs of what strict mode raises (exception-object postconditions), frame/effect obligations over the real call graph, '
             'VCs of _recovery_tokenize and the parser constructors; relational bounded contract',
             'D: BaseParser.error_recovery never returns and raises ParserSyntaxError whose error leaf is the offending token '
             '(text, prefix, position); Parser.error_recovery in strict mode returns only through the shared missing-final-newline '
             'branch; the clause is carried through _add_token; mode flag read only at declared points and after the shared '
             'leniency branch, dedent filter armed only when recovering, error objects constructed only in '
             'error_recovery/_stack_removal, token filter is the identity while the filter is empty; ' + _B,
             'M-2RUN self-composition step is a paper argument'),
    'C08': C('4 C08', 'exact certificates on all rules/states/transitions of all shipped grammars (T) + VCs of the generator\'s state helpers (z3, enumerated dict iteration) + enumerated small EBNF grammars (bounded)',
             'T: language equivalence with an independent Thompson NFA per rule, subset-construction and simplification '
             'certificates, FIRST-exact transitions with push chains, reserved strings, LL(1)/left-recursion facts; D: DFAState.__eq__ is exactly '
                'the equivalence _simplify_dfas merges by, unifystate redirects exactly the arcs of the merged state, add_arc never overwrites; B: every '
             '2-rule grammar up to 3 symbol occurrences over a symbol set with two spellings of one terminal (thorough: larger symbol set, plus 4 occurrences over 3 symbols, 1.9 million '
             'grammars): rejected iff not LL(1), else certificates',
             'graph algorithms themselves (_make_dfas, _simplify_dfas, _calculate_tree_traversal) not proved (certificate route); M-SUBSET; a rule defined twice is outside the statement'),
    'C09': C('4 C09', 'RegLan obligations on the live patterns (z3) + VCs of PrefixPart and of the f-string / illegal-name helpers; bounded token-stream contract',
             'D: dispatch facts of the pseudo-token pattern (9 versions), part invariants and totality of the prefix re-lexer '
             '(refuted: known finding), PrefixPart positions, split_prefix tiles the prefix (match totality assumed = the known '
             'finding), dedent_if_necessary keeps the indentation stack strictly increasing (one DEDENT per level), FStringNode '
             'bookkeeping (never more open format specs than open braces), _close_fstring_if_necessary (prefix purity + tiling), _find_fstring_string, _split_illegal_unicode_name; ' + _B,
             'tokenize_lines main loop (tiling/balance/positions) bounded only: its totality contract discharges 173 of 180 obligations through '
                'the string abstraction back end within the path budget and is not registered'),
    'C10': C('4 C10', 'RegLan equivalence of lexeme classes with the running CPython\'s tokenize regex grammar; bounded stream comparison with the '
             'tokenizers of CPython 3.6-3.13 (interpreters of ~/.pyenv/versions, one reference process per version)',
             'D: Number/Comment/ASCII-name languages equal, operators covered, maximal munch, string prefixes, 9 versions; '
             'B: parso\'s token stream for version V equals tokenize.generate_tokens of CPython V on every program CPython V compiles, '
             'and up to the rejected token on programs its parser rejects with a plain "invalid syntax" (the tokenizer accepted '
             'them that far); quick: exhaustive scope on 3.6, 3.8, 3.12 and random programs on 3.6-3.13, thorough: all 8',
             'no CPython 3.14 in the sandbox: 3.14 only through the D obligations; before 3.12 the reference is the pure-Python '
             'tokenize module (programs on which it reports ERRORTOKEN, and for 3.9-3.11 a blank line after a backslash continuation, '
             'are not compared; programs with form feeds are compared since the exclusion hid a divergence); an f-string is compared from the inside only for 3.12+; a version whose interpreter is missing is counted in '
             'the evidence (pred_stats), not compared'),
    'C11': C('4 C11', 'VCs over a heap model with ghost in-order leaf numbering, discharged by z3; bounded monitor',
             'D: get_root_node, next/previous sibling, next/previous leaf, first/last leaf (all overrides), search_ancestor, '
             '__eq__ identity, get_leaf_for_position and its binary-search closure (ghost fge); '
             + _B + ' (every position of the text incl. outside borders)',
             'get_name_of_position bounded only; wf(tree) is a precondition'),
    'C13': C('4 C13', 'effect obligations (tree unchanged, no shared writes), class-table obligations on the rule registry, VCs of issue construction and of the per-line table; bounded contract of iter_errors',
             'D: no function reachable from iter_errors stores to a tree field or shared state; ErrorFinder.add_issue keeps the first issue '
             'of a line and touches no other line; visit_leaf files an issue for the line of every (non-indentation) error leaf; '
             '_add_syntax_error / _add_indentation_error, Issue.__init__; coverage of error nodes: Rule.feed_node -> _InvalidSyntaxRule.is_issue / '
                'get_node -> Rule.add_issue -> SyntaxRule._get_message -> ErrorFinder.add_issue files an issue for the line of the token '
                'following the error node (own line in the f-string variant, unless that token is an error leaf); T: all 31 registered rule classes carry code 901/903 with the '
             'matching message prefix, call-site signature; ' + _B + ' (codes, ranges, one per line, coverage of error leaves/nodes, determinism)',
             'totality of the rule classes on recovered trees is bounded only; the dispatch from visit_node to the rule (registry lookup) and '
                '_any_fstring_error are assumed; contracts are for an object that is exactly an ErrorFinder; '
             'known findings: f-string error node line, crashes on some recovered trees'),
    'C15': C('4 C15', 'RegLan equivalence of the coding-cookie search with PEP 263 (tokenize.cookie_re/blank_re); VCs of the codec choice for bytes input (z3); exhaustive bounded check of split_lines and decoding',
             'D: parso finds a declaration exactly in the sources where CPython does; python_bytes_to_unicode / detect_encoding: BOM first, '
             'then the declaration (normalised like CPython\'s get_normal_name), then the default; unknown codec falls back to UTF-8 only under errors=replace, else LookupError '
             '(codec machinery uninterpreted, the regex\'s meaning imported from the RegLan obligations); B: split_lines on all strings '
             '<=4/5 over 13 separator characters, decoding vs tokenize.detect_encoding on all <=4/5 atom byte strings, structured two-line '
                'sources and every alias of the codec registry with spelling variants and end-of-line suffixes',
             'split_lines proof not reached (exhaustive bounded instead); str(bytes, enc) and _get_normal_name (str.lower / replace) assumed'),
    'C16': C('4 C16', 'VCs of the cache functions over a ghost environment (mtime / content version / ghost file system), discharged by z3; '
             'model-free history enumeration with the contract as monitor (bounded), logical clock environment',
             'D: _set_cache_item stores under exactly (grammar, path), GC only removes; load_module serves a memory entry only if '
             'it is the tree of the version at the mtime observed now; _load_from_file_system serves a pickled item only if the modification '
             'time recorded in it is not older than the source\'s and it unpickles to a cache item (assumed contracts of os.path.getmtime/open/pickle.load); '
             'Grammar.parse: whichever branch serves the request the module handed back is the tree of the text read (tv ghost), every '
             'save files the module with the lines it is the tree of under this grammar\'s hash, and the memory cache keeps that '
             'invariant (parser / tokenizer / diff parser through assumed contracts stating C01 / C09 / C04); B: all '
             'histories <=3 (quick) over write/touch/back-dated write/parse x3/drop/delete/race x files x grammars x cache dirs + structured 6-step '
             'histories (incl. two paths whose spellings a lexical normalisation would identify, and strict parses through the cache, which must raise '
                'exactly when an uncached strict parse does), GC trigger at 600 and 1: tree equals fresh parse of current content',
             'that try_to_save_module establishes the representation invariants is not proved (memory: known finding read-then-stat '
             'race; disk: DISK-INV -- a pickled item is the tree of the version at its recorded change_time -- assumed of the writer); '
                '_get_hashed_path (A-SHA) assumed'),
    'C17': C('4 C17', 'VCs of the disk load, the save and the cache maintenance over a ghost file system (file contents as a ghost heap array, '
             'access times, a clock), discharged by z3; exception-effect (raises) inclusion over the call graph with trusted primitive raise sets; '
             'corruption and fault enumeration (bounded)',
             'D: nothing escapes _load_from_file_system / try_to_save_module, only the source stat error escapes load_module; '
             '_load_from_file_system returns None or a checked item whatever the primitives raise or return; _save_to_file_system: a save that '
             'returns normally has written the item to the entry\'s file, whatever was there, and no other file changed (the repair clause); '
             'clear_inactive_cache hands os.remove only files not accessed for the survival time (or the caller\'s threshold) at a clock reading of '
             'the call; _touch opens in append mode only; _remove_cache_and_update_lock touches only the lock path and runs the clean-up with the '
             'default threshold; B: every truncation offset, 14 corruptions (incl. pickles of incomplete items), clean-up with an entry in use inside '
             'an old-looking directory, 288 fault injections, on-disk repair after every corruption, two '
             'processes parsing the same files through one cache directory (entries removed under each other; 12 rounds quick, 120 thorough); '
             'thorough: every truncation offset of four modules incl. a source file of the repository, partial overwrites, rotations',
             'the os / pathlib / pickle / time primitives are assumed contracts (ext:...; listed in the evidence); floats of time and stat are '
             'mathematical numbers; interleavings of two processes are sampled by the run-time scenario, not enumerated; bit flips inside a '
             'valid pickle are outside the property\'s fault model (no checksum)'),
    'C18': C('4 C18', 'frame (modifies) obligations over the call graph of parse/iter_errors/tokenize; run-time frame monitor (bounded)',
             'D: no reachable function writes a shared object, module global, class attribute or mutable default except two '
             'write-once memo tables; no ambient reads; no call that changes interpreter-wide state of the standard library (refuted at two '
             'call sites in the string-literal rule: known finding, warnings filters); B: deep fingerprint of shared state, repeat/history independence, '
             'load orders, 8-thread smoke',
             'M-NI non-interference lemma is a paper argument; schedules are not explored'),
    'C19': C('4 C19', 'VCs of the refactoring visitor against a recursive splice spec function and of the tree constructors (z3); class-table '
             'protocol obligations (T); bounded dump/eval, pickle, refactor',
             'D: RefactoringNormalizer.visit / visit_leaf and the inherited Normalizer.visit / visit_leaf compute rcode(map, node) = '
             'the text of the tree with every mapped node replaced by its string; __eq__/__hash__, start_pos setter, '
             'constructors store their fields and set every child\'s parent, get_code family; T: constructor/dump/slots/import-name '
             'protocol over all tree classes; ' + _B,
             '_format_dump text bounded only; Normalizer.walk / Grammar.refactor wrappers not under contract'),
    'C20': C('4 C20', 'effect obligations (tree unchanged), call-site signature contract, VCs of issue equality and de-duplication; bounded contract of the PEP 8 normalizer',
             'D: no function reachable from _get_normalizer_issues stores to a tree field; all 46 add_issue call sites pass '
             '(node, int, str); VCs: Issue.__eq__, Normalizer.add_issue never records a (code, position) pair twice and does record the issue, '
             'PrefixPart positions; 292 is exact: PEP8Normalizer._visit_node on the root records it <=> the ghost text does not end in a '
             'line break (through PEP8Normalizer.add_issue for a node under the root before any leaf was visited); ' + _B + ' with 3 configurations (totality, ranges, duplicates, stability across calls and '
             'pickling, E292 exactness)',
             'nullability of the visitor\'s indentation stack is not proved; the 292 VC assumes the leaf-adjacency lemma of the tile theory and '
                'that a token ending in a line break is a NEWLINE; known findings: not total on recovered trees, with a tab '
             'indentation config, and at 7 sites on clean trees'),
}
