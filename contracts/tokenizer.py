"""Tokenizer helper contracts (C09 prefix purity, C01 tiling of the f-string end token)."""
from pv.contract import contract, class_fields, specfn
from pv.values import VRef


@specfn('top')
def sp_top(eng, st, lst):
    """last element of a list"""
    return eng.elem_value(st.lget(lst.t, st.llen(lst.t) - 1, lst.ek), lst.ek)

class_fields('FStringNode', quote='str', parentheses_count='int', previous_lines='str', format_spec_count='int')

# If an f-string on the stack closes here: the token is the quote, its prefix is the pending prefix plus *only blanks,
# tabs and form feeds* of the rest of the line (prefix purity), and exactly that text is consumed (tiling).
contract('parso.python.tokenize._close_fstring_if_necessary',
         params={'fstring_stack': 'list:ref:FStringNode', 'string': 'str', 'line_nr': 'int', 'column': 'int',
                 'additional_prefix': 'str'},
         returns='tuple:ref:PythonToken,str,int',
         requires=['forall(lambda k: implies(0 <= k and k < len(fstring_stack), fstring_stack[k] is not None and '
                   'len(fstring_stack[k].quote) >= 1 and fstring_stack[k].previous_lines == ""), trigger=lambda k: fstring_stack[k])'],
         ensures=['implies(result[0] is None, result[1] == additional_prefix and result[2] == 0 and '
                  'len(fstring_stack) == old(len(fstring_stack)))',
                  'implies(result[0] is not None, result[1] == "" and result[2] >= 1 and result[2] <= len(string) and '
                  'len(fstring_stack) < old(len(fstring_stack)))',
                  # tiling: the token's prefix is the pending prefix plus the skipped part of the line, and the token's
                  # text is literally the next part of the line; together they are the consumed part string[:result[2]]
                  'implies(result[0] is not None, result[0].prefix == additional_prefix + string[:result[2] - len(result[0].string)])',
                  'implies(result[0] is not None, string[result[2] - len(result[0].string):result[2]] == result[0].string and '
                  'len(result[0].string) >= 1 and len(result[0].string) <= result[2])',
                  # purity: what the token adds to the prefix is blanks, tabs, form feeds only
                  'implies(result[0] is not None, forall(lambda j: implies(0 <= j and j < result[2] - len(result[0].string), '
                  'string[j] == " " or string[j] == "\\t" or string[j] == "\\x0c")))',
                  'implies(result[0] is not None, result[0].start_pos == (line_nr, column + result[2] - len(result[0].string)))'],
         raises=[],
         loops={0: dict(invariant=['len(fstring_stack) == old(len(fstring_stack))', 'additional_prefix == old(additional_prefix)',
                                   'forall(lambda k: implies(0 <= k and k < len(fstring_stack), fstring_stack[k] is not None and '
                                   'len(fstring_stack[k].quote) >= 1 and fstring_stack[k].previous_lines == ""), trigger=lambda k: fstring_stack[k])'],
                        len_stable=True)},
         lists=['fstring_stack'], replay=dict(observe={'string': 'string', 'ap': 'additional_prefix', 'column': 'column', 'lnr': 'line_nr'},
                     script='from parso.python.tokenize import _close_fstring_if_necessary, FStringNode\n'
                            'for quotes in ([chr(34)], [chr(39)], [chr(34) * 3, chr(39)]):\n'
                            '    stack = [FStringNode(q) for q in quotes]\n'
                            '    n0 = len(stack)\n'
                            '    tok, pre, n = _close_fstring_if_necessary(stack, {string}, {lnr}, {column}, {ap})\n'
                            '    if tok is None:\n'
                            '        if (pre, n, len(stack)) != ({ap}, 0, n0):\n            return "no token but (%r, %r, %d)" % (pre, n, len(stack))\n'
                            '        continue\n'
                            '    skipped = {string}[:n - len(tok.string)]\n'
                            '    if tok.prefix != {ap} + skipped or {string}[n - len(tok.string):n] != tok.string or pre != "":\n'
                            '        return "token %r prefix %r does not tile %r" % (tok.string, tok.prefix, {string}[:n])\n'
                            '    if skipped.strip(" \\t\\x0c"):\n        return "the end token takes %r into its prefix" % (skipped,)\n'
                            '    if tok.start_pos != ({lnr}, {column} + len(skipped)):\n        return "end token at %r" % (tok.start_pos,)\n'
                            'return None\n'),
         props=['C09', 'C01'])

# ---- _find_fstring_string: the literal part of an f-string.  Text conservation: what was pending in previous_lines
# plus the consumed part of the line is either returned or (if it ends in a line break) kept pending; the start position
# of a literal that spans lines is remembered from its first line.
class_fields('FStringNode', last_string_start_pos='opt:pos')
contract('parso.python.tokenize.FStringNode.allow_multiline', params={'self': 'ref:FStringNode'}, returns='bool',
         ensures=['result == (len(self.quote) == 3)'], props=['C01'],
         replay=dict(observe={'quote': 'self.quote'},
                     script='from parso.python.tokenize import FStringNode\nn = FStringNode({quote})\ngot = bool(n.allow_multiline())\n'
                            'exp = len({quote}) == 3\nreturn None if got == exp else "allow_multiline %r for quote %r" % (got, {quote})\n'))
# (the real result is False or the int format_spec_count; only its truth value is used, which is what the bool models)
contract('parso.python.tokenize.FStringNode.is_in_format_spec', params={'self': 'ref:FStringNode'}, returns='bool',
         ensures=['result == (not (self.parentheses_count > self.format_spec_count) and self.format_spec_count != 0)'],
         props=['C09'],
         replay=dict(observe={'pc': 'self.parentheses_count', 'fc': 'self.format_spec_count'},
                     script='from parso.python.tokenize import FStringNode\nn = FStringNode("\'")\nn.parentheses_count = {pc}\n'
                            'n.format_spec_count = {fc}\ngot = bool(n.is_in_format_spec())\nexp = (not ({pc} > {fc})) and {fc} != 0\n'
                            'return None if got == exp else "is_in_format_spec %r with depths %r/%r" % (got, {pc}, {fc})\n'))

QUOTES_KNOWN = ('forall(lambda k: implies(0 <= k and k < len(fstring_stack), fstring_stack[k] is not None and '
                'fstring_stack[k].quote in endpats and endpats[fstring_stack[k].quote] is not None and '
                'len(fstring_stack[k].quote) >= 1), trigger=lambda k: fstring_stack[k])')
contract('parso.python.tokenize._find_fstring_string',
         params={'endpats': 'map:str:ref:re.Pattern', 'fstring_stack': 'list:ref:FStringNode', 'line': 'str', 'lnum': 'int', 'pos': 'int'},
         returns='tuple:str,int',
         requires=['len(fstring_stack) >= 1', '0 <= pos and pos <= len(line)', QUOTES_KNOWN],
         ensures=['pos <= result[1] and result[1] <= len(line)',
                  # conservation of text
                  '(result[0] == "" and top(fstring_stack).previous_lines == old(top(fstring_stack).previous_lines) + line[pos:result[1]]) or '
                  '(result[0] == old(top(fstring_stack).previous_lines) + line[pos:result[1]] and '
                  'top(fstring_stack).previous_lines == old(top(fstring_stack).previous_lines))',
                  # a literal that continues from earlier lines keeps the start position of its first line
                  'implies(old(top(fstring_stack).previous_lines) != "", '
                  'top(fstring_stack).last_string_start_pos == old(top(fstring_stack).last_string_start_pos))',
                  'implies(old(top(fstring_stack).previous_lines) == "" and result[1] > pos, '
                  'top(fstring_stack).last_string_start_pos == (lnum, pos))'],
         raises=[],
         loops={0: dict(invariant=['string == line[pos:pos + len(string)]', 'pos + len(string) <= len(line)',
                                   'tos is top(fstring_stack)', QUOTES_KNOWN,
                                   'tos.previous_lines == old(top(fstring_stack).previous_lines)',
                                   'implies(old(top(fstring_stack).previous_lines) != "", tos.last_string_start_pos == old(top(fstring_stack).last_string_start_pos))',
                                   'implies(old(top(fstring_stack).previous_lines) == "", tos.last_string_start_pos == (lnum, pos))'])},
         replay=dict(observe={'line': 'line', 'pos': 'pos', 'lnum': 'lnum'},
                     script='from parso.python.tokenize import _find_fstring_string, FStringNode, _get_token_collection\n'
                            'from parso.utils import PythonVersionInfo\n'
                            'endpats = _get_token_collection(PythonVersionInfo(3, 10)).endpats\n'
                            'if not (0 <= {pos} <= len({line})):\n    return None\n'
                            'for quote in (chr(34), chr(39) * 3):\n'
                            '    for prev, depth in (("", 0), ("ab" + chr(10), 0), ("", 1)):\n'
                            '        node = FStringNode(quote); node.previous_lines = prev; node.last_string_start_pos = (7, 7) if prev else None\n'
                            '        node.parentheses_count = depth; node.format_spec_count = depth\n'
                            '        s, p = _find_fstring_string(endpats, [node], {line}, {lnum}, {pos})\n'
                            '        if not ({pos} <= p <= len({line})):\n            return "new position %r" % (p,)\n'
                            '        piece = {line}[{pos}:p]\n'
                            '        ok = (s == "" and node.previous_lines == prev + piece) or (s == prev + piece and node.previous_lines == prev)\n'
                            '        if not ok:\n            return "text not conserved: returned %r, kept %r, consumed %r after %r" % (s, node.previous_lines, piece, prev)\n'
                            '        if prev and node.last_string_start_pos != (7, 7):\n            return "start position of a continued literal overwritten: %r" % (node.last_string_start_pos,)\n'
                            '        if not prev and p > {pos} and node.last_string_start_pos != ({lnum}, {pos}):\n            return "start position %r" % (node.last_string_start_pos,)\n'
                            'return None\n'),
         modifies=['last_string_start_pos', 'previous_lines'], props=['C01', 'C03', 'C09'])

# ---- _split_illegal_unicode_name: a NAME match that is not an identifier is cut into NAME / ERRORTOKEN pieces.
# Tiling: the pieces are consecutive slices of the token and cover it; only the first piece carries the prefix; each
# piece starts at the token's column plus its offset.
contract('parso.python.tokenize._split_illegal_unicode_name', kind='generator',
         params={'token': 'str', 'start_pos': 'pos', 'prefix': 'str'}, yields='ref:PythonToken',
         yield_acc={'ylen': 'len(y.string)'},
         yield_ensures=['y is not None', 'len(y.string) >= 1',
                        'y.string == token[ylen:ylen + len(y.string)]',                 # the next slice of the token
                        'y.start_pos == (start_pos[0], start_pos[1] + ylen)',           # at its true column
                        'y.prefix == ite(ylen == 0, old(prefix), "")'],                 # the prefix goes to the first piece only
         ensures=['ylen == len(token)'],
         inline=['parso.python.tokenize._split_illegal_unicode_name.create_token'],
         loops={0: dict(views={'found': 'token[ylen:_i]'},
                        invariant=['0 <= ylen and ylen <= _i', 'pos == (start_pos[0], start_pos[1] + ylen)',
                                   'implies(ylen == _i, _i == 0 and not is_illegal)',
                                   'prefix == ite(ylen == 0, old(prefix), "")'])},
         replay=dict(observe={'token': 'token', 'prefix': 'prefix', 'sp': 'start_pos'},
                     script='from parso.python.tokenize import _split_illegal_unicode_name\n'
                            'toks = list(_split_illegal_unicode_name({token}, {sp}, {prefix}))\n'
                            'if "".join(t.string for t in toks) != {token}:\n    return "pieces %r do not tile the token" % ([t.string for t in toks],)\n'
                            'if "".join(t.prefix for t in toks) != ({prefix} if toks else ""):\n'
                            '    return "the prefix is carried by %d pieces: %r" % (sum(bool(t.prefix) for t in toks), [t.prefix for t in toks])\n'
                            'off = 0\n'
                            'for t in toks:\n'
                            '    if t.start_pos != ({sp}[0], {sp}[1] + off):\n        return "piece %r at %r, true column %d" % (t.string, t.start_pos, {sp}[1] + off)\n'
                            '    off += len(t.string)\n'
                            'return None\n'),
         props=['C01', 'C09'])


# ---- split_prefix (C09): the parts tile the prefix.  Each yielded part's spacing + value is literally the next slice
# of leaf.prefix; together they cover it.  Facts about one match of the re-lexer pattern are imported from the RegLan
# obligations of pv/obs_regex.py (named on the right); totality of the match itself is an ASSUMPTION here (A-RELEX): it is
# the known finding re:prefix:relexer-total (form feed inside a comment), discharged only for comments without form feed.
contract('parso.python.prefix.split_prefix', kind='generator',
         params={'leaf': 'ref:Leaf', 'start_pos': 'pos'}, yields='ref:PrefixPart',
         requires=['leaf is not None'],
         yield_acc={'ylen': 'len(y.spacing) + len(y.value)'},
         yield_ensures=['y is not None', 'y.parent is leaf',
                        'y.spacing + y.value == leaf.prefix[ylen:ylen + len(y.spacing) + len(y.value)]'],
         ensures=['ylen == len(leaf.prefix)'],
         match_facts={'_regex': [
             'matched',                                                          # A-RELEX (assumption, see above)
             'implies(g2 == "", end == len(s))',                                 # re:prefix._regex:empty-value-only-at-end
             'implies(g2 != "", g2[0] in ("#", "\\\\", "\\x0c", "\\n", "\\r", "\\ufeff"))',   # re:prefix._regex:type-lookup-total
         ]},
         loops={0: dict(invariant=['0 <= start and start <= len(leaf.prefix)', 'ylen == start',
                                   'value != "" or (spacing == "" and start == 0)'],
                        decreases='len(leaf.prefix) - start')},
         replay=dict(observe={'prefix': 'leaf.prefix', 'sp': 'start_pos'},
                     script='from parso.python.prefix import split_prefix, _regex\n'
                            'class L: pass\n'
                            'l = L(); l.prefix = {prefix}; l.parent = None\n'
                            'i = 0\n'
                            'while i != len({prefix}):      # A-RELEX: inputs on which the re-lexer fails are outside the contract\n'
                            '    m = _regex.match({prefix}, i)\n'
                            '    if m is None:\n        return None\n'
                            '    if not m.group(2):\n        break\n'
                            '    i = m.end(0)\n'
                            'parts = list(split_prefix(l, {sp}))\n'
                            'if "".join(p.spacing + p.value for p in parts) != {prefix}:\n'
                            '    return "parts %r do not tile the prefix" % ([(p.spacing, p.value) for p in parts],)\n'
                            'if any(p.parent is not l for p in parts):\n    return "a part has another parent"\n'
                            'return None\n'),
         props=['C09', 'C01'])


# ---- dedent_if_necessary (closure of tokenize_lines; C09 "indentation-balanced"): the indentation stack stays strictly
# increasing from 0, one DEDENT is yielded per popped level, at most one ERROR_DEDENT (then the top is lowered to the new
# column), afterwards the top is <= the column; indents[-2] never fails.
INC = ('forall(lambda k: implies(0 < k and k < len(indents), indents[k - 1] < indents[k]), trigger=lambda k: indents[k])')
contract('parso.python.tokenize.tokenize_lines.dedent_if_necessary', kind='generator',
         closure_of='parso.python.tokenize.tokenize_lines',
         params={'start': 'int'}, yields='ref:PythonToken',
         free={'indents': 'list:int', 'lnum': 'int', 'spos': 'pos'},
         requires=['indents is not None', 'len(indents) >= 1', 'indents[0] == 0', INC, 'start >= 0'],
         yield_acc={'ndedent': 'ite(y.type is DEDENT, 1, 0)', 'nerr': 'ite(y.type is ERROR_DEDENT, 1, 0)'},
         yield_ensures=['y is not None', 'y.string == ""', 'y.prefix == ""', 'y.type is DEDENT or y.type is ERROR_DEDENT'],
         ensures=['len(indents) >= 1', 'indents[0] == 0', INC, 'indents[len(indents) - 1] <= start',
                  'ndedent == old(len(indents)) - len(indents)', 'nerr <= 1',
                  # levels that stay are unchanged, except that an ERROR_DEDENT lowers the top to the new column
                  'forall(lambda k: implies(0 <= k and k < len(indents) - 1, indents[k] == old(indents[k])), trigger=lambda k: indents[k])',
                  'implies(nerr == 0, forall(lambda k: implies(0 <= k and k < len(indents), indents[k] == old(indents[k])), '
                  'trigger=lambda k: indents[k]))',
                  'implies(nerr == 1, indents[len(indents) - 1] == start)'],
         loops={0: dict(invariant=['len(indents) >= 1', 'indents[0] == 0', INC, 'nerr == 0',
                                   'ndedent == old(len(indents)) - len(indents)',
                                   'forall(lambda k: implies(0 <= k and k < len(indents), indents[k] == old(indents[k])), trigger=lambda k: indents[k])'],
                        decreases='len(indents)', lists_modified=['indents'])},
         globals_={'DEDENT': 'ref:PythonTokenTypes', 'ERROR_DEDENT': 'ref:PythonTokenTypes'},
         lists=['indents'], props=['C09'])


# ---- FStringNode bookkeeping (C09): bracket depth and format-spec depth of one open f-string
FSN = 'ref:FStringNode'
class_fields('FStringNode', raw='bool')
contract('parso.python.tokenize.FStringNode.__init__', params={'self': FSN, 'quote': 'str', 'raw': 'bool'},
         ensures=['self.quote == quote', 'self.raw == raw', 'self.parentheses_count == 0', 'self.format_spec_count == 0',
                  'self.previous_lines == ""'],
         modifies=['self.quote', 'self.raw', 'self.parentheses_count', 'self.previous_lines', 'self.last_string_start_pos',
                   'self.format_spec_count'], props=['C09'])
contract('parso.python.tokenize.FStringNode.open_parentheses', params={'self': FSN, 'character': 'str'},
         ensures=['self.parentheses_count == old(self.parentheses_count) + 1',
                  'self.format_spec_count == old(self.format_spec_count)'],
         modifies=['self.parentheses_count'], props=['C09'],
         replay=dict(observe={'pc': 'self.parentheses_count', 'fc': 'self.format_spec_count'},
                     script='from parso.python.tokenize import FStringNode\nn = FStringNode("\'")\nn.parentheses_count = {pc}\n'
                            'n.format_spec_count = {fc}\nn.open_parentheses("{{")\n'
                            'exp = ({pc} + 1, {fc})\ngot = (n.parentheses_count, n.format_spec_count)\n'
                            'return None if got == exp else "open_parentheses leaves depths %r, expected %r" % (got, exp)\n'))
contract('parso.python.tokenize.FStringNode.close_parentheses', params={'self': FSN, 'character': 'str'},
         # a format spec belongs to an open brace: the brace that closes finishes the spec of its field, shallower specs stay
         # (the first version of this contract was read off the code -- 'unchanged unless the depth reaches 0' -- and so
         # encoded the defect repaired by the fix for f"{x:{y:1}{z}}")
         ensures=['self.parentheses_count == old(self.parentheses_count) - 1',
                  'self.format_spec_count == min(old(self.format_spec_count), self.parentheses_count)',
                  'implies(old(self.format_spec_count) <= old(self.parentheses_count), self.format_spec_count <= self.parentheses_count)'],
         modifies=['self.parentheses_count', 'self.format_spec_count'], props=['C09'],
         replay=dict(observe={'pc': 'self.parentheses_count', 'fc': 'self.format_spec_count'},
                     script='from parso.python.tokenize import FStringNode\nn = FStringNode("\'")\nn.parentheses_count = {pc}\n'
                            'n.format_spec_count = {fc}\nn.close_parentheses("}}")\n'
                            'exp = ({pc} - 1, min({fc}, {pc} - 1))\ngot = (n.parentheses_count, n.format_spec_count)\n'
                            'return None if got == exp else "close_parentheses leaves depths %r, expected %r" % (got, exp)\n'))
contract('parso.python.tokenize.FStringNode.is_in_expr', params={'self': FSN}, returns='bool',
         ensures=['result == (self.parentheses_count > self.format_spec_count)'], props=['C09'],
         replay=dict(observe={'pc': 'self.parentheses_count', 'fc': 'self.format_spec_count'},
                     script='from parso.python.tokenize import FStringNode\nn = FStringNode("\'")\nn.parentheses_count = {pc}\n'
                            'n.format_spec_count = {fc}\ngot = bool(n.is_in_expr())\nexp = {pc} > {fc}\n'
                            'return None if got == exp else "is_in_expr %r with depths %r/%r" % (got, {pc}, {fc})\n'))


# ---- tokenize_lines: totality (C02 / C09: the tokenizer never raises).  Facts about the per-version token tables are the
# postcondition of _get_token_collection (assumed there, backed by the T obligations tok:<v>:tables over the 9 live
# collections); facts about single matches of pseudo_token / whitespace come from the RegLan obligations named beside them.
class_fields('TokenCollection', pseudo_token='ref:re.Pattern', single_quoted='any', triple_quoted='any',
             endpats='map:str:ref:re.Pattern', whitespace='ref:re.Pattern', fstring_pattern_map='map:str:str',
             always_break_tokens='any')
TC = 'result'
TC_FACTS = [
    'result is not None', 'result.pseudo_token is not None', 'result.whitespace is not None', 'result.endpats is not None',
    'result.fstring_pattern_map is not None',
    'forall(lambda k: implies(k in result.endpats, result.endpats[k] is not None), kinds=dict(k="str"))',
    'forall(lambda k: implies(k in result.fstring_pattern_map, len(result.fstring_pattern_map[k]) >= 1 and '
    'result.fstring_pattern_map[k] in result.endpats), kinds=dict(k="str"))',
    'forall(lambda q: implies(q in result.triple_quoted, q in result.endpats), kinds=dict(q="str"))',
    'forall(lambda q: implies(q in result.single_quoted, len(q) >= 1 and len(q) <= 3 and q[len(q) - 1:] in result.endpats), '
    'kinds=dict(q="str"))',
]
contract('parso.python.tokenize._get_token_collection', params={'version_info': 'pos'}, returns='ref:TokenCollection',
         trusted=True, ensures=TC_FACTS, lists=[], modifies=['_token_collection_cache', '$maps'],
         note='memoised table of compiled patterns per version; the shape facts are the T obligations tok:<v>:tables')

# The main loop of tokenize_lines is NOT under contract.  A totality contract (invariants for the indentation stack, the
# f-string stack, the token tables; eight facts about single regex matches imported from RegLan obligations) was drafted
# and executed symbolically (about 6000 statements, 700 paths, 160 obligations) -- see drafts/tokenize_lines.py -- but z3's
# string theory does not return on some of its path conditions (it spins in theory_seq::propagate, honouring neither
# the time nor the resource limit), so it is not registered: a check must never hang.  The helpers it calls are under
# contract above (dedent_if_necessary, _find_fstring_string, _close_fstring_if_necessary, _split_illegal_unicode_name,
# FStringNode.*), and the facts about the token tables are T obligations (tok:<v>:tables).
