"""SMT back ends: z3 (python API) first, cvc5 (CLI, SMT-LIB text of the same query) for z3's unknowns.

prove(assumptions, goal) asks whether  assumptions /\\ not goal  is unsatisfiable.
A verdict is 'discharged' when one solver says unsat and the other did not say sat (DESIGN 6).
"""
import os
import subprocess
import tempfile
import time

import z3

CVC5 = '/usr/bin/cvc5'
Z3_TIMEOUT_MS = int(os.environ.get('PV_Z3_TIMEOUT_MS', '8000'))
CVC5_TIMEOUT_S = int(os.environ.get('PV_CVC5_TIMEOUT_S', '20'))

STATS = dict(queries=0, z3_time=0.0, cvc5_time=0.0, cvc5_queries=0)


RLIMIT_PER_MS = int(os.environ.get('PV_Z3_RLIMIT_PER_MS', '12000'))


WALL_FACTOR = int(os.environ.get('PV_Z3_WALL_FACTOR', '6'))


def _mk_solver(timeout_ms):
    s = z3.Solver()
    # The budget of a query is its resource limit (deterministic: the same query gets the same verdict on an idle and on
    # a fully loaded machine); the wall-clock timer is only a generous backstop behind it, so that a verdict does not
    # flip to 'unknown' because 16 other processes share the cores (seen: a 6 s query timing out at 8 s under load 40).
    s.set('timeout', timeout_ms * WALL_FACTOR)
    # The resource limit is counted inside the solver and needs no helper thread (z3's timer thread has also been seen not
    # to fire in heavily loaded forked workers); about 4M units per second on this machine, i.e. roughly three times the
    # nominal time limit.
    s.set('rlimit', max(1, timeout_ms) * RLIMIT_PER_MS)
    return s


ABSTRACT = [None]   # None | 'first' | 'only': string abstraction (pv/abstr.py) tried before / instead of the string theory


def abstract_unsat(formulas, timeout_ms):
    """True iff the string-abstracted query is unsat (then so is the original one); anything else -> False."""
    from pv import abstr
    t0 = time.time()
    try:
        fs = abstr.abstract(formulas)
    except abstr.Unsupported as e:
        STATS['abs_unsupported'] = STATS.get('abs_unsupported', 0) + 1
        if os.environ.get('PV_TRACE_ABS'):
            print('abstraction unsupported:', e)
        return False
    s = _mk_solver(timeout_ms)
    # E-matching only: the abstract query has quantified axioms; on a satisfiable query (a feasible path) model-based
    # instantiation would grind until the resource limit, and a model is of no use here anyway
    s.set('auto_config', False)
    s.set('smt.mbqi', False)
    for f in fs:
        s.add(f)
    r = s.check()
    STATS['abs_time'] = STATS.get('abs_time', 0.0) + time.time() - t0
    STATS['abs_queries'] = STATS.get('abs_queries', 0) + 1
    if r == z3.unsat:
        STATS['abs_unsat'] = STATS.get('abs_unsat', 0) + 1
        return True
    return False


def check_sat(formulas, timeout_ms=None, want_model=False, use_cvc5=True):
    """-> (verdict, model_or_None, seconds, backend) with verdict in sat/unsat/unknown."""
    timeout_ms = timeout_ms or Z3_TIMEOUT_MS
    STATS['queries'] += 1
    if ABSTRACT[0]:
        t0 = time.time()
        if abstract_unsat(formulas, timeout_ms):
            return 'unsat', None, time.time() - t0, 'z3-abs'
        if ABSTRACT[0] == 'only':
            return 'unknown', None, time.time() - t0, 'z3-abs'
    s = _mk_solver(timeout_ms)
    for f in formulas:
        s.add(f)
    t0 = time.time()
    r = s.check()
    dt = time.time() - t0
    STATS['z3_time'] += dt
    if r == z3.unsat:
        return 'unsat', None, dt, 'z3'
    if r == z3.sat:
        return 'sat', (s.model() if want_model else None), dt, 'z3'
    dd = os.environ.get('PV_DUMP_DIR')
    if dd:
        os.makedirs(dd, exist_ok=True)
        with open(os.path.join(dd, 'q%04d.smt2' % STATS['queries']), 'w') as f:
            f.write(s.to_smt2())
    if not use_cvc5:
        return 'unknown', None, dt, 'z3'
    # z3 gave up: hand the same query to cvc5
    v, dt2 = cvc5_check(s.to_smt2())
    STATS['cvc5_time'] += dt2
    STATS['cvc5_queries'] += 1
    return v, None, dt + dt2, 'cvc5'


def cvc5_check(smt2_text, timeout_s=None):
    timeout_s = timeout_s or CVC5_TIMEOUT_S
    fd, path = tempfile.mkstemp(suffix='.smt2', prefix='pv_')
    t0 = time.time()
    try:
        with os.fdopen(fd, 'w') as f:
            if '(set-logic' not in smt2_text:
                f.write('(set-logic ALL)\n')
            f.write(smt2_text)
        try:
            p = subprocess.run([CVC5, '--strings-exp', '--tlimit=%d' % (timeout_s * 1000), path],
                               capture_output=True, text=True, timeout=timeout_s + 5)
            out = p.stdout.strip().splitlines()
            v = out[0].strip() if out else 'unknown'
            if v not in ('sat', 'unsat'):
                v = 'unknown'
        except subprocess.TimeoutExpired:
            v = 'unknown'
    finally:
        os.remove(path)
    return v, time.time() - t0


CROSS = dict(asked=0, unsat=0, unknown=0, sat=0)


def prove(assumptions, goal, timeout_ms=None, want_model=True):
    """-> (status, model, seconds, backend): status in discharged / refuted / undecided."""
    v, m, dt, be = check_sat(list(assumptions) + [z3.Not(goal)], timeout_ms, want_model=want_model)
    if v == 'unsat':
        if os.environ.get('PV_CROSSCHECK') and be == 'z3':
            # thorough tier: the other solver sees the same query; "discharged" needs that it does not say sat
            s = _mk_solver(1000)
            for f in list(assumptions) + [z3.Not(goal)]:
                s.add(f)
            v2, dt2 = cvc5_check(s.to_smt2(), timeout_s=int(os.environ.get('PV_CROSSCHECK_S', '4')))
            CROSS['asked'] += 1
            CROSS[v2 if v2 in CROSS else 'unknown'] += 1
            STATS['cvc5_time'] += dt2
            STATS['cvc5_queries'] += 1
            STATS['cross_' + (v2 if v2 in ('sat', 'unsat') else 'unknown')] = STATS.get('cross_' + (v2 if v2 in ('sat', 'unsat') else 'unknown'), 0) + 1
            if v2 == 'sat':
                return 'undecided', None, dt + dt2, 'z3 unsat / cvc5 sat'
        return 'discharged', None, dt, be
    if v == 'sat':
        return 'refuted', m, dt, be
    return 'undecided', None, dt, be


_qcache = {}


def has_quant(f):
    k = f.get_id()
    r = _qcache.get(k)
    if r is None:
        r = False
        todo = [f]
        seen = set()
        while todo:
            x = todo.pop()
            if x.get_id() in seen:
                continue
            seen.add(x.get_id())
            if z3.is_quantifier(x):
                r = True
                break
            todo.extend(x.children())
        _qcache[k] = r
    return r


FEAS_MS = int(os.environ.get('PV_FEAS_MS', '0'))


def feasible(formulas, timeout_ms=400):
    if FEAS_MS:
        timeout_ms = min(timeout_ms, FEAS_MS)
    """Path pruning only: quantified facts are left out and 'unknown' counts as feasible
    (sound: more paths are explored, never fewer)."""
    if ABSTRACT[0]:
        return not abstract_unsat([f for f in formulas if not has_quant(f)], timeout_ms)
    s = _mk_solver(timeout_ms)
    for f in formulas:
        if not has_quant(f):
            s.add(f)
    return s.check() != z3.unsat


def model_text(m, limit=60):
    if m is None:
        return ''
    items = []
    for d in m.decls():
        try:
            items.append('%s = %s' % (d.name(), m[d]))
        except Exception:  # noqa
            pass
    items.sort()
    return '; '.join(items[:limit])


def forall(vs, body, patterns=None):
    """Quantifier with E-matching patterns; falls back to z3's own choice when a pattern is not expressible
    (a term containing if-then-else, e.g. a map updated under a condition)."""
    if patterns:
        ps = [p if not z3.is_expr(p) else z3.simplify(p) for p in patterns]
        if not any(z3.is_expr(p) and _has_ite(p) for p in ps):
            try:
                return z3.ForAll(vs, body, patterns=ps)
            except z3.Z3Exception:
                pass
    return z3.ForAll(vs, body)


def _has_ite(t):
    todo, seen = [t], set()
    while todo:
        x = todo.pop()
        if x.get_id() in seen:
            continue
        seen.add(x.get_id())
        if z3.is_app(x):
            if x.decl().kind() == z3.Z3_OP_ITE:
                return True
            todo.extend(x.children())
    return False
