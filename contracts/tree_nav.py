"""C11 (and the node clauses of C03): navigation against a ghost in-order leaf numbering.

Ghost vocabulary over the (read-only) heap of one well-formed tree:
  is_leaf(n)      leaf or interior node (class table: subclass of Leaf / BaseNode)
  nch(n), child(n, i), idx(n)   children list, position of n in its parent's list
  lo(n), hi(n)    numbers of the first / last leaf below n in source order (a leaf: lo == hi == its number)
  depth(n), height(n), root(n)
wf axioms: parent/children mutually consistent, interior nodes non-empty, every object occurs once in the
children list of its parent, consecutive children carry consecutive leaf ranges.
"""
import z3

from pv.contract import contract, theory, specfn
from pv.values import VInt, VBool, VRef, I, B, S

F = z3.Function
_isleaf = F('$isleaf', I, B)
_lo = F('lo', I, I)
_hi = F('hi', I, I)
_depth = F('depth', I, I)
_height = F('height', I, I)
_root = F('root', I, I)
_idx = F('idx', I, I)


def _nch(st, n):
    return st.llen(st.rd('children', n))


def _child(st, n, i):
    return st.lget(st.rd('children', n), i, 'ref')


def _parent(st, n):
    return st.rd('parent', n)


_isroot = F('isroot', I, B)


@theory('tree')
def tree_axioms(eng, st):
    """Triggers are chosen so that no axiom produces a term that re-triggers a chain (no matching loops):
    value facts flow through the child axiom only; successor facts need both child terms to exist."""
    n, i, j = z3.Ints('n i j')
    P = lambda x: _parent(st, x)       # noqa
    ch = lambda x, k: _child(st, x, k)  # noqa
    nc = lambda x: _nch(st, x)         # noqa
    ax = []
    node = lambda x: x != 0            # noqa
    inner = z3.And(node(n), z3.Not(_isleaf(n)))
    rng = z3.And(inner, 0 <= i, i < nc(n))
    c = ch(n, i)
    ax.append(z3.ForAll([n, i], z3.Implies(rng, z3.And(c != 0, P(c) == n, _idx(c) == i,
                                                        _depth(c) == _depth(n) + 1, _height(c) < _height(n),
                                                        _root(c) == _root(n), z3.Not(_isroot(c)),
                                                        _lo(n) <= _lo(c), _hi(c) <= _hi(n))),
                        patterns=[ch(n, i)]))
    ax.append(z3.ForAll([n], z3.Implies(node(n), z3.And(
        z3.Implies(P(n) != 0, z3.And(z3.Not(_isleaf(P(n))), 0 <= _idx(n), _idx(n) < nc(P(n)),
                                     z3.Not(_isroot(n)))),
        z3.Implies(P(n) == 0, z3.And(_isroot(n), _root(n) == n, _depth(n) == 0)))),
                        patterns=[P(n)]))
    ax.append(z3.ForAll([n], z3.Implies(z3.And(node(n), P(n) != 0), ch(P(n), _idx(n)) == n), patterns=[_idx(n)]))
    ax.append(z3.ForAll([n], z3.Implies(node(n), _depth(n) >= 0), patterns=[_depth(n)]))
    ax.append(z3.ForAll([n], z3.Implies(node(n), _height(n) >= 0), patterns=[_height(n)]))
    ax.append(z3.ForAll([n], z3.Implies(node(n), _lo(n) <= _hi(n)), patterns=[_hi(n)]))
    ax.append(z3.ForAll([n], z3.Implies(node(n), _lo(n) <= _hi(n)), patterns=[_lo(n)]))
    ax.append(z3.ForAll([n], z3.Implies(node(n), z3.And(_root(n) != 0, _isroot(_root(n)), _lo(_root(n)) <= _lo(n),
                                                         _hi(n) <= _hi(_root(n)))), patterns=[_root(n)]))
    ax.append(z3.ForAll([n], z3.Implies(z3.And(node(n), _isleaf(n)), _lo(n) == _hi(n)), patterns=[_isleaf(n)]))
    ax.append(z3.ForAll([n], z3.Implies(inner, z3.And(nc(n) >= 1, _lo(n) == _lo(ch(n, 0)),
                                                       _hi(n) == _hi(ch(n, nc(n) - 1)))), patterns=[nc(n)]))
    ax.append(z3.ForAll([n, i, j], z3.Implies(z3.And(inner, 0 <= i, j == i + 1, j < nc(n)),
                                              _lo(ch(n, j)) == _hi(ch(n, i)) + 1),
                        patterns=[z3.MultiPattern(ch(n, i), ch(n, j))]))
    # class table facts used by isinstance tests
    ax.append(z3.ForAll([n], z3.Implies(node(n), F('$isinst_Leaf', I, B)(n) == _isleaf(n)),
                        patterns=[F('$isinst_Leaf', I, B)(n)]))
    ax.append(z3.ForAll([n], z3.Implies(node(n), F('$isinst_BaseNode', I, B)(n) == z3.Not(_isleaf(n))),
                        patterns=[F('$isinst_BaseNode', I, B)(n)]))
    return ax


def _ref(v):
    return v.t


@specfn('is_leaf')
def sp_is_leaf(eng, st, n):
    return VBool(_isleaf(_ref(n)))


@specfn('lo')
def sp_lo(eng, st, n):
    return VInt(_lo(_ref(n)))


@specfn('hi')
def sp_hi(eng, st, n):
    return VInt(_hi(_ref(n)))


@specfn('depth')
def sp_depth(eng, st, n):
    return VInt(_depth(_ref(n)))


@specfn('height')
def sp_height(eng, st, n):
    return VInt(_height(_ref(n)))


@specfn('root')
def sp_root(eng, st, n):
    return VRef(_root(_ref(n)), 'NodeOrLeaf')


@specfn('idx')
def sp_idx(eng, st, n):
    return VInt(_idx(_ref(n)))


@specfn('nch')
def sp_nch(eng, st, n):
    return VInt(_nch(st, _ref(n)))


@specfn('child')
def sp_child(eng, st, n, i):
    return VRef(_child(st, _ref(n), i.t), 'NodeOrLeaf')


# ------------------------------------------------------------------------------ == on tree objects
contract('parso.python.tree._StringComparisonMixin.__eq__',
         params={'self': 'ref:Operator', 'other': 'ref:NodeOrLeaf'}, returns='bool',
         ensures=['result == (self is other)'], eq_on_ref='identity', props=['C11', 'C19'],
         note='for a non-str argument the comparison is identity; list.index / dict lookup on tree objects rely on it')
contract('parso.python.tree._StringComparisonMixin.__hash__',
         params={'self': 'ref:Operator'}, returns='int', ensures=['result == hash(self.value)'], props=['C19'])

NAV = dict(theories=['tree'], props=['C11'])

contract('parso.tree.NodeOrLeaf.get_root_node', params={'self': 'ref:NodeOrLeaf'}, returns='ref:NodeOrLeaf',
         ensures=['result is root(self)', 'result is not None', 'result.parent is None'],
         loops={0: dict(invariant=['scope is not None', 'root(scope) is root(self)'], decreases='depth(scope)')}, **NAV)

contract('parso.tree.NodeOrLeaf.get_next_sibling', params={'self': 'ref:NodeOrLeaf'}, returns='ref:NodeOrLeaf',
         ensures=['implies(self.parent is None, result is None)',
                  'implies(self.parent is not None and idx(self) + 1 < nch(self.parent), result is child(self.parent, idx(self) + 1))',
                  'implies(self.parent is not None and idx(self) + 1 >= nch(self.parent), result is None)'],
         loops={0: dict(invariant=['_i <= idx(self)'])}, **NAV)

contract('parso.tree.NodeOrLeaf.get_previous_sibling', params={'self': 'ref:NodeOrLeaf'}, returns='ref:NodeOrLeaf',
         ensures=['implies(self.parent is None, result is None)',
                  'implies(self.parent is not None and idx(self) > 0, result is child(self.parent, idx(self) - 1))',
                  'implies(self.parent is not None and idx(self) == 0, result is None)'],
         loops={0: dict(invariant=['_i <= idx(self)'])}, **NAV)

contract('parso.tree.NodeOrLeaf.get_next_leaf', params={'self': 'ref:NodeOrLeaf'}, returns='ref:NodeOrLeaf',
         ensures=['implies(result is None, hi(self) == hi(root(self)))',
                  'implies(result is not None, is_leaf(result) and lo(result) == hi(self) + 1 and root(result) is root(self))'],
         loops={0: dict(invariant=['node is not None', 'node.parent is not None', 'hi(node) == hi(self)',
                                   'root(node) is root(self)'], decreases='depth(node)'),
                1: dict(invariant=['node is not None', 'lo(node) == hi(self) + 1', 'root(node) is root(self)'],
                        decreases='height(node)')}, **NAV)

contract('parso.tree.NodeOrLeaf.get_previous_leaf', params={'self': 'ref:NodeOrLeaf'}, returns='ref:NodeOrLeaf',
         ensures=['implies(result is None, lo(self) == lo(root(self)))',
                  'implies(result is not None, is_leaf(result) and hi(result) == lo(self) - 1 and root(result) is root(self))'],
         loops={0: dict(invariant=['node is not None', 'node.parent is not None', 'lo(node) == lo(self)',
                                   'root(node) is root(self)'], decreases='depth(node)'),
                1: dict(invariant=['node is not None', 'hi(node) == lo(self) - 1', 'root(node) is root(self)'],
                        decreases='height(node)')}, **NAV)

contract('parso.tree.NodeOrLeaf.get_first_leaf', params={'self': 'ref:NodeOrLeaf'}, returns='ref:Leaf',
         ensures=['result is not None', 'is_leaf(result)', 'lo(result) == lo(self)', 'root(result) is root(self)'],
         decreases='height(self)', trusted=True, **NAV)
contract('parso.tree.NodeOrLeaf.get_last_leaf', params={'self': 'ref:NodeOrLeaf'}, returns='ref:Leaf',
         ensures=['result is not None', 'is_leaf(result)', 'hi(result) == hi(self)', 'root(result) is root(self)'],
         decreases='height(self)', trusted=True, **NAV)
contract('parso.tree.Leaf.get_first_leaf', params={'self': 'ref:Leaf'}, returns='ref:Leaf',
         ensures=['result is self'], refines='parso.tree.NodeOrLeaf.get_first_leaf', **NAV)
contract('parso.tree.Leaf.get_last_leaf', params={'self': 'ref:Leaf'}, returns='ref:Leaf',
         ensures=['result is self'], refines='parso.tree.NodeOrLeaf.get_last_leaf', **NAV)
contract('parso.tree.BaseNode.get_first_leaf', params={'self': 'ref:BaseNode'}, returns='ref:Leaf',
         ensures=[], refines='parso.tree.NodeOrLeaf.get_first_leaf',
         decreases='height(self)', **NAV)
contract('parso.tree.BaseNode.get_last_leaf', params={'self': 'ref:BaseNode'}, returns='ref:Leaf',
         ensures=[], refines='parso.tree.NodeOrLeaf.get_last_leaf',
         decreases='height(self)', **NAV)

contract('parso.tree.NodeOrLeaf.search_ancestor', params={'self': 'ref:NodeOrLeaf', 'node_types': 'any'},
         returns='ref:BaseNode', props=['C11'])


# ------------------------------------------------------------------------------ positions of nodes (C03)
# ghost spos(n) / epos(n): for a leaf its own (line, column) and advance(start, value); for an interior node those of
# its first / last child.  NodeOrLeaf.start_pos / end_pos (abstract) return them; every override refines that.
_sp0, _sp1, _ep0, _ep1 = F('spos0', I, I), F('spos1', I, I), F('epos0', I, I), F('epos1', I, I)
_brk = F('breaks', S, I)
_tl = F('tail', S, I)


@theory('treepos')
def treepos_axioms(eng, st):
    n = z3.Int('n')
    ax = []
    line = lambda x: st.rd('line', x)          # noqa
    col = lambda x: st.rd('column', x)         # noqa
    val = lambda x: st.rd('value', x, S)       # noqa
    leaf = z3.And(n != 0, _isleaf(n))
    inner = z3.And(n != 0, z3.Not(_isleaf(n)))
    b, t = _brk(val(n)), _tl(val(n))
    ax.append(z3.ForAll([n], z3.Implies(leaf, z3.And(
        _sp0(n) == line(n), _sp1(n) == col(n),
        _ep0(n) == z3.If(b == 0, line(n), line(n) + b),
        _ep1(n) == z3.If(b == 0, col(n) + z3.Length(val(n)), t))), patterns=[_sp0(n)]))
    ax.append(z3.ForAll([n], z3.Implies(leaf, z3.And(
        _ep0(n) == z3.If(b == 0, line(n), line(n) + b),
        _ep1(n) == z3.If(b == 0, col(n) + z3.Length(val(n)), t))), patterns=[_ep0(n)]))
    c0 = _child(st, n, 0)
    cl = _child(st, n, _nch(st, n) - 1)
    ax.append(z3.ForAll([n], z3.Implies(inner, z3.And(_sp0(n) == _sp0(c0), _sp1(n) == _sp1(c0))), patterns=[_sp0(n)]))
    ax.append(z3.ForAll([n], z3.Implies(inner, z3.And(_ep0(n) == _ep0(cl), _ep1(n) == _ep1(cl))), patterns=[_ep0(n)]))
    return ax


@specfn('spos')
def sp_spos(eng, st, n):
    from pv.values import VTuple
    return VTuple([VInt(_sp0(n.t)), VInt(_sp1(n.t))])


@specfn('epos')
def sp_epos(eng, st, n):
    from pv.values import VTuple
    return VTuple([VInt(_ep0(n.t)), VInt(_ep1(n.t))])


POS = dict(theories=['tree', 'treepos'], props=['C03'])
contract('parso.tree.NodeOrLeaf.start_pos', kind='property', params={'self': 'ref:NodeOrLeaf'}, returns='pos', trusted=True,
         requires=['self is not None'], ensures=['result == spos(self)'], note='abstract property', **POS)
contract('parso.tree.NodeOrLeaf.end_pos', kind='property', params={'self': 'ref:NodeOrLeaf'}, returns='pos', trusted=True,
         requires=['self is not None'], ensures=['result == epos(self)'], note='abstract property', **POS)
contract('parso.tree.BaseNode.start_pos', kind='property', params={'self': 'ref:BaseNode'}, returns='pos',
         ensures=['result == spos(self)'], **POS)
contract('parso.tree.BaseNode.end_pos', kind='property', params={'self': 'ref:BaseNode'}, returns='pos',
         ensures=['result == epos(self)'], **POS)
# the leaf implementations against the same ghost (their advance() form is proved in tree_pos.py)
contract('parso.tree.Leaf.start_pos#ghost', kind='property', params={'self': 'ref:Leaf'}, returns='pos',
         ensures=['result == spos(self)'], **POS)
contract('parso.tree.Leaf.end_pos#ghost', kind='property', params={'self': 'ref:Leaf'}, returns='pos',
         ensures=['result == epos(self)'], **POS)
contract('parso.python.tree._LeafWithoutNewlines.end_pos#ghost', kind='property',
         params={'self': 'ref:_LeafWithoutNewlines'}, returns='pos', requires=['breaks(self.value) == 0'],
         ensures=['result == epos(self)'], **POS)

# start of the prefix = end of the previous leaf (or line - breaks(prefix), column 0 for the first leaf)
contract('parso.tree.NodeOrLeaf.get_start_pos_of_prefix', params={'self': 'ref:NodeOrLeaf'}, returns='pos', trusted=True,
         requires=['self is not None'], ensures=[], note='abstract method', **POS)
contract('parso.tree.Leaf.get_start_pos_of_prefix', params={'self': 'ref:Leaf'}, returns='pos',
         ensures=['implies(lo(self) == lo(root(self)) , result == (self.line - breaks(self.prefix), 0))',
                  'implies(lo(self) != lo(root(self)), exists(lambda p: p != 0 and is_leaf(p) and hi(p) == lo(self) - 1 '
                  'and root(p) is root(self) and result == epos(p)))'], **POS)
contract('parso.tree.BaseNode.get_start_pos_of_prefix', params={'self': 'ref:BaseNode'}, returns='pos', ensures=[], **POS)

contract('parso.tree.NodeOrLeaf.search_ancestor', params={'self': 'ref:NodeOrLeaf', 'node_types': 'list:str'},
         returns='ref:BaseNode',
         ensures=['implies(result is not None, result.type in node_types and depth(result) < depth(self) and root(result) is root(self))'],
         loops={0: dict(invariant=['implies(node is not None, depth(node) < depth(self) and root(node) is root(self))'],
                        decreases='ite(node is None, 0, depth(node) + 1)')},
         theories=['tree'], props=['C11'])

# PythonLeaf skips one zero-width indentation error leaf in front of it
ZW = "(p.type == 'error_leaf' and p.token_type in ('INDENT', 'DEDENT', 'ERROR_DEDENT'))"
contract('parso.python.tree.PythonLeaf.get_start_pos_of_prefix', params={'self': 'ref:PythonLeaf'}, returns='pos',
         ensures=['implies(lo(self) == lo(root(self)), result == (self.line - breaks(self.prefix), 0))',
                  "implies(lo(self) != lo(root(self)), exists(lambda p: p is not None and is_leaf(p) and hi(p) == lo(self) - 1 and "
                  "root(p) is root(self) and ("
                  "(not " + ZW + " and result == epos(p)) or "
                  "(" + ZW + " and lo(p) == lo(root(self)) and result == (self.line - breaks(self.prefix), 0)) or "
                  "(" + ZW + " and lo(p) != lo(root(self)) and exists(lambda q: q is not None and is_leaf(q) and hi(q) == lo(p) - 1 "
                  "and root(q) is root(self) and result == epos(q), kinds=dict(q='ref:NodeOrLeaf')))), kinds=dict(p='ref:NodeOrLeaf')))"],
         **POS)


# ------------------------------------------------------------------------------ position lookup (C11)
# ghost fge(n, p): the leaf the lookup of position p descends to from n: n itself for a leaf; for an interior node the
# fge of its first child whose end is at or after p.  With end positions non-decreasing in leaf order (C03) this is
# the first leaf in source order whose end is at or after p.
_fge = F('fge', I, I, I, I)


@theory('lookup')
def lookup_axioms(eng, st):
    n, i, j, p0, p1 = z3.Ints('n i j p0 p1')
    ax = []
    inner = z3.And(n != 0, z3.Not(_isleaf(n)))
    ci, cj = _child(st, n, i), _child(st, n, j)

    def le(a0, a1, b0, b1):        # (a0, a1) <= (b0, b1)
        return z3.Or(a0 < b0, z3.And(a0 == b0, a1 <= b1))
    # children end positions are non-decreasing
    ax.append(z3.ForAll([n, i, j], z3.Implies(z3.And(inner, 0 <= i, i < j, j < _nch(st, n)),
                                              le(_ep0(ci), _ep1(ci), _ep0(cj), _ep1(cj))),
                        patterns=[z3.MultiPattern(ci, cj)]))
    ax.append(z3.ForAll([n, p0, p1], z3.Implies(z3.And(n != 0, _isleaf(n)), _fge(n, p0, p1) == n), patterns=[_fge(n, p0, p1)]))
    prev = _child(st, n, i - 1)
    ax.append(z3.ForAll([n, i, p0, p1], z3.Implies(
        z3.And(inner, 0 <= i, i < _nch(st, n), le(p0, p1, _ep0(ci), _ep1(ci)),
               z3.Or(i == 0, z3.Not(le(p0, p1, _ep0(prev), _ep1(prev))))),
        _fge(n, p0, p1) == _fge(ci, p0, p1)), patterns=[z3.MultiPattern(ci, _fge(n, p0, p1))]))
    # the leaf the lookup descends to lies below the node it starts from (consequence of the unfolding above by induction on
    # the height, stated because the solver does no induction)
    f = _fge(n, p0, p1)
    ax.append(z3.ForAll([n, p0, p1], z3.Implies(n != 0, z3.And(_root(f) == _root(n), _lo(n) <= _lo(f), _lo(f) <= _hi(n))),
                        patterns=[_fge(n, p0, p1)]))
    # start positions are non-decreasing in leaf order as well (C03): a node starts no later than any leaf below it
    f = _fge(n, p0, p1)
    ax.append(z3.ForAll([n, p0, p1], z3.Implies(n != 0, z3.And(f != 0, _isleaf(f), le(_sp0(n), _sp1(n), _sp0(f), _sp1(f)))),
                        patterns=[_fge(n, p0, p1)]))
    return ax


@specfn('fge')
def sp_fge(eng, st, n, pos):
    return VRef(_fge(n.t, pos.items[0].t, pos.items[1].t), 'NodeOrLeaf')


LK = dict(theories=['tree', 'treepos', 'lookup'], props=['C11'])
FOUND = ['implies(result is None, not include_prefixes and position < spos(fge(self, position)))',
         'implies(result is not None, result is fge(self, position))',
         # a position inside the prefix of that leaf gives nothing when prefixes are excluded
         'implies(not include_prefixes and position < spos(fge(self, position)), result is None)']
contract('parso.tree.BaseNode.get_leaf_for_position',
         params={'self': 'ref:BaseNode', 'position': 'pos', 'include_prefixes': 'bool'}, returns='ref:NodeOrLeaf',
         ensures=FOUND, raises=['ValueError'],
         exc_ensures={'ValueError': 'not ((1, 0) <= position and position <= epos(self))'},
         decreases='height(self)', **LK)
contract('parso.tree.BaseNode.get_leaf_for_position.binary_search',
         params={'lower': 'int', 'upper': 'int'}, returns='ref:NodeOrLeaf', closure_of='parso.tree.BaseNode.get_leaf_for_position',
         free={'self': 'ref:BaseNode', 'position': 'pos', 'include_prefixes': 'bool'},
         requires=['self is not None', '0 <= lower and lower <= upper and upper < nch(self)', '(1, 0) <= position',
                   'position <= epos(child(self, upper))',
                   'lower == 0 or not (position <= epos(child(self, lower - 1)))'],
         ensures=FOUND, decreases='upper - lower', **LK)
