#!/usr/bin/env python3
"""Sanity of the replay scripts (and, natively, of the contracts they restate): on the UNCHANGED tree every replay script
must find no failing input in its pool.  A script that fails here would turn a proof failure into a bogus "reproduced"
counter-example.   python3-vt tools/replay_selfcheck.py   (exit 0: all clean)"""
import itertools
import os
import subprocess
import sys

HERE = os.path.dirname(os.path.dirname(os.path.abspath(__file__)))
sys.path.insert(0, HERE)
REPO = os.environ.get('PARSO_REPO', '/repo')
sys.path.insert(0, REPO)
from pv.contract import load_all, REG  # noqa: E402
from pv.core import VENV_PY  # noqa: E402

POOLS = dict(str=["", "a", "ab", "\n", "a\n", "\r\n", "a\nb", "\r", "a\rbc", "\n\n", "\ufeff", "#c", "\\\n", "\x0c",
                  "a\xb2", " \xa0\"", " \"", "'''", "{", "}", "f'", "x{", "  # c\n", "\\\r\n"],
             int=[0, 1, 2, 7], pos=[(1, 0), (2, 3), (1, 5)])


def kind_of_observable(expr, ctr):
    e = expr.strip()
    if e in ctr.params:
        k = ctr.params[e]
        return 'pos' if k == 'pos' else ('int' if k == 'int' else 'str')
    if e.endswith(('start_pos', '.sp')):
        return 'pos'
    if e.endswith(('.line', '.column', 'pos', 'lnum', 'column', 'line_nr', '_count', '.code')):
        return 'int'
    return 'str'


def main():
    load_all()
    bad = 0
    for key, ctr in sorted(REG.items()):
        rp = getattr(ctr, 'replay', None)
        if not rp:
            continue
        names = list(rp['observe'])
        kinds = [kind_of_observable(rp['observe'][n], ctr) for n in names]
        body = rp['script'].format(**{k: k for k in names})
        code = ('import sys, itertools\nsys.path.insert(0, %r)\n' % HERE +
                'def check(%s):\n' % ', '.join(names) + ''.join('    ' + l + '\n' for l in body.splitlines()) +
                'POOLS = %r\n' % (POOLS,) +
                'n = 0\n'
                'for vals in itertools.product(*[POOLS[k] for k in %r]):\n' % (kinds,) +
                '    n += 1\n'
                '    try:\n        r = check(*vals)\n    except Exception as e:\n        r = "exception %%r" %% (e,)\n'
                '    if r:\n        print("FAILS on the unchanged tree:", dict(zip(%r, vals)), r); sys.exit(1)\n' % (names,) +
                'print("clean on %d inputs" % n)\n')
        env = dict(os.environ, PYTHONPATH=HERE + os.pathsep + REPO)
        p = subprocess.run([VENV_PY, '-c', code], env=env, capture_output=True, text=True, timeout=900)
        print('%-62s %s' % (key, (p.stdout + p.stderr).strip().splitlines()[-1][:160] if (p.stdout + p.stderr).strip() else 'no output'))
        bad += p.returncode != 0
    return 1 if bad else 0


if __name__ == '__main__':
    sys.exit(main())
