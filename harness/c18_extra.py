"""C18 extras: grammar loading order and a thread smoke run (a confirmation of the declared frame, not a schedule
exploration)."""
import argparse
import itertools
import json
import os
import sys
import threading
import time

sys.path.insert(0, os.path.dirname(os.path.dirname(os.path.abspath(__file__))))
sys.setrecursionlimit(3000)
from harness import scope  # noqa
import random  # noqa


def results(versions, progs):
    import parso
    out = {}
    for v in versions:
        g = parso.load_grammar(version=v)
        for p in progs:
            m = g.parse(p)
            out[(v, p)] = (m.dump(indent=None), [(i.code, i.message, i.start_pos) for i in g.iter_errors(m)])
    return out


def main():
    ap = argparse.ArgumentParser()
    ap.add_argument('--out', required=True)
    ap.add_argument('--repo', default='/repo')
    ap.add_argument('--seed', type=int, default=0)
    ap.add_argument('--threads', type=int, default=8)
    ap.add_argument('--rounds', type=int, default=40)
    a = ap.parse_args()
    t0 = time.time()
    import parso
    import parso.grammar as pgm
    import parso.python.tokenize as tk
    rng = random.Random(a.seed)
    progs = [scope.tpl_program(rng) for _ in range(30)] + ['(a := 1)\n', 'def f(a, /): pass\n', 'print 1\n', 'match x:\n case 1: pass\n']
    fails = []
    evals = 0
    versions = ['3.6', '3.8', '3.12']
    ref = None
    for order in itertools.permutations(versions):
        pgm._loaded_grammars.clear()
        tk._token_collection_cache.clear()
        r = results(order, progs)
        evals += len(r)
        if ref is None:
            ref = r
        elif r != ref:
            bad = [k for k in r if r[k] != ref[k]][0]
            fails.append(dict(ob='bnd:C18.load_order', sig='order', detail='result for %r differs when grammars are loaded in order %r' % (bad, order),
                              inp=bad[1], version=bad[0], count=1))
            break
    # threads: different texts through one shared grammar object
    g = parso.load_grammar(version='3.10')
    texts = [scope.tpl_program(rng) * 3 for _ in range(a.threads * 4)]
    seq = [(g.parse(t).dump(indent=None), [(i.code, i.start_pos) for i in g.iter_errors(g.parse(t))]) for t in texts]
    errors = []
    for rnd in range(a.rounds):
        got = [None] * len(texts)

        def worker(k):
            try:
                for j in range(k, len(texts), a.threads):
                    m = g.parse(texts[j])
                    got[j] = (m.dump(indent=None), [(i.code, i.start_pos) for i in g.iter_errors(m)])
            except Exception as e:  # noqa
                errors.append(repr(e))
        sys.setswitchinterval(1e-5)
        ths = [threading.Thread(target=worker, args=(k,)) for k in range(a.threads)]
        [t.start() for t in ths]
        [t.join() for t in ths]
        evals += len(texts)
        if errors or got != seq:
            j = next((i for i in range(len(texts)) if got[i] != seq[i]), 0)
            fails.append(dict(ob='bnd:C18.threads', sig='threads', detail='concurrent result differs from sequential (%s)' % (errors[:1],),
                              inp=texts[j][:300], version='3.10', count=1))
            break
    out = dict(prop='C18', evaluations=evals, distinct_nontrivial=len(progs) + len(texts), failures=fails,
               samples=[progs[0][:120], texts[0][:120]], wall_s=round(time.time() - t0, 2),
               scope=dict(load_orders=6, programs=len(progs), threads=a.threads, rounds=a.rounds),
               rule='all 6 loading orders of 3 grammars x %d programs; %d rounds of %d threads parsing %d texts through one '
                    'grammar with a 10 microsecond switch interval' % (len(progs), a.rounds, a.threads, len(texts)))
    with open(a.out, 'w') as f:
        json.dump(out, f)


if __name__ == '__main__':
    main()
