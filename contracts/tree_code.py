"""C01 (tree side): the code of a node is the slice of the input it spans.

Ghost: G the input text; for every leaf n its prefix is G[off(n) : voff(n)] and its value G[voff(n) : end(n)];
for an interior node off/voff/end are those of its first / first / last child; consecutive children are adjacent
(end(child i) == off(child i+1)).  Under the 'tile' theory reads of leaf.prefix / leaf.value are these slices
(slice normal form: concatenation of adjacent slices of G is one slice)."""
import z3

from pv.contract import contract, theory, specfn, FIELD_VIEWS
from pv.values import VInt, VStr, VRef, I, B, S
from contracts.tree_nav import _isleaf, _child, _nch

F = z3.Function
G = z3.String('G')
_off, _voff, _end = F('off', I, I), F('voff', I, I), F('end', I, I)


@theory('tile')
def tile_axioms(eng, st):
    n, i, j = z3.Ints('n i j')
    ax = []
    node = n != 0
    inner = z3.And(node, z3.Not(_isleaf(n)))
    facts = z3.And(0 <= _off(n), _off(n) <= _voff(n), _voff(n) <= _end(n), _end(n) <= z3.Length(G))
    for f in (_off, _voff, _end):
        ax.append(z3.ForAll([n], z3.Implies(node, facts), patterns=[f(n)]))
    c0 = _child(st, n, 0)
    cl = _child(st, n, _nch(st, n) - 1)
    for f in (_off, _voff):
        ax.append(z3.ForAll([n], z3.Implies(inner, f(n) == f(c0)), patterns=[f(n)]))
    ax.append(z3.ForAll([n], z3.Implies(inner, _end(n) == _end(cl)), patterns=[_end(n)]))
    ci, cj = _child(st, n, i), _child(st, n, j)
    ax.append(z3.ForAll([n, i, j], z3.Implies(z3.And(inner, 0 <= i, j == i + 1, j < _nch(st, n)), _end(ci) == _off(cj)),
                        patterns=[z3.MultiPattern(ci, cj)]))
    return ax


def _prefix_view(eng, st, recv):
    return VStr(z3.SubString(G, _off(recv.t), _voff(recv.t) - _off(recv.t)))


def _value_view(eng, st, recv):
    return VStr(z3.SubString(G, _voff(recv.t), _end(recv.t) - _voff(recv.t)))


FIELD_VIEWS['tile'] = {'prefix': _prefix_view, 'value': _value_view}


@specfn('off')
def sp_off(eng, st, n):
    return VInt(_off(n.t))


@specfn('voff')
def sp_voff(eng, st, n):
    return VInt(_voff(n.t))


@specfn('end')
def sp_end(eng, st, n):
    return VInt(_end(n.t))


@specfn('G')
def sp_G(eng, st):
    """the ghost input text"""
    return VStr(G)


@specfn('gslice')
def sp_gslice(eng, st, a, b):
    return VStr(z3.SubString(G, a.t, b.t - a.t))


CODE = dict(theories=['tree', 'tile'], props=['C01', 'C19'])
SPAN = 'result == gslice(ite(include_prefix, off(self), voff(self)), end(self))'

contract('parso.tree.NodeOrLeaf.get_code', params={'self': 'ref:NodeOrLeaf', 'include_prefix': 'bool'}, returns='str',
         trusted=True, requires=['self is not None'], ensures=[SPAN], decreases='height(self)', note='abstract method', **CODE)
contract('parso.tree.Leaf.get_code', params={'self': 'ref:Leaf', 'include_prefix': 'bool'}, returns='str',
         ensures=[SPAN], refines='parso.tree.NodeOrLeaf.get_code', **CODE)
contract('parso.tree.BaseNode.get_code', params={'self': 'ref:BaseNode', 'include_prefix': 'bool'}, returns='str',
         ensures=[SPAN], refines='parso.tree.NodeOrLeaf.get_code', **CODE)

ELEMS = ('forall(lambda k: implies(0 <= k and k < len(children), children[k] is not None and '
         'height(children[k]) < height(self)), trigger=lambda k: children[k])')
ADJ = ('forall(lambda k: implies(0 < k and k < len(children), end(children[k - 1]) == off(children[k])), '
       'trigger=lambda k: children[k])')
contract('parso.tree.BaseNode._get_code_for_children',
         params={'self': 'ref:BaseNode', 'children': 'list:ref:NodeOrLeaf', 'include_prefix': 'bool'}, returns='str',
         requires=['len(children) >= 1', ELEMS, ADJ],
         ensures=['result == gslice(ite(include_prefix, off(children[0]), voff(children[0])), end(children[len(children) - 1]))'],
         # the text joined after _i >= 1 elements of the sequence is the slice they span
         joins={0: dict(acc='gslice(off(_seq[0]), end(_seq[_i - 1]))', inv=['off(_seq[0]) <= end(_seq[_i - 1])']),
                1: dict(acc='gslice(off(_seq[0]), end(_seq[_i - 1]))', inv=['off(_seq[0]) <= end(_seq[_i - 1])'])},
         **CODE)

# Param.get_code: like every node with the comma, and without it exactly the span up to the child before a trailing ','
# (`child == ","` is the code's own test: a leaf of a string-comparing class whose value is the comma)
LASTC = 'self.children[len(self.children) - 1]'
contract('parso.python.tree.Param.get_code', params={'self': 'ref:Param', 'include_prefix': 'bool', 'include_comma': 'bool'},
         returns='str',
         requires=['self is not None', 'not is_leaf(self)',
                   # a parameter is never just a comma
                   'implies(%s == ",", len(self.children) >= 2)' % LASTC],
         ensures=['implies(include_comma, %s)' % SPAN,
                  'implies(not include_comma and not (%s == ","), %s)' % (LASTC, SPAN),
                  'implies(not include_comma and %s == ",", result == gslice(ite(include_prefix, off(self), voff(self)), '
                  'end(self.children[len(self.children) - 2])))' % LASTC],
         call_keys={'parso.tree.BaseNode.get_code': 'parso.tree.BaseNode.get_code'}, **CODE)
