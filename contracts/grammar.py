"""Grammar.parse (C16 / C04 / C01 at the API): whatever branch serves the request -- memory or disk cache, incremental
re-parse, fresh parse -- the module handed back is the tree of the text that was read, and whatever is filed in the
cache is filed together with the lines it is the tree of.

Ghost: tv(x) is the identity of a text (the same for the bytes, the decoded string and the list of its lines);
Module.ver says which text a module is the tree of (contracts/cache.py).  The parser, the diff parser and the tokenizer are
used through assumed contracts that state C01 / C04 for them; the callables stored in the grammar object (_parser,
_tokenizer, _diff_parser) are taken to be the ones PythonGrammar passes in (attr_calls)."""
import z3

from pv.contract import contract, class_fields, specfn, fields
from pv.values import VInt, I

class_fields('Grammar', _hashed='any', _parser='any', _tokenizer='any', _diff_parser='any', _pgen_grammar='any',
             _start_nonterminal='str')
fields(_content='any')

CACHE_G = {'parser_cache': 'map:any:map:any:ref:_NodeCacheItem', 'is_pypy': 'bool'}
_tv = z3.Function('tv', I, I)
_ss = z3.Function('str_obj', z3.StringSort(), I)


@specfn('tv')
def sp_tv(eng, st, x):
    from pv.values import VStr, VNoneT
    if isinstance(x, VNoneT):
        return VInt(_tv(z3.IntVal(0)))
    return VInt(_tv(_ss(x.t) if isinstance(x, VStr) else x.t))


contract('parso.utils.python_bytes_to_unicode#opaque', params={'source': 'any', 'encoding': 'str', 'errors': 'str'}, returns='any',
         trusted=True, raises=['LookupError', 'UnicodeDecodeError'], ensures=['tv(result) == tv(source)', 'result is not None'],
         refines='parso.utils.python_bytes_to_unicode',
         note='python_bytes_to_unicode (verified under its own key over str / bytes) seen on opaque text: the decoded string is '
              'the same text')
contract('parso.utils.split_lines#opaque', params={'string': 'any', 'keepends': 'bool'}, returns='any', trusted=True,
         ensures=['tv(result) == tv(string)', 'result is not None'],
         note='ASSUMED: the lines of a text are that text (joining them gives it back: C15, bounded there)')
contract('parso.file_io.FileIO.__init__', params={'self': 'ref:FileIO', 'path': 'any'}, trusted=True,
         ensures=['implies(path is None, self.path is None)', 'implies(path is not None, self.path is not None)'],
         modifies=['self.path'],
         note='stores the path (a str is wrapped in a pathlib.Path)')
contract('parso.file_io.KnownContentFileIO.__init__', params={'self': 'ref:KnownContentFileIO', 'path': 'any', 'content': 'any'},
         trusted=True, ensures=['implies(path is None, self.path is None)', 'implies(path is not None, self.path is not None)',
                                'self._content is content'],
         modifies=['self.path', 'self._content'], note='stores path and content')
contract('parso.file_io.FileIO.read', params={'self': 'ref:FileIO'}, returns='any', trusted=True, raises=['OSError'],
         ensures=['result is not None', 'implies(isinstance(self, KnownContentFileIO), result is self._content)'],
         note='environment: the bytes of the file now; a KnownContentFileIO returns the content it was given (dynamic dispatch)')
contract('parso.python.parser.Parser#of-grammar', params={'pgen_grammar': 'any', 'error_recovery': 'bool', 'start_nonterminal': 'str'},
         returns='ref:Parser', trusted=True, ensures=['result is not None'], fresh_result=True,
         note='the parser class stored in the grammar object (PythonGrammar: parso.python.parser.Parser), constructed')
contract('parso.python.parser.Parser.parse#api', params={'self': 'ref:Parser', 'tokens': 'any'}, returns='ref:Module', trusted=True,
         raises=['ParserSyntaxError', 'InternalParseError', 'NotImplementedError'],
         ensures=['result is not None', 'result.ver == tv(tokens)'], fresh_result=True,
         note='ASSUMED (C01/C02): the tree the parser builds is the tree of the text whose tokens it was given')
contract('parso.grammar.PythonGrammar._tokenize_lines#api', params={'lines': 'any'}, returns='any', trusted=True,
         ensures=['tv(result) == tv(lines)'], note='ASSUMED (C09): the token stream spells the lines it was made from')
contract('parso.python.diff.DiffParser#of-grammar', params={'pgen_grammar': 'any', 'tokenizer': 'any', 'module': 'ref:Module'},
         returns='ref:DiffParser', trusted=True, requires=['module is not None'], ensures=['result is not None'], fresh_result=True,
         note='the diff parser class stored in the grammar object, constructed on the cached module')
contract('parso.python.diff.DiffParser.update#api', params={'self': 'ref:DiffParser', 'old_lines': 'any', 'new_lines': 'any'},
         returns='ref:Module', trusted=True, raises=['Exception'], ensures=['result is not None', 'result.ver == tv(new_lines)'],
         modifies=['ver'],
         note='ASSUMED (this is C04): the updated module is the tree of the new lines')
INV = ('forall(lambda g, p: implies(g in parser_cache and p in parser_cache[g], parser_cache[g][p] is not None and '
       'parser_cache[g][p].node is not None and parser_cache[g][p].node.ver == tv(parser_cache[g][p].lines)))')
MAPS_NN = 'forall(lambda g: implies(g in parser_cache, parser_cache[g] is not None))'
contract('parso.cache.try_to_save_module#api',
         params={'hashed_grammar': 'any', 'file_io': 'ref:FileIO', 'module': 'ref:Module', 'lines': 'any', 'pickling': 'bool',
                 'cache_path': 'any'},
         trusted=True, refines='parso.cache.try_to_save_module',
         requires=['file_io is not None', 'module is not None', 'module.ver == tv(lines)', 'hashed_grammar is self._hashed'],
         free={'self': 'ref:Grammar'}, modifies=['parser_cache', '$maps', 'node', 'lines', 'change_time', 'last_used', '$fobj'],
         globals_=CACHE_G, ensures=['parser_cache is not None', INV, MAPS_NN],
         note='try_to_save_module (verified under its own key) with the policy obligation of Grammar.parse: what is filed is the '
              'tree of the lines filed with it, under this grammar\'s hash; ASSUMED on top of the verified contract (which files '
              'exactly this module and keeps every other entry\'s item): the items of the other entries keep their node and lines, '
              'so the lines invariant of the memory cache carries over')
contract('parso.cache.load_module#api',
         params={'hashed_grammar': 'any', 'file_io': 'ref:FileIO', 'cache_path': 'any'}, returns='ref:Module', trusted=True,
         globals_=CACHE_G,
         refines='parso.cache.load_module', raises=['OSError'],
         requires=['file_io is not None', 'hashed_grammar is self._hashed'], free={'self': 'ref:Grammar'},
         ensures=['implies(result is not None, result.ver == ver_at(file_io.path, cur_mtime(file_io.path)))', 'parser_cache is not None',
                  INV, 'forall(lambda g: implies(g in parser_cache, parser_cache[g] is not None))'],
         modifies=['parser_cache', '$maps', 'last_used'],
         note='load_module (verified under its own key); ASSUMED on top of it: it keeps the lines invariant of the memory cache '
              '(it only re-stamps entries or files an entry unpickled from disk, which was written by try_to_save_module under '
              'the same invariant)')

contract('parso.grammar.Grammar.parse',
         params={'self': 'ref:Grammar', 'code': 'any', 'error_recovery': 'bool', 'path': 'any', 'start_symbol': 'opt:str',
                 'cache': 'bool', 'diff_cache': 'bool', 'cache_path': 'any', 'file_io': 'ref:FileIO'},
         returns='ref:Module', globals_=CACHE_G,
         requires=['self is not None', 'parser_cache is not None',
                   # representation invariant of the memory cache (established by every save of this function: policy
                   # precondition of try_to_save_module#api): an entry holds the tree of the lines stored with it
                   INV, 'forall(lambda g: implies(g in parser_cache, parser_cache[g] is not None))'],
         ensures=['result is not None',
                  # without the path cache the module handed back is the tree of the code given
                  'implies(code is not None and not cache, result.ver == tv(code))',
                  # and the memory cache still holds, for every entry, the tree of the lines stored with it
                  'parser_cache is not None', INV],
         raises=['NotImplementedError', 'TypeError', 'OSError', 'LookupError', 'UnicodeDecodeError', 'ParserSyntaxError',
                 'InternalParseError', 'Exception'],
         modifies=['parser_cache', '$maps', 'node', 'lines', 'change_time', 'last_used', '$fobj', 'path', '_content', 'ver'],
         call_keys={'parso.utils.python_bytes_to_unicode': 'parso.utils.python_bytes_to_unicode#opaque',
                    'parso.utils.split_lines': 'parso.utils.split_lines#opaque',
                    'parso.cache.try_to_save_module': 'parso.cache.try_to_save_module#api',
                    'parso.cache.load_module': 'parso.cache.load_module#api',
                    'parso.python.diff.DiffParser.update': 'parso.python.diff.DiffParser.update#api',
                    'parso.python.parser.Parser.parse': 'parso.python.parser.Parser.parse#api'},
         attr_calls={'_parser': 'parso.python.parser.Parser#of-grammar', '_tokenizer': 'parso.grammar.PythonGrammar._tokenize_lines#api',
                     '_diff_parser': 'parso.python.diff.DiffParser#of-grammar'},
         frame_prune={k: 'the parser, the diff parser and the tokenizer write to the worker objects created by this call and to the '
                         'tree being built or updated in place; their effect on the modelled state is what the assumed contracts '
                         'Parser.parse#api / DiffParser.update#api state' for k in ('parse', 'update', '_parser', '_diff_parser', '_tokenizer', '_tokenize_lines', 'tokenize_lines', '_tokenize')},
         props=['C16', 'C04'])
