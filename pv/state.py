"""Symbolic state: environment, Boogie-style heap (one map per field), path condition."""
import z3

from pv.values import (VMap, V, VInt, VBool, VStr, VNONE, VNoneT, VTuple, VRef, VList, VOpt, VPy, VFn, VAny,
                       OutOfSubset, fresh_name, I, B, S)

ARR_II = z3.ArraySort(I, I)
ARR_IS = z3.ArraySort(I, S)


class State:
    def __init__(self, eng):
        self.eng = eng
        self.env = {}
        self.heap = {}
        self.pc = []
        self.guards = []
        self.pend = []       # (condition, exception class name, site text)
        self.spec = False    # evaluating a specification expression (total, no side conditions)
        self.nyield = z3.IntVal(0)
        self.last_yield = None

    def fork(self):
        s = State.__new__(State)
        s.eng = self.eng
        s.env = dict(self.env)
        s.heap = dict(self.heap)
        s.pc = list(self.pc)
        s.guards = list(self.guards)
        s.pend = list(self.pend)
        s.spec = self.spec
        s.nyield = self.nyield
        s.last_yield = self.last_yield
        s.raw_index = getattr(self, 'raw_index', False)
        return s

    # ---- path condition
    def assume(self, f):
        if self.guards:
            f = z3.Implies(z3.And(self.guards), f)
        self.pc.append(f)

    def guard_cond(self, c):
        return z3.And(self.guards + [c]) if self.guards else c

    def may_raise(self, cond, exc, site, val=None, facts=()):
        if self.spec:
            return
        self.pend.append((self.guard_cond(cond), exc, site, val, tuple(facts)))

    # ---- heap
    def arr(self, name, sort):
        a = self.heap.get(name)
        if a is None:
            a = self.eng.init_heap.get(name)
            if a is None:
                a = z3.Const('H0_' + name, sort)
                self.eng.init_heap[name] = a
            self.heap[name] = a
        return a

    def rd(self, name, ref, rng=I):
        return z3.Select(self.arr(name, z3.ArraySort(I, rng)), ref)

    def wr(self, name, ref, val, rng=I):
        a = self.arr(name, z3.ArraySort(I, rng))
        if self.guards:
            val = z3.If(z3.And(self.guards), val, z3.Select(a, ref))
        self.heap[name] = z3.Store(a, ref, val)

    # ---- lists: $len[l], $elR[l][i] / $elS[l][i]
    def llen(self, l):
        return self.rd('$len', l)

    def lget(self, l, i, ek):
        if ek == 'str':
            return z3.Select(z3.Select(self.arr('$elS', z3.ArraySort(I, ARR_IS)), l), i)
        return z3.Select(z3.Select(self.arr('$elR', z3.ArraySort(I, ARR_II)), l), i)

    def lset_all(self, l, arr, ek):
        name, srt = ('$elS', ARR_IS) if ek == 'str' else ('$elR', ARR_II)
        a = self.arr(name, z3.ArraySort(I, srt))
        self.heap[name] = z3.Store(a, l, arr)

    def larr(self, l, ek):
        name, srt = ('$elS', ARR_IS) if ek == 'str' else ('$elR', ARR_II)
        return z3.Select(self.arr(name, z3.ArraySort(I, srt)), l)

    # ---- dicts: $mhasS[m][key] / $mvalS[m][key] for str keys, $mhasR / $mvalR for int or reference keys
    def _marr(self, m, what, kk):
        ks = S if kk == 'str' else I
        name = '$m%s%s' % (what, 'S' if kk == 'str' else 'R')
        rng_ = z3.ArraySort(ks, B if what == 'has' else I)
        return name, rng_, z3.Select(self.arr(name, z3.ArraySort(I, rng_)), m)

    def mhas(self, m, key, kk):
        return z3.Select(self._marr(m, 'has', kk)[2], key)

    def mval(self, m, key, kk):
        return z3.Select(self._marr(m, 'val', kk)[2], key)

    def mvals(self, m, key, kk):
        """value of a dict whose values are strings: $mvsS / $mvsR (kept apart from the integer-valued maps)"""
        ks = S if kk == 'str' else I
        name = '$mvs%s' % ('S' if kk == 'str' else 'R')
        return z3.Select(z3.Select(self.arr(name, z3.ArraySort(I, z3.ArraySort(ks, S))), m), key)

    def mput(self, m, key, val, kk):
        for what, v in (('has', z3.BoolVal(True)), ('val', val)):
            name, rng_, cur = self._marr(m, what, kk)
            new = z3.Store(cur, key, v)
            if self.guards:
                new = z3.If(z3.And(self.guards), new, cur)
            self.heap[name] = z3.Store(self.arr(name, z3.ArraySort(I, rng_)), m, new)

    def alloc(self, base='obj'):
        """Fresh object reference: non-null and not allocated before."""
        r = z3.Int(fresh_name(base))
        al = self.arr('$alloc', z3.ArraySort(I, B))
        self.pc.append(r > 0)
        self.pc.append(z3.Not(z3.Select(al, r)))
        self.heap['$alloc'] = z3.Store(al, r, z3.BoolVal(True))
        return r

    def is_alloc(self, r):
        return z3.Select(self.arr('$alloc', z3.ArraySort(I, B)), r)
