"""C13 / C20: issue construction contracts."""
from pv.contract import contract, class_fields, CLASS_INV

# The contracts of ErrorFinder methods below are for an object that is exactly an ErrorFinder (what Grammar.iter_errors
# builds from ErrorFinderConfig): self.add_issue is ErrorFinder.add_issue, not the override of PEP8Normalizer (which may
# drop an issue).  EF_DISPATCH states that for the frame check; props/C13.py lists it among the assumptions.
EF_DISPATCH = {'add_issue': ['parso.python.errors.ErrorFinder.add_issue']}
class_fields('Normalizer', issues='list:ref:Issue')
class_fields('ErrorFinder', issues='list:ref:Issue', _error_dict='map:int:any')

# signature / well-formedness contract of the error finder's add_issue: a caller obligation (pre@...) at every call site
# class invariant (established by ErrorFinder.__init__: `self._error_dict = {}`; the constructor itself, which forwards
# *args / **kwargs, is outside the subset): the per-line table exists
CLASS_INV.setdefault('ErrorFinder', []).append('self._error_dict is not None')

# the first issue of a line wins: the line is a key afterwards, an existing entry is kept, no other line is touched
contract('parso.python.errors.ErrorFinder.add_issue',
         params={'self': 'ref:ErrorFinder', 'node': 'ref:NodeOrLeaf', 'code': 'int', 'message': 'str'},
         requires=['(code == 901 and message.startswith("SyntaxError: ")) or '
                   '(code == 903 and message.startswith("IndentationError: "))',
                   'node is not None', 'self._error_dict is not None'],
         ensures=['self._error_dict is not None', 'spos(node)[0] in self._error_dict',
                  'implies(old(spos(node)[0] in self._error_dict), self._error_dict[spos(node)[0]] == old(self._error_dict[spos(node)[0]]))',
                  'forall(lambda l: implies(l != spos(node)[0], (l in self._error_dict) == old(l in self._error_dict) and '
                  'implies(l in self._error_dict, self._error_dict[l] == old(self._error_dict[l]))))'],
         modifies=['_error_dict', '$maps'], theories=['tree', 'treepos'], props=['C13'])
contract('parso.python.errors.ErrorFinder._add_syntax_error',
         params={'self': 'ref:ErrorFinder', 'node': 'ref:NodeOrLeaf', 'message': 'str'}, requires=['node is not None'],
         ensures=['spos(node)[0] in self._error_dict'], frame_dispatch=EF_DISPATCH,
         modifies=['_error_dict', '$maps'], theories=['tree', 'treepos'], props=['C13'])
contract('parso.python.errors.ErrorFinder._add_indentation_error',
         params={'self': 'ref:ErrorFinder', 'spacing': 'ref:PrefixPart', 'message': 'str'}, requires=['spacing is not None'],
         ensures=['spacing.start_pos[0] in self._error_dict'],
         call_keys={'parso.python.errors.ErrorFinder.add_issue': 'parso.python.errors.ErrorFinder.add_issue#part'},
         frame_dispatch=EF_DISPATCH, modifies=['_error_dict', '$maps'], props=['C13'])
# the same body for a prefix part (duck typing: anything with start_pos): its line is the key
contract('parso.python.errors.ErrorFinder.add_issue#part',
         params={'self': 'ref:ErrorFinder', 'node': 'ref:PrefixPart', 'code': 'int', 'message': 'str'},
         requires=['(code == 901 and message.startswith("SyntaxError: ")) or '
                   '(code == 903 and message.startswith("IndentationError: "))',
                   'node is not None', 'self._error_dict is not None'],
         ensures=['node.start_pos[0] in self._error_dict',
                  'forall(lambda l: implies(l != node.start_pos[0], (l in self._error_dict) == old(l in self._error_dict) and '
                  'implies(l in self._error_dict, self._error_dict[l] == old(self._error_dict[l]))))'],
         modifies=['_error_dict', '$maps'], props=['C13'])

# an Issue copies its range from the node it is given
contract('parso.normalizer.Issue.__init__',
         params={'self': 'ref:Issue', 'node': 'ref:NodeOrLeaf', 'code': 'int', 'message': 'str'},
         requires=['node is not None'],
         # ... and its range is the node's range (the abstract position properties of tree objects: ghost spos / epos, which every
         # override is verified to refine), so an issue lies where its node lies
         ensures=['self.code == code', 'self.message == message', 'self.start_pos == spos(node)', 'self.end_pos == epos(node)'],
         modifies=['self.code', 'self.message', 'self.start_pos', 'self.end_pos'], theories=['tree', 'treepos'], props=['C13', 'C20'])
contract('parso.normalizer.Issue.__eq__', params={'self': 'ref:Issue', 'other': 'ref:Issue'}, returns='bool',
         requires=['other is not None'],
         ensures=['result == (self.start_pos == other.start_pos and self.code == other.code)'],
         eq_on_ref='contract', props=['C20'],
         replay=dict(observe={'sp1': 'self.start_pos', 'c1': 'self.code', 'sp2': 'other.start_pos', 'c2': 'other.code'},
                     script='from types import SimpleNamespace as N\nfrom parso.normalizer import Issue\n'
                            'a = Issue(N(start_pos={sp1}, end_pos={sp1}), {c1}, "first message")\n'
                            'b = Issue(N(start_pos={sp2}, end_pos={sp2}), {c2}, "second message")\n'
                            'exp = ({sp1} == {sp2} and {c1} == {c2})\ngot = (a == b)\n'
                            'return None if got == exp else "Issue.__eq__ gives %r, same (code, start) is %r" % (got, exp)\n'))
# Normalizer.add_issue appends only if no equal (code, start_pos) issue exists: no (code, position) pair twice
contract('parso.normalizer.Normalizer.add_issue',
         params={'self': 'ref:Normalizer', 'node': 'ref:NodeOrLeaf', 'code': 'int', 'message': 'str'}, returns='bool',
         requires=['node is not None', 'self.issues is not None',
                   'forall(lambda i, j: implies(0 <= i and i < j and j < len(self.issues), '
                   'not (self.issues[i].code == self.issues[j].code and self.issues[i].start_pos == self.issues[j].start_pos)))'],
         ensures=['forall(lambda i, j: implies(0 <= i and i < j and j < len(self.issues), '
                  'not (self.issues[i].code == self.issues[j].code and self.issues[i].start_pos == self.issues[j].start_pos)))'],
         modifies=['issues'], lists=['self.issues'], props=['C20'])
# ... and it does record the issue (unless an equal one is there already): afterwards some issue carries the code, what was
# there stays, whatever was added carries the code
contract('parso.normalizer.Normalizer.add_issue#records',
         params={'self': 'ref:Normalizer', 'node': 'ref:NodeOrLeaf', 'code': 'int', 'message': 'str'}, returns='bool',
         requires=['node is not None', 'self.issues is not None'],
         ensures=['exists(lambda k: 0 <= k and k < len(self.issues) and self.issues[k].code == code)',
                  'forall(lambda k: implies(0 <= k and k < old(len(self.issues)), self.issues[k] is old(self.issues[k])), trigger=lambda k: self.issues[k])',
                  'forall(lambda k: implies(old(len(self.issues)) <= k and k < len(self.issues), self.issues[k].code == code), trigger=lambda k: self.issues[k])',
                  'len(self.issues) >= old(len(self.issues))'],
         modifies=['issues'], lists=['self.issues'], props=['C20'])


# ---- coverage (C13: every error leaf produces an issue on its line): ErrorFinder.visit_leaf on an error leaf that is not an
# indentation pseudo token files a syntax error for the leaf's own line and returns '' (nothing of it is re-emitted)
class_fields('ErrorFinder', version='pos')
# (_get_token_collection: contract in contracts/tokenizer.py)
contract('parso.python.errors.ErrorFinder.visit_leaf#error_leaf', params={'self': 'ref:ErrorFinder', 'leaf': 'ref:ErrorLeaf'},
         returns='str',
         requires=['leaf is not None', 'leaf.type == "error_leaf"', 'not (leaf.token_type in ("INDENT", "ERROR_DEDENT"))'],
         ensures=['result == ""', 'spos(leaf)[0] in self._error_dict'], frame_dispatch=EF_DISPATCH,
         # the frame check is path-insensitive: the branches for other leaves (context bookkeeping at ':', the rule-based
         # super().visit_leaf) are excluded by the precondition and shown unreachable by the VC (all exits return '')
         frame_prune={'add_context': 'only on the branch leaf.value == ":" (excluded by the precondition)',
                      'visit_leaf': 'super().visit_leaf is only reached for non-error leaves (excluded by the precondition)'},
         frame_assumed={'context': 'written only on the branch leaf.value == ":" (excluded by the precondition)'},
         modifies=['_error_dict', '$maps', '_token_collection_cache'], theories=['tree', 'treepos'], props=['C13'])
