from props.common import run_bounded, verify_keys

KEYS = [
    'parso.python.tree._StringComparisonMixin.__eq__',
    'parso.tree.NodeOrLeaf.get_root_node', 'parso.tree.NodeOrLeaf.get_next_sibling',
    'parso.tree.NodeOrLeaf.get_previous_sibling', 'parso.tree.NodeOrLeaf.get_next_leaf',
    'parso.tree.NodeOrLeaf.get_previous_leaf', 'parso.tree.Leaf.get_first_leaf', 'parso.tree.Leaf.get_last_leaf',
    'parso.tree.BaseNode.get_first_leaf', 'parso.tree.BaseNode.get_last_leaf', 'parso.tree.NodeOrLeaf.search_ancestor',
    'parso.tree.BaseNode.get_leaf_for_position', 'parso.tree.BaseNode.get_leaf_for_position.binary_search',
]


def run(report):
    verify_keys(report, KEYS)
    run_bounded(report, 'parse')
