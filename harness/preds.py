"""Executable property-level contracts (postconditions of the public API), bounded back end.

Each check_* takes (code, version, env) and returns a list of Fail.  Obligation names start with
'bnd:' -- these are *bounded* obligations and are never counted as proved.
Oracles are the specification functions of spec/text.py and own tree walks, never parso's helpers
under check.
"""
import pickle
import re
import sys

import os
import zlib
import parso
from parso.parser import ParserSyntaxError
from parso.python.tokenize import tokenize, PythonTokenTypes
from parso.utils import parse_version_string, split_lines, python_bytes_to_unicode

from harness.treeutil import (leaves_of, nodes_of, is_leaf, is_zero_width, is_error, crash_signature,
                              Fail)
from spec.text import breaks, tail, advance, bom0, BOM, py_lines

_G = {}


def grammar(version):
    g = _G.get(version)
    if g is None:
        g = _G[version] = parso.load_grammar(version=version)
    return g


def _crash(ob, exc, code):
    return Fail(ob, crash_signature(exc), '%s: %s' % (type(exc).__name__, exc), code)


def _crash_ctx(ob, exc, code, has_err, cfg=None):
    """Crash signature = the input class the crash belongs to.  The PEP 8 visitor (and the error finder's use of the
    prefix re-lexer) lose their stack discipline on recovered trees and with a tab indentation config in many
    statements: there the class itself is the finding.  On clean trees with ordinary configs the failing function is."""
    sig = crash_signature(exc)
    fn = ':'.join(sig.split(':')[:2])
    if cfg == 'tab':
        sig = 'tab-config'
    elif has_err:
        sig = 'error-tree'
    else:
        sig = 'clean:' + fn
    return Fail(ob, sig, '%s: %s [%s]' % (type(exc).__name__, exc, crash_signature(exc)), code)


def _parse(code, version, fails, ob):
    try:
        return grammar(version).parse(code)
    except RecursionError:
        return None
    except Exception as e:        # noqa
        fails.append(_crash(ob, e, code))
        return None


# ------------------------------------------------------------------ C01
def check_C01(code, version, env):
    F = []
    m = _parse(code, version, F, 'bnd:C01.parse.total')
    if m is None:
        return F
    got = m.get_code()
    if got != code:
        F.append(Fail('bnd:C01.module.get_code', 'module', 'get_code() != input: %r' % got[:80], code))
    ls = leaves_of(m)
    joined = ''.join(l.prefix + l.value for l in ls)
    if joined != code:
        F.append(Fail('bnd:C01.leaves.tile', 'leaves', 'prefix+value of leaves != input: %r' % joined[:80], code))
        return F
    off = {}
    o = 0
    for l in ls:
        off[id(l)] = (o, o + len(l.prefix), o + len(l.prefix) + len(l.value))
        o += len(l.prefix) + len(l.value)
    for n in nodes_of(m):
        if is_leaf(n):
            a, b, c = off[id(n)]
        else:
            sub = leaves_of(n)
            a, b, c = off[id(sub[0])][0], off[id(sub[0])][1], off[id(sub[-1])][2]
        try:
            g1 = n.get_code()
            g2 = n.get_code(include_prefix=False)
        except Exception as e:    # noqa
            F.append(_crash('bnd:C01.subtree.get_code', e, code))
            continue
        if g1 != code[a:c] or g2 != code[b:c]:
            F.append(Fail('bnd:C01.subtree.get_code', type(n).__name__,
                          '%s.get_code() is not the slice it spans: %r vs %r' % (n.type, g1[:60], code[a:c][:60]), code))
            break
    # bytes input
    try:
        b = code.encode('utf-8')
    except UnicodeEncodeError:
        b = None
    if b is not None:
        try:
            dec = python_bytes_to_unicode(b)
        except Exception:     # noqa  decoding behaviour is C15's business
            dec = None
        if dec is not None:
            try:
                mb = grammar(version).parse(b)
                if mb.get_code() != dec:
                    F.append(Fail('bnd:C01.bytes.get_code', 'bytes', 'bytes input: get_code() != decoded text', code))
            except RecursionError:
                pass
            except Exception as e:   # noqa
                F.append(_crash('bnd:C01.bytes.get_code', e, code))
    return F


# ------------------------------------------------------------------ C02
def check_C02(code, version, env):
    F = []
    # the property's bound: nesting <= 100 must parse under Python's *default* recursion limit
    old = sys.getrecursionlimit()
    sys.setrecursionlimit(1000)
    # "any text parses" holds whatever happened before: every parse here follows a strict parse that was abandoned by
    # its syntax error inside an indented block, and a token stream dropped half way
    try:
        next(iter(grammar(version)._tokenize('if x:\n    (a\n')))
    except Exception:  # noqa
        pass
    try:
        grammar(version).parse('if x:\n    a b\n', error_recovery=False)
    except Exception:  # noqa
        pass
    try:
        m = grammar(version).parse(code)
    except RecursionError as e:
        depth = max(len(l) - len(l.lstrip(' ')) for l in code.split('\n')) if code else 0
        nest = max(code.count(c) for c in '([{') if code else 0
        if max(depth, nest, code.count('not '), code.count('-'), code.count('lambda'), code.count('await'),
               code.count(' if '), code.count('='), code.count('.')) <= 100 and len(code) < 5000:
            F.append(Fail('bnd:C02.parse.total', 'RecursionError', 'RecursionError at nesting <= 100', code))
        return F
    except Exception as e:  # noqa
        F.append(_crash('bnd:C02.parse.total', e, code))
        return F
    finally:
        sys.setrecursionlimit(old)
    if m is None:
        return F
    if m.parent is not None or m.type != 'file_input':
        F.append(Fail('bnd:C02.root', 'root', 'root has a parent or is not file_input', code))
    ch = m.children
    if not ch or ch[-1].type != 'endmarker':
        F.append(Fail('bnd:C02.endmarker_last', 'endmarker', 'last child of module is not the end marker', code))
    for n in nodes_of(m):
        if is_leaf(n):
            if not isinstance(n.value, str) or not isinstance(n.prefix, str):
                F.append(Fail('bnd:C02.leaf.str', type(n).__name__, 'leaf value/prefix not str', code))
                break
        else:
            if not isinstance(n.children, list) or len(n.children) == 0:
                F.append(Fail('bnd:C02.node.nonempty', n.type, 'interior node %s without children' % n.type, code))
                break
    return F


# ------------------------------------------------------------------ C03
def _pos_at(code, k, _cache={}):
    """True (line, column) of offset k of the input: a BOM at offset 0 has zero width."""
    if k == 0:
        return (1, 0)
    return advance((1, 0), bom0(code[:k]) if code.startswith(BOM) else code[:k])


def _walk_positions(code, ls):
    """Expected (prefix_start, start, end) of every leaf by walking the input text."""
    # incremental version of _pos_at (same function, linear time)
    exp = []
    cur = (1, 0)
    o = 0
    for l in ls:
        ps = cur
        p = l.prefix
        if o == 0 and p.startswith(BOM):
            p = p[1:]
        s = advance(cur, p)
        v = l.value
        if o == 0 and not l.prefix and v.startswith(BOM):
            v = v[1:]
        e = advance(s, v)
        o += len(l.prefix) + len(l.value)
        exp.append((ps, s, e))
        cur = e
    return exp


def check_C03(code, version, env):
    F = []
    m = _parse(code, version, F, 'bnd:C03.parse.total')
    if m is None:
        return F
    ls = leaves_of(m)
    if ''.join(l.prefix + l.value for l in ls) != code:
        return F        # C01's business; positions are judged against a tiling
    exp = _walk_positions(code, ls)
    n = len(ls)
    for i, l in enumerate(ls):
        ps, s, e = exp[i]
        try:
            sp, ep = l.start_pos, l.end_pos
        except Exception as ex:  # noqa
            F.append(_crash('bnd:C03.leaf.pos', ex, code))
            break
        if is_zero_width(l):
            # no text to locate: must lie between its neighbours, start == end
            j = i + 1
            while j < n and is_zero_width(ls[j]):
                j += 1
            hi = exp[j][1] if j < n else e
            if not (s <= sp == ep <= hi):
                F.append(Fail('bnd:C03.leaf.zero_width', l.type,
                              'zero-width leaf at %r outside [%r, %r]' % (sp, s, hi), code))
                break
            continue
        if sp != s:
            F.append(Fail('bnd:C03.leaf.start_pos', type(l).__name__,
                          '%s %r start_pos %r, true %r' % (l.type, l.value[:20], sp, s), code))
            break
        if ep != e:
            F.append(Fail('bnd:C03.leaf.end_pos', type(l).__name__,
                          '%s %r end_pos %r, true %r' % (l.type, l.value[:20], ep, e), code))
            break
        try:
            gsp = l.get_start_pos_of_prefix()
        except Exception as ex:  # noqa
            F.append(_crash('bnd:C03.leaf.prefix_start', ex, code))
            break
        if gsp != ps:
            F.append(Fail('bnd:C03.leaf.prefix_start', type(l).__name__,
                          '%s %r get_start_pos_of_prefix %r, end of previous leaf %r' % (l.type, l.value[:20], gsp, ps), code))
            break
    idx = {id(l): i for i, l in enumerate(ls)}
    for nd in nodes_of(m):
        if is_leaf(nd):
            continue
        sub = leaves_of(nd)
        a, b = sub[0], sub[-1]
        if nd.start_pos != a.start_pos or nd.end_pos != b.end_pos:
            F.append(Fail('bnd:C03.node.span', nd.type, 'node %s does not start/end with its first/last leaf' % nd.type, code))
            break
    end = advance((1, 0), bom0(code))
    if m.end_pos != end:
        F.append(Fail('bnd:C03.module.end_pos', 'module', 'module.end_pos %r, end of input %r' % (m.end_pos, end), code))
    if m.end_pos[0] != breaks(code) + 1 or len(split_lines(code)) != breaks(code) + 1:
        F.append(Fail('bnd:C03.module.line_count', 'module', 'line count != breaks+1', code))
    return F


# ------------------------------------------------------------------ C07
def _first_marked(m):
    """(value, start_pos) of the first error the recovering parser marked, in source order."""
    ls = leaves_of(m)
    idx = {id(l): i for i, l in enumerate(ls)}
    best = None

    def rec(n, inside):
        nonlocal best
        if is_leaf(n):
            if n.type == 'error_leaf':
                i = idx[id(n)]
                if best is None or i < best:
                    best = i
            return
        if n.type == 'error_node':
            # nested error nodes count too: the innermost one was created first
            last = leaves_of(n)[-1]
            i = idx[id(last)] + 1
            if best is None or i < best:
                best = i
        for c in n.children:
            rec(c, inside)
    rec(m, False)
    if best is None:
        return None
    if best >= len(ls):
        return ('<past-end>', None, None)
    l = ls[best]
    return (l.value, l.start_pos, l.prefix)


def check_C07(code, version, env):
    F = []
    g = grammar(version)
    try:
        rec = g.parse(code)
    except RecursionError:
        return F
    except Exception as e:  # noqa
        return [_crash('bnd:C07.recovering.total', e, code)]
    raised = None
    strict = None
    try:
        strict = g.parse(code, error_recovery=False)
    except ParserSyntaxError as e:
        raised = e
    except RecursionError:
        return F
    except Exception as e:  # noqa
        return [_crash('bnd:C07.strict.only_syntax_error', e, code)]
    has_err = any(is_error(n) for n in nodes_of(rec))
    if (raised is not None) != has_err:
        F.append(Fail('bnd:C07.raise_iff_error', 'iff',
                      'strict raised=%s but recovered tree has error=%s' % (raised is not None, has_err), code))
        return F
    if raised is None:
        if strict.dump(indent=None) != rec.dump(indent=None):
            F.append(Fail('bnd:C07.same_tree', 'dump', 'strict and recovering trees differ', code))
    else:
        fm = _first_marked(rec)
        el = raised.error_leaf
        if fm is None or fm[1] != el.start_pos or (el.value != '' and fm[0] != el.value):
            F.append(Fail('bnd:C07.same_token', 'token',
                          'strict reports %r@%r, recovering marks %r' % (el.value, el.start_pos, fm), code))
    return F


# ------------------------------------------------------------------ C09
_PREFIX_OK = re.compile(r'(?:[ \t\f]|#[^\r\n]*|\\(?:\r\n?|\n)|\r\n?|\n)*\Z')
_ZW = ('INDENT', 'DEDENT', 'ERROR_DEDENT')


def check_C09(code, version, env):
    F = []
    vi = parse_version_string(version)
    # the stream of this text does not depend on streams abandoned before it (inside an indented block, inside brackets,
    # inside an f-string)
    try:
        for t_ in tokenize("if x:\n  f'{a", version_info=vi):
            if t_.string == '{':
                break
        for t_ in tokenize('if x:\n    (a\n', version_info=vi):          # dropped after the '(' inside the block
            if t_.string == '(':
                break
    except Exception:  # noqa
        pass
    try:
        toks = list(tokenize(code, version_info=vi))
    except Exception as e:  # noqa
        return [_crash('bnd:C09.tokenize.total', e, code)]
    if not toks or toks[-1].type.name != 'ENDMARKER' or sum(1 for t in toks if t.type.name == 'ENDMARKER') != 1:
        F.append(Fail('bnd:C09.one_endmarker_last', 'endmarker', 'not exactly one ENDMARKER, last', code))
    if ''.join(t.prefix + t.string for t in toks) != code:
        F.append(Fail('bnd:C09.tiling', 'tiling', 'prefix+string of tokens != input', code))
        return F
    # positions
    cur = (1, 0)
    n = len(toks)
    exp = []
    o = 0
    for i, t in enumerate(toks):
        p = t.prefix
        if o == 0 and p.startswith(BOM):
            p = p[1:]
        s = advance(cur, p)
        e = advance(s, t.string)
        o += len(t.prefix) + len(t.string)
        exp.append((s, e))
        cur = e
    for i, t in enumerate(toks):
        s, e = exp[i]
        if t.string == '' and t.prefix == '' and t.type.name in _ZW:
            j = i + 1
            while j < n and toks[j].string == '' and toks[j].prefix == '' and toks[j].type.name in _ZW:
                j += 1
            hi = exp[j][0] if j < n else e
            if not (s <= t.start_pos <= hi):
                F.append(Fail('bnd:C09.position.zero_width', t.type.name,
                              '%s at %r outside [%r,%r]' % (t.type.name, t.start_pos, s, hi), code))
                break
            continue
        if t.start_pos != s:
            F.append(Fail('bnd:C09.position', t.type.name,
                          '%s %r start_pos %r, true %r' % (t.type.name, t.string[:20], t.start_pos, s), code))
            break
    # balance
    depth = 0
    for t in toks:
        if t.type.name == 'INDENT':
            depth += 1
        elif t.type.name == 'DEDENT':
            depth -= 1
            if depth < 0:
                break
    if depth != 0:
        F.append(Fail('bnd:C09.balanced', 'balance', 'INDENT/DEDENT not balanced (%d)' % depth, code))
    # prefix purity
    o = 0
    for i, t in enumerate(toks):
        p = t.prefix
        if o == 0 and p.startswith(BOM):
            p = p[1:]
        o += len(t.prefix) + len(t.string)
        if not _PREFIX_OK.match(p):
            F.append(Fail('bnd:C09.prefix.pure', t.type.name, 'prefix %r contains relevant text' % t.prefix[:40], code))
            break
    # prefix splitting on tree leaves
    m = _parse(code, version, F, 'bnd:C09.parse.total')
    if m is None:
        return F
    ls = leaves_of(m)
    if ''.join(l.prefix + l.value for l in ls) != code:
        return F
    exp = _walk_positions(code, ls)
    for i, l in enumerate(ls):
        if not hasattr(l, '_split_prefix'):
            continue
        if is_zero_width(l):
            continue        # no prefix; the single empty spacing part sits where the leaf is put (C03 clause)
        try:
            parts = list(l._split_prefix())
        except Exception as e:  # noqa
            F.append(_crash('bnd:C09.split_prefix.total', e, code))
            continue
        if ''.join(p.spacing + p.value for p in parts[:-1]) + ''.join(p.value for p in parts[-1:]) != l.prefix \
                or not parts or parts[-1].type != 'spacing':
            F.append(Fail('bnd:C09.split_prefix.tiles', 'tiles', 'parts do not tile prefix %r' % l.prefix[:40], code))
            continue
        cur = exp[i][0]
        at_file_start = (cur == (1, 0) and code.startswith(l.prefix) and
                         sum(len(x.prefix) + len(x.value) for x in ls[:i]) == 0)
        okp = True
        for k, p in enumerate(parts):
            last = (k == len(parts) - 1)
            sp_text = '' if last else p.spacing
            start = advance(cur, sp_text)
            val = p.value
            if at_file_start and k == 0 and val == BOM:
                end = start
            else:
                end = advance(start, val)
            if p.start_pos != start or p.end_pos != end:
                F.append(Fail('bnd:C09.split_prefix.position', p.type,
                              'part %s %r at %r..%r, true %r..%r' % (p.type, val[:20], p.start_pos, p.end_pos, start, end), code))
                okp = False
                break
            cur = end
        if not okp:
            break
    return F


# ------------------------------------------------------------------ C11
def check_C11(code, version, env):
    F = []
    m = _parse(code, version, F, 'bnd:C11.parse.total')
    if m is None:
        return F
    ls = leaves_of(m)
    allnodes = nodes_of(m)
    order = {id(l): i for i, l in enumerate(ls)}
    try:
        for n in allnodes:
            if not is_leaf(n):
                for c in n.children:
                    if c.parent is not n:
                        F.append(Fail('bnd:C11.parent_link', n.type, 'child.parent is not the listing node', code))
                        return F
            if n.get_root_node() is not m:
                F.append(Fail('bnd:C11.root', n.type, 'get_root_node wrong', code))
                return F
            sub = [n] if is_leaf(n) else leaves_of(n)
            if n.get_first_leaf() is not sub[0] or n.get_last_leaf() is not sub[-1]:
                F.append(Fail('bnd:C11.first_last_leaf', n.type, 'first/last leaf wrong', code))
                return F
            i0, i1 = order[id(sub[0])], order[id(sub[-1])]
            nx, pv = n.get_next_leaf(), n.get_previous_leaf()
            enx = ls[i1 + 1] if i1 + 1 < len(ls) else None
            epv = ls[i0 - 1] if i0 > 0 else None
            if nx is not enx or pv is not epv:
                F.append(Fail('bnd:C11.next_prev_leaf', n.type, 'next/previous leaf of %s wrong' % n.type, code))
                return F
            p = n.parent
            if p is None:
                es = ep = None
            else:
                k = [i for i, c in enumerate(p.children) if c is n][0]
                es = p.children[k + 1] if k + 1 < len(p.children) else None
                ep = p.children[k - 1] if k > 0 else None
            if n.get_next_sibling() is not es or n.get_previous_sibling() is not ep:
                F.append(Fail('bnd:C11.siblings', n.type, 'next/previous sibling wrong', code))
                return F
            # ancestor search
            a = n.parent
            types = []
            while a is not None:
                types.append(a)
                a = a.parent
            for t in {x.type for x in types} | {'nonexistent_type'}:
                expa = next((x for x in types if x.type == t), None)
                if n.search_ancestor(t) is not expa:
                    F.append(Fail('bnd:C11.search_ancestor', t, 'nearest ancestor of type %s wrong' % t, code))
                    return F
            if len(types) >= 2:
                t1, t2 = types[-1].type, types[0].type
                if n.search_ancestor(t1, t2) is not next(x for x in types if x.type in (t1, t2)):
                    F.append(Fail('bnd:C11.search_ancestor', 'multi', 'nearest ancestor of two types wrong', code))
                    return F
        # position lookup: every (line, column) of the text and one outside each border
        lines = py_lines(code)
        endp = m.end_pos
        ends = [l.end_pos for l in ls]
        starts = [l.start_pos for l in ls]
        positions = []
        for li, line in enumerate(lines):
            for col in range(0, len(line) + 1):
                positions.append((li + 1, col))
        positions = positions[:400]
        for pos in positions + [(0, 0), (1, -1), (endp[0], endp[1] + 1), (endp[0] + 1, 0)]:
            inside = (1, 0) <= pos <= endp
            for incl in (False, True):
                try:
                    got = m.get_leaf_for_position(pos, include_prefixes=incl)
                    raised = False
                except ValueError:
                    raised = True
                    got = None
                if raised != (not inside):
                    F.append(Fail('bnd:C11.position.outside_rejected', 'range',
                                  'position %r inside=%s but ValueError=%s' % (pos, inside, raised), code))
                    return F
                if not inside:
                    continue
                k = next(i for i, e in enumerate(ends) if pos <= e)
                expl = ls[k]
                if not incl and pos < starts[k]:
                    expl = None
                if got is not expl:
                    F.append(Fail('bnd:C11.position.lookup', 'lookup',
                                  'get_leaf_for_position(%r, %s) -> %r, expected %r' % (pos, incl, got, expl), code))
                    return F
    except RecursionError:
        return F
    except Exception as e:  # noqa
        F.append(_crash('bnd:C11.navigation.total', e, code))
    return F


# ------------------------------------------------------------------ C13
def check_C13(code, version, env):
    F = []
    g = grammar(version)
    m = _parse(code, version, F, 'bnd:C13.parse.total')
    if m is None:
        return F
    before = m.dump(indent=None)
    try:
        issues = list(g.iter_errors(m))
    except RecursionError:
        return F
    except Exception as e:  # noqa
        return [_crash_ctx('bnd:C13.iter_errors.total', e, code, any(is_error(n) for n in nodes_of(m)))]
    if m.dump(indent=None) != before:
        F.append(Fail('bnd:C13.pure', 'dump', 'iter_errors modified the tree', code))
    endp = advance((1, 0), bom0(code))
    lines_seen = set()
    for it in issues:
        okc = (it.code == 901 and isinstance(it.message, str) and it.message.startswith('SyntaxError: ')) or \
              (it.code == 903 and isinstance(it.message, str) and it.message.startswith('IndentationError: '))
        if not okc:
            F.append(Fail('bnd:C13.issue.code_message', str(it.code), 'code %r message %r' % (it.code, it.message), code))
        if not ((1, 0) <= tuple(it.start_pos) <= tuple(it.end_pos) <= endp) or it.start_pos[1] < 0:
            F.append(Fail('bnd:C13.issue.range', 'range', 'issue range %r..%r outside file end %r' % (it.start_pos, it.end_pos, endp), code))
        if it.start_pos[0] in lines_seen:
            F.append(Fail('bnd:C13.issue.one_per_line', 'line', 'two issues on line %d' % it.start_pos[0], code))
        lines_seen.add(it.start_pos[0])
    # coverage
    ls = leaves_of(m)
    order = {id(l): i for i, l in enumerate(ls)}

    def rec(n):
        if is_leaf(n):
            if n.type == 'error_leaf' and n.start_pos[0] not in lines_seen:
                F.append(Fail('bnd:C13.coverage.error_leaf', n.token_type,
                              'error leaf %r on line %d not reported' % (n.value[:20], n.start_pos[0]), code))
            return
        if n.type == 'error_node':
            last = leaves_of(n)[-1]
            i = order[id(last)] + 1
            if i < len(ls) and ls[i].start_pos[0] not in lines_seen:
                F.append(Fail('bnd:C13.coverage.error_node', 'fstring' if _has_fstring(n) else 'plain',
                              'token after error node is on line %d, not reported' % ls[i].start_pos[0], code))
            # the statement says "each error leaf's line": also the error leaves *inside* an error node (the error finder skips
            # the inside of error nodes on purpose; a separate signature, a listed finding)
            for l in leaves_of(n):
                if l.type == 'error_leaf' and l.token_type not in ('INDENT', 'DEDENT', 'ERROR_DEDENT') \
                        and l.start_pos[0] not in lines_seen:
                    F.append(Fail('bnd:C13.coverage.error_leaf', 'nested-in-error-node',
                                  'error leaf %r on line %d inside an error node not reported' % (l.value[:20], l.start_pos[0]), code))
                    break
            return
        for c in n.children:
            rec(c)
    try:
        rec(m)
    except RecursionError:
        pass
    has_err = any(is_error(n) for n in nodes_of(m))
    if has_err and not issues:
        F.append(Fail('bnd:C13.nonempty_iff_error', 'empty', 'tree has errors but no issue', code))
    try:
        again = list(g.iter_errors(m))
        if [(i.code, i.message, i.start_pos, i.end_pos) for i in again] != \
                [(i.code, i.message, i.start_pos, i.end_pos) for i in issues]:
            F.append(Fail('bnd:C13.deterministic', 'repeat', 'second call differs', code))
    except Exception as e:  # noqa
        F.append(_crash_ctx('bnd:C13.iter_errors.total', e, code, has_err))
    return F


def _has_fstring(n):
    return any(x.type in ('fstring_start', 'fstring_string', 'fstring_end', 'fstring') for x in nodes_of(n))


# ------------------------------------------------------------------ C19
def _struct(n):
    if is_leaf(n):
        return (type(n).__name__, n.type, n.value, n.prefix, n.start_pos, getattr(n, 'token_type', None))
    return (type(n).__name__, n.type, tuple(_struct(c) for c in n.children))


def _parents_ok(n):
    for x in nodes_of(n):
        if not is_leaf(x):
            for c in x.children:
                if c.parent is not x:
                    return False
    return n.parent is None


def check_C19(code, version, env):
    F = []
    g = grammar(version)
    m = _parse(code, version, F, 'bnd:C19.parse.total')
    if m is None:
        return F
    try:
        ref = _struct(m)
    except RecursionError:
        return F
    import parso.python.tree as pt
    import parso.tree as bt
    ns = dict(vars(bt))
    ns.update(vars(pt))
    for indent in (None, 0, 4, '\t'):
        try:
            text = m.dump(indent=indent)
            back = eval(text, ns)
            if _struct(back) != ref or not _parents_ok(back) or back.get_code() != code:
                F.append(Fail('bnd:C19.dump.eval', repr(indent), 'eval(dump(indent=%r)) is a different tree' % (indent,), code))
        except (RecursionError, MemoryError):
            pass
        except SyntaxError as e:
            if 'too many nested' not in str(e) and 'too deeply nested' not in str(e):   # limits of CPython's eval, not of dump()
                F.append(_crash('bnd:C19.dump.eval', e, code))
        except Exception as e:  # noqa
            F.append(_crash('bnd:C19.dump.eval', e, code))
    try:
        back = pickle.loads(pickle.dumps(m))
        if _struct(back) != ref or not _parents_ok(back) or back.get_code() != code:
            F.append(Fail('bnd:C19.pickle', 'pickle', 'unpickled tree differs', code))
    except RecursionError:
        pass
    except Exception as e:  # noqa
        F.append(_crash('bnd:C19.pickle', e, code))
    # a tree that has been used (lazily computed attributes filled in: the used-names index, an issue listing) still
    # survives serialisation, and the copy answers the same
    try:
        names = {k: [n.start_pos for n in v] for k, v in m.get_used_names().items()}
        try:
            list(g.iter_errors(m))
        except Exception:  # noqa   crashes of the error finder are C13's business
            pass
        back = pickle.loads(pickle.dumps(m))
        if _struct(back) != ref or not _parents_ok(back) or back.get_code() != code:
            F.append(Fail('bnd:C19.pickle', 'pickle-after-use', 'tree unpickled after use differs', code))
        elif {k: [n.start_pos for n in v] for k, v in back.get_used_names().items()} != names:
            F.append(Fail('bnd:C19.pickle', 'used-names-after-pickle', 'used-names index of the copy differs', code))
    except RecursionError:
        pass
    except Exception as e:  # noqa
        F.append(_crash('bnd:C19.pickle', e, code))
    # refactor
    try:
        if g.refactor(m, {}) != code:
            F.append(Fail('bnd:C19.refactor.empty', 'empty', 'refactor with empty map changed the code', code))
        allnodes = nodes_of(m)
        ls = leaves_of(m)
        off = {}
        o = 0
        for l in ls:
            off[id(l)] = (o, o + len(l.prefix) + len(l.value))
            o += len(l.prefix) + len(l.value)

        def span(n):
            if is_leaf(n):
                return off[id(n)]
            sub = leaves_of(n)
            return (off[id(sub[0])][0], off[id(sub[-1])][1])
        cands = allnodes[:10] + allnodes[-4:] if len(allnodes) > 14 else allnodes
        for i, a in enumerate(cands):
            sa = span(a)
            exp1 = code[:sa[0]] + '<A>' + code[sa[1]:]
            if g.refactor(m, {a: '<A>'}) != exp1:
                F.append(Fail('bnd:C19.refactor.splice', 'one', 'refactor of one %s node is not a splice' % a.type, code))
                return F
            for b in cands[i + 1:i + 4]:
                sb = span(b)
                if sa[1] <= sb[0] or sb[1] <= sa[0]:
                    (x, sx, tx), (y, sy, ty) = sorted([(a, sa, '<A>'), (b, sb, '')], key=lambda z: z[1])
                    if sx == sy:
                        continue
                    exp2 = code[:sx[0]] + tx + code[sx[1]:sy[0]] + ty + code[sy[1]:]
                    if g.refactor(m, {a: '<A>', b: ''}) != exp2:
                        F.append(Fail('bnd:C19.refactor.splice', 'two', 'refactor of two disjoint nodes is not a splice', code))
                        return F
    except RecursionError:
        pass
    except Exception as e:  # noqa
        F.append(_crash('bnd:C19.refactor.total', e, code))
    return F


# ------------------------------------------------------------------ C20
def _pep8_configs():
    from parso.python.pep8 import PEP8NormalizerConfig
    return [('default', None), ('tab', PEP8NormalizerConfig(indentation='\t')),
            ('two40', PEP8NormalizerConfig(indentation='  ', max_characters=40)),
            # a limit the small scope can exceed: the line-length logic (E501 and its long-comment exception) is reached
            ('max3', PEP8NormalizerConfig(max_characters=3))]


def _issue_key(i):
    return (i.code, i.message, tuple(i.start_pos), tuple(i.end_pos))


def check_C20(code, version, env):
    F = []
    g = grammar(version)
    m = _parse(code, version, F, 'bnd:C20.parse.total')
    if m is None:
        return F
    before = m.dump(indent=None)
    endp = advance((1, 0), bom0(code))
    has_err = any(is_error(n) for n in nodes_of(m))
    for cname, cfg in _pep8_configs():
        try:
            issues = g._get_normalizer_issues(m, cfg)
        except RecursionError:
            return F
        except Exception as e:  # noqa
            F.append(_crash_ctx('bnd:C20.normalizer.total', e, code, has_err, cname))
            continue
        seen = set()
        for it in issues:
            if not isinstance(it.code, int) or isinstance(it.code, bool) or not isinstance(it.message, str):
                F.append(Fail('bnd:C20.issue.code_message', type(it.code).__name__, 'code %r message %r' % (it.code, it.message), code))
                break
            sp, ep = tuple(it.start_pos), tuple(it.end_pos)
            if sp[1] < 0 or ep[1] < 0 or not ((1, 0) <= sp <= ep <= endp):
                F.append(Fail('bnd:C20.issue.range', str(it.code), 'issue %s range %r..%r (file end %r)' % (it.code, sp, ep, endp), code))
                break
            if (it.code, sp) in seen:
                F.append(Fail('bnd:C20.issue.no_duplicates', str(it.code), '(%s, %r) reported twice' % (it.code, sp), code))
                break
            seen.add((it.code, sp))
        try:
            again = g._get_normalizer_issues(m, cfg)
            if [_issue_key(i) for i in again] != [_issue_key(i) for i in issues]:
                F.append(Fail('bnd:C20.stable.repeat', cname, 'second call differs', code))
            back = pickle.loads(pickle.dumps(m))
            viap = g._get_normalizer_issues(back, cfg)
            if [_issue_key(i) for i in viap] != [_issue_key(i) for i in issues]:
                F.append(Fail('bnd:C20.stable.unpickled', cname, 'issues differ on the unpickled tree', code))
        except RecursionError:
            pass
        except Exception as e:  # noqa
            F.append(_crash_ctx('bnd:C20.normalizer.total', e, code, has_err, cname))
        if cname == 'default' and not has_err:
            e292 = any(i.code == 292 for i in issues)
            want = not (code.endswith('\n') or code.endswith('\r'))
            if e292 != want:
                F.append(Fail('bnd:C20.e292.exact', 'e292', 'E292 reported=%s, text ends in line break=%s' % (e292, not want), code))
    if m.dump(indent=None) != before:
        F.append(Fail('bnd:C20.pure', 'dump', 'normalizer modified the tree', code))
    # "the same whether the tree came from a fresh parse or an incremental re-parse": list the issues of a cached tree, re-parse
    # an edited text incrementally (a line in front, so reused statements move), list again, compare with a fresh parse of
    # the edited text.  A quarter of the small programs (cost), default configuration.
    if len(code) < 300 and zlib.crc32(code.encode('utf-8', 'replace')) % 4 == 0:
        from parso import cache as _pc
        path = '/nonexistent/c20_%d.py' % os.getpid()
        try:
            _pc.parser_cache.pop(g._hashed, None)
            m1 = g.parse(code, diff_cache=True, path=path)
            try:
                g._get_normalizer_issues(m1)
            except Exception:  # noqa   crashes are reported above
                pass
            code2 = 'x = 1\n' + code + ('' if code.endswith(('\n', '\r')) or not code else '\n') + 'y = 2\n'
            m2 = g.parse(code2, diff_cache=True, path=path)
            fresh = g.parse(code2)
            if m2.dump(indent=None) == fresh.dump(indent=None):        # (a different tree is C04's business)
                a = b = None
                try:
                    a = [_issue_key(i) for i in g._get_normalizer_issues(m2)]
                    b = [_issue_key(i) for i in g._get_normalizer_issues(fresh)]
                except Exception:  # noqa
                    pass
                if a is not None and b is not None and a != b:
                    F.append(Fail('bnd:C20.stable.incremental', 'incremental',
                                  'issues of the incrementally re-parsed tree differ from those of a fresh parse: %r vs %r' % (a[:4], b[:4]), code))
        except RecursionError:
            pass
        except Exception:  # noqa   crashes of the diff parser are C04's business
            pass
        finally:
            _pc.parser_cache.pop(g._hashed, None)
    return F


CHECKS = {k[6:]: v for k, v in list(globals().items()) if k.startswith('check_C')}
