from props.common import run_bounded


def run(report):
    run_bounded(report, ['parse', 'blk', 'fstr'])
