# DRAFT, not loaded: totality contract of parso.python.tokenize.tokenize_lines (see contracts/tokenizer.py)
INC_ = 'forall(lambda k: implies(0 < k and k < len(indents), indents[k - 1] < indents[k]), trigger=lambda k: indents[k])'
IND_WF = ['indents is not None', 'len(indents) >= 1', 'indents[0] == 0', INC_]
ENDPATS_NN = 'forall(lambda k: implies(k in endpats, endpats[k] is not None), kinds=dict(k="str"))'
FS_WF = ['fstring_stack is not None', 'fstring_stack is not indents', QUOTES_KNOWN,
         'forall(lambda k: implies(0 <= k and k < len(fstring_stack), fstring_stack[k].previous_lines == ""), trigger=lambda k: fstring_stack[k])']
TL_VARS = {'endprog': 'ref:re.Pattern', 'contstr_start': 'pos', 'contline': 'str', 'spos': 'pos', 'token': 'str', 'initial': 'str',
           'start': 'int', 'tos': 'ref:FStringNode', 'string_line': 'str', 'pseudomatch': 'ref:re.Match', 'match': 'ref:re.Match',
           'endmatch': 'ref:re.Match', 'end_match': 'ref:re.Match', 'string': 'str', 'rest': 'str', 'quote_length': 'int',
           'fstring_end_token': 'ref:PythonToken', 'quote': 'str', 'end_match_string': 'str', 'indent_start': 'int', 'm': 'ref:re.Match',
           'fstring_stack_node': 'ref:FStringNode'}
TABLES = ['pseudo_token is not None', 'whitespace is not None', 'endpats is not None', 'fstring_pattern_map is not None', ENDPATS_NN,
          'forall(lambda k: implies(k in fstring_pattern_map, len(fstring_pattern_map[k]) >= 1 and fstring_pattern_map[k] in endpats), kinds=dict(k="str"))',
          'forall(lambda q: implies(q in triple_quoted, q in endpats), kinds=dict(q="str"))',
          'forall(lambda q: implies(q in single_quoted, len(q) >= 1 and len(q) <= 3 and q[len(q) - 1:] in endpats), kinds=dict(q="str"))']
contract('parso.python.tokenize.tokenize_lines', kind='generator',
         params={'lines': 'list:str', 'version_info': 'pos', 'indents': 'list:int', 'start_pos': 'pos', 'is_first_token': 'bool'},
         yields='ref:PythonToken',
         requires=['lines is not None', 'start_pos[1] == 0',
                   'indents is None or (len(indents) >= 1 and indents[0] == 0 and %s)' % INC_],
         yield_ensures=['y is not None'],
         ensures=[],
         raises=[],
         loops={0: dict(invariant=IND_WF + FS_WF + TABLES + ['implies(contstr != "", endprog is not None)'],
                        snapshot=True, vars=TL_VARS, maps_stable=True),
                1: dict(invariant=IND_WF + FS_WF + TABLES + ['0 <= pos', 'pos <= max_', 'max_ == len(line)', 'contstr == ""'],
                        vars=TL_VARS, maps_stable=True),
                2: dict(invariant=IND_WF + FS_WF + TABLES + ['0 <= pos', 'pos <= max_', 'max_ == len(line)'], vars=TL_VARS, maps_stable=True,
                        len_stable=True),
                3: dict(invariant=['indents is not None'], snapshot=True)},
         locals_={'fstring_stack': 'list:ref:FStringNode'}, match_layout={'pseudo_token': [1, 2]}, props=['C09', 'C02'])
