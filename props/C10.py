from props.common import run_bounded, add_obs
from pv import obs_regex as R
from pv import obs_tables as T


def _lexemes():
    obs = []
    for v, _ in T.grammar_files():
        obs += R.lexeme_obligations(v)
    return obs


def run(report):
    add_obs(report, _lexemes)
    report.assume("reference for the lexeme obligations: the regex grammar shipped in the running CPython's tokenize "
                  "module (python3-vt = 3.11) and token.EXACT_TOKEN_TYPES; version differences only through ':=' (3.8+)",
                  "stream level: only the interpreter of the test suite (CPython 3.12) is available as reference, the "
                  "interpreters 3.6-3.10 and 3.13 named by the property are absent offline; versions other than 3.12 are "
                  "covered only through the token-collection code they share",
                  "A-CHARS: z3's character sort ends at U+2FFFF; range bounds above are clipped (no pattern of parso "
                  "distinguishes characters above that bound from those just below)")
    run_bounded(report, ['stmt'], versions='3.12', rnd_versions='3.12', scale=1.5,
                extra='stdlib60' if report.tier == 'quick' else 'stdlib400')
