"""Regular-language obligations on the *live* compiled patterns (DESIGN 2.5).

A pattern string is parsed with CPython's own regex parser (re._parser) and translated to an SMT
regular expression (z3 ReSort over strings).  Queries are satisfiability problems over an unbounded
string and are decided by z3's regex theory; 'sat' yields a witness string for native replay.

mode 'over' : look-aheads and anchors are dropped (language superset)  -- sound when the pattern is on the
              left of an inclusion / in an emptiness-of-intersection query
mode 'under': alternatives containing a look-ahead are removed (language subset) -- sound on the right side
mode 'exact': raises Unsupported if the pattern contains a look-around (anchors at the very end are kept as
              end-of-string and must be handled by the caller)
"""
import re
import time

try:
    import re._parser as sre_parse
    import re._constants as sre_c
except ImportError:  # Python < 3.11
    import sre_parse
    import sre_constants as sre_c

import z3

from pv.core import Ob, DISCHARGED, REFUTED, UNDECIDED

MAXC = 0x2FFFF           # z3's character sort ends here; see assumption A-CHARS
S = z3.StringSort()
RE = z3.ReSort(S)


class Unsupported(Exception):
    pass


def ch(c):
    return z3.StringVal(chr(c)) if isinstance(c, int) else z3.StringVal(c)


def rng(a, b):
    a, b = max(0, a), min(b, MAXC)
    if a > b:
        return z3.Empty(RE)
    if a == b:
        return z3.Re(ch(a))
    return z3.Range(ch(a), ch(b))


EPS = z3.Re(z3.StringVal(''))
ANYCHAR = z3.Range(ch(0), ch(MAXC))
ALL = z3.Star(ANYCHAR)
NONE = z3.Empty(RE)

_cat_cache = {}


def category_ranges(cat, is_bytes):
    """Code point ranges of a regex category, computed from CPython's own matcher."""
    key = (str(cat), is_bytes)
    if key in _cat_cache:
        return _cat_cache[key]
    name = str(cat)
    pat = {'CATEGORY_WORD': r'\w', 'CATEGORY_NOT_WORD': r'\W', 'CATEGORY_SPACE': r'\s', 'CATEGORY_NOT_SPACE': r'\S',
           'CATEGORY_DIGIT': r'\d', 'CATEGORY_NOT_DIGIT': r'\D'}[name]
    if is_bytes:
        rx = re.compile(pat.encode())
        hits = [c for c in range(256) if rx.match(bytes([c]))]
    else:
        rx = re.compile(pat)
        hits = [c for c in range(MAXC + 1) if not (0xD800 <= c <= 0xDFFF) and rx.match(chr(c))]
    out = []
    for c in hits:
        if out and out[-1][1] == c - 1:
            out[-1][1] = c
        else:
            out.append([c, c])
    _cat_cache[key] = out
    return out


def union(parts):
    parts = list(parts)
    if not parts:
        return NONE
    if len(parts) == 1:
        return parts[0]
    return z3.Union(parts)


def concat(parts):
    parts = [p for p in parts]
    if not parts:
        return EPS
    if len(parts) == 1:
        return parts[0]
    return z3.Concat(parts)


def complement_ranges(rs, hi=MAXC):
    rs = sorted(rs)
    out = []
    cur = 0
    for a, b in rs:
        if a > cur:
            out.append([cur, a - 1])
        cur = max(cur, b + 1)
    if cur <= hi:
        out.append([cur, hi])
    return out


class Translator:
    def __init__(self, mode='over', is_bytes=False, flags=0, maxc=None):
        self.maxc = maxc      # restrict the alphabet to code points <= maxc (language intersected with that alphabet)
        self.mode = mode
        self.is_bytes = is_bytes
        self.flags = flags
        self.dropped = []     # look-arounds / anchors abstracted away
        self.groups = {}      # group number -> z3 regex of that group

    def class_ranges(self, items):
        neg = False
        rs = []
        for op, av in items:
            if op is sre_c.NEGATE:
                neg = True
            elif op is sre_c.LITERAL:
                rs.append([av, av])
            elif op is sre_c.RANGE:
                rs.append([av[0], min(av[1], MAXC)])
            elif op is sre_c.CATEGORY:
                rs.extend(category_ranges(av, self.is_bytes))
            else:
                raise Unsupported('class item %s' % (op,))
        hi = 255 if self.is_bytes else MAXC
        if neg:
            rs = complement_ranges(rs, hi)
        if self.maxc is not None:
            rs = [[a, min(b, self.maxc)] for a, b in rs if a <= self.maxc]
        return rs

    def seq(self, items):
        return concat([self.node(op, av) for op, av in items])

    def node(self, op, av):
        if op is sre_c.LITERAL:
            return z3.Re(ch(min(av, MAXC)))
        if op is sre_c.NOT_LITERAL:
            hi = 255 if self.is_bytes else MAXC
            return union([rng(a, b) for a, b in complement_ranges([[av, av]], hi)])
        if op is sre_c.ANY:
            hi = 255 if self.is_bytes else MAXC
            if self.flags & re.DOTALL:
                return rng(0, hi)
            return union([rng(a, b) for a, b in complement_ranges([[10, 10]], hi)])
        if op is sre_c.IN:
            return union([rng(a, b) for a, b in self.class_ranges(av)])
        if op is sre_c.BRANCH:
            alts = []
            for alt in av[1]:
                try:
                    alts.append(self.seq(alt))
                except _DropAlt:
                    continue
            return union(alts)
        if op is sre_c.SUBPATTERN:
            g, add_flags, del_flags, p = av
            r = self.seq(p)
            if g is not None:
                self.groups[g] = r
            return r
        if op in (sre_c.MAX_REPEAT, sre_c.MIN_REPEAT):
            lo, hi, p = av
            r = self.seq(p)
            if hi is sre_c.MAXREPEAT:
                if lo == 0:
                    return z3.Star(r)
                if lo == 1:
                    return z3.Plus(r)
                return z3.Concat(z3.Loop(r, lo, lo), z3.Star(r))
            return z3.Loop(r, lo, hi)
        if op is sre_c.AT:
            self.dropped.append(str(av))
            if self.mode == 'exact' and str(av) not in ('AT_END', 'AT_END_STRING', 'AT_BEGINNING', 'AT_BEGINNING_STRING'):
                raise Unsupported('anchor %s' % av)
            return EPS
        if op in (sre_c.ASSERT, sre_c.ASSERT_NOT):
            self.dropped.append(str(op))
            if self.mode == 'over':
                return EPS
            if self.mode == 'under':
                raise _DropAlt()
            raise Unsupported('look-around')
        raise Unsupported('regex op %s' % (op,))


class _DropAlt(Exception):
    pass


def parse(pattern, flags=0):
    if isinstance(pattern, re.Pattern):
        flags = pattern.flags
        pattern = pattern.pattern
    return sre_parse.parse(pattern, flags), isinstance(pattern, bytes), flags


def lang(pattern, mode='over', flags=0, maxc=None):
    """z3 regex for the language of a pattern (str, bytes or compiled)."""
    tree, is_bytes, flags = parse(pattern, flags)
    if is_bytes:
        tree = sre_parse.parse(pattern.pattern.decode('latin-1') if isinstance(pattern, re.Pattern)
                               else pattern.decode('latin-1'), flags & ~re.UNICODE)
    t = Translator(mode, is_bytes, flags, maxc)
    try:
        r = t.seq(list(tree))
    except _DropAlt:
        r = NONE
    return r, t


def top_groups(pattern):
    """[(group number, z3 regex)] for a pattern that is a plain sequence of capturing groups at top level."""
    tree, is_bytes, flags = parse(pattern)
    t = Translator('over', is_bytes, flags)
    out = []
    for op, av in tree:
        if op is not sre_c.SUBPATTERN or av[0] is None:
            raise Unsupported('top level of the pattern is not a sequence of capturing groups')
        out.append((av[0], t.seq(av[3]), av[3]))
    return out, t


def top_layout(pattern):
    """The top-level items of a pattern that is a concatenation: [group number or None].  A match is the
    concatenation of the texts its top-level items matched, in order."""
    tree, is_bytes, flags = parse(pattern)
    out = []
    for op, av in tree:
        if op is sre_c.BRANCH:
            raise Unsupported('top level of the pattern is an alternation')
        out.append(av[0] if op is sre_c.SUBPATTERN and av[0] is not None else None)
    return out


def alternatives(subpattern_items, translator):
    """The alternatives of a group whose body is a single BRANCH (or a single alternative)."""
    items = list(subpattern_items)
    if len(items) == 1 and items[0][0] is sre_c.SUBPATTERN and items[0][1][0] is None:
        items = list(items[0][1][3])
    if len(items) == 1 and items[0][0] is sre_c.BRANCH:
        return [(alt, translator.seq(alt)) for alt in items[0][1][1]]
    return [(items, translator.seq(items))]


# ------------------------------------------------------------------------------- queries
def _solve(constraints, s, timeout_ms=20000):
    sol = z3.Solver()
    sol.set('timeout', timeout_ms)
    sol.set('rlimit', max(1, timeout_ms) * 12000)        # deterministic backstop (see pv/smt.py)
    for c in constraints:
        sol.add(c)
    t0 = time.time()
    r = sol.check()
    dt = time.time() - t0
    if r == z3.sat:
        w = sol.model().eval(s, model_completion=True)
        try:
            return 'sat', w.as_string(), dt
        except Exception:  # noqa
            return 'sat', str(w), dt
    if r == z3.unsat:
        return 'unsat', None, dt
    return 'unknown', None, dt


def z3_unescape(w):
    """z3 prints non-printable characters as \\u{..}; turn the witness back into a Python string."""
    if w is None:
        return None
    return re.sub(r'\\u\{([0-9a-fA-F]+)\}', lambda m: chr(int(m.group(1), 16)), w)


def empty(r, extra=None):
    """Is the language r (intersected with extra constraints on s) empty?  -> (verdict, witness, seconds)"""
    s = z3.String('s')
    cs = [z3.InRe(s, r)]
    if extra is not None:
        cs += extra(s)
    v, w, dt = _solve(cs, s)
    return v, z3_unescape(w), dt


def subset(a, b):
    return empty(z3.Intersect(a, z3.Complement(b)))


def disjoint(a, b):
    return empty(z3.Intersect(a, b))


def ob_subset(name, a, b, functions=(), replay=None, what=''):
    """Obligation  L(a) <= L(b)."""
    v, w, dt = subset(a, b)
    return _ob(name, v, w, dt, functions, replay, what)


def ob_empty(name, r, functions=(), replay=None, what=''):
    v, w, dt = empty(r)
    return _ob(name, v, w, dt, functions, replay, what)


def _ob(name, v, w, dt, functions, replay, what):
    if v == 'unsat':
        return Ob(name, 'D', 'reglan:z3', DISCHARGED, dt, what, functions=functions)
    if v == 'sat':
        wit = dict(string=w)
        rep = None
        if replay is not None:
            try:
                rep, info = replay(w)
                wit['native'] = info
                wit['input'] = w
            except Exception as e:  # noqa
                wit['native'] = 'replay error: %r' % (e,)
        return Ob(name, 'D', 'reglan:z3', REFUTED, dt, '%s; witness %r' % (what, w), wit, functions=functions,
                  replayed=bool(rep))
    return Ob(name, 'D', 'reglan:z3', UNDECIDED, dt, what + '; solver unknown', functions=functions)


def lit(s):
    return z3.Re(z3.StringVal(s))


def chars(cs):
    return union([z3.Re(z3.StringVal(c)) for c in cs])


def not_chars(cs, hi=MAXC):
    return union([rng(a, b) for a, b in complement_ranges(sorted([[ord(c), ord(c)] for c in cs]), hi)])
