"""Parser engine contracts (C06, C07; stack invariant for C02/C05 is future work)."""
from pv.contract import contract, class_fields, fields

class_fields('Token', type='ref', string='str', start_pos='pos', prefix='str')
class_fields('Parser', _omit_dedent_list='list:int', _indent_counter='int', _error_recovery='bool',
             _start_nonterminal='str', syntax_errors='list:any', stack='list:ref:StackNode', _pgen_grammar='ref')
class_fields('BaseParser', _error_recovery='bool', _start_nonterminal='str', _pgen_grammar='ref')
class_fields('TokenType', contains_syntax='bool', name='str')

# C07: as long as no recovery has happened (the dedent filter is empty) the token filter is the identity:
# every token is yielded unchanged, in order, and the filter stays empty.
contract('parso.python.parser.Parser._recovery_tokenize', kind='generator',
         params={'self': 'ref:Parser', 'tokens': 'list:ref:PythonToken'}, yields='ref:PythonToken',
         requires=['forall(lambda k: implies(0 <= k and k < len(tokens), tokens[k] is not None))',
                   'self._omit_dedent_list is not tokens'],
         loops={0: dict(invariant=['self._omit_dedent_list is not tokens'], len_stable=True,
                        lists_modified=['self._omit_dedent_list'],
                        body_ensures=['implies(old(len(self._omit_dedent_list)) == 0, '
                                      'nyield == nyield0 + 1 and last_yield is token and len(self._omit_dedent_list) == 0)'])},
         props=['C07'])

contract('parso.python.parser.Parser.__init__',
         params={'self': 'ref:Parser', 'pgen_grammar': 'ref', 'error_recovery': 'bool', 'start_nonterminal': 'str'},
         ensures=['len(self._omit_dedent_list) == 0', 'self._indent_counter == 0',
                  'self._error_recovery == error_recovery', 'self._start_nonterminal == start_nonterminal'],
         inline=['parso.parser.BaseParser.__init__'], props=['C07'])
contract('parso.parser.BaseParser.__init__',
         params={'self': 'ref:BaseParser', 'pgen_grammar': 'ref', 'start_nonterminal': 'str', 'error_recovery': 'bool'},
         ensures=['self._error_recovery == error_recovery', 'self._start_nonterminal == start_nonterminal',
                  'self._pgen_grammar is pgen_grammar'],
         modifies=['self._error_recovery', 'self._start_nonterminal', 'self._pgen_grammar'], props=['C07'])

# ---- C06: token -> transition label
class_fields('PythonTokenTypes', value='ref:TokenType')
class_fields('Grammar', reserved_syntax_strings='map:str:ref:ReservedString')
contract('parso.parser._token_to_transition',
         params={'grammar': 'ref:Grammar', 'type_': 'ref:PythonTokenTypes', 'value': 'str'}, returns='ref',
         requires=['grammar is not None', 'type_ is not None', 'type_.value is not None'],
         ensures=['implies(type_.value.contains_syntax and value in grammar.reserved_syntax_strings, '
                  'result is grammar.reserved_syntax_strings[value])',
                  'implies(not (type_.value.contains_syntax and value in grammar.reserved_syntax_strings), result is type_)'],
         props=['C06'])
