from props.common import add_obs, verify_keys, ASSUME_BOUNDED
from pv import obs_tables as T
from pv import obs_tables_small as S


KEYS = ['parso.pgen2.generator.DFAState.__eq__', 'parso.pgen2.generator.DFAState.unifystate',
        'parso.pgen2.generator.DFAState.add_arc', 'parso.pgen2.generator.ReservedString.__init__',
        'parso.pgen2.generator._make_transition#string']


def _tables():
    obs, stats = T.all_versions(which=('lang', 'plans', 'll1', 'cert'))
    return obs, stats


def run(report):
    r = add_obs(report, lambda: T.all_versions(which=('lang', 'plans', 'll1', 'cert'))[0], name='tables')
    report.extra['tables'] = {v: dict(file=p) for v, p in T.grammar_files()}
    report.assume("M-SUBSET: the subset-construction certificate implies language equality (textbook lemma); the "
                  "composition obligation tab:*:language decides the equality directly as well",
                  "T obligations are exact decisions over the complete finite domain 'all rules / states / transitions of "
                  "all shipped grammar files' (evaluated on the live tables built by the code under check, under python3-vt)",
                  "independent EBNF reader and automata library spec/ebnf.py")
    # VCs of the generator's helpers: the state equivalence _simplify_dfas merges by, the redirection of merged arcs, arcs
    # never overwritten, one ReservedString per value
    verify_keys(report, KEYS)
    max_size = 3
    full = report.tier != 'quick'

    def small():
        obs, stats = S.small_grammar_obligations(max_size, full=full, also_size4=full)
        return [(obs, stats)]
    from props.common import _call_with_deadline
    import os
    if os.environ.get('PV_SKIP_BOUNDED'):
        return
    out = _call_with_deadline(small, (), 1500)
    if out is None:
        from pv.core import Ob, UNDECIDED
        report.add(Ob('bnd:C08.small-grammars', 'B', 'runtime-contract', UNDECIDED, 1500, 'did not finish'))
    else:
        obs, stats = out[0]
        report.extend(obs)
        report.bounded.update(evaluations=stats['evaluations'], distinct_nontrivial=stats['distinct_nontrivial'],
                              rule=stats['rule'], samples=stats['samples'], scope=dict(max_size=max_size, counts=stats['counts']),
                              exhaustive=True)
    report.assume(ASSUME_BOUNDED)
