"""Class table read from the live modules (A-DISPATCH): bases, properties, methods, class constants."""
import importlib
import inspect

MODULES = ['parso.tree', 'parso.python.tree', 'parso.python.prefix', 'parso.normalizer', 'parso.python.errors',
           'parso.python.tokenize', 'parso.python.token', 'parso.parser', 'parso.python.parser', 'parso.cache',
           'parso.pgen2.generator', 'parso.pgen2.grammar_parser', 'parso.python.diff', 'parso.python.pep8',
           'parso.grammar', 'parso.file_io']

_table = None


def table():
    global _table
    if _table is None:
        t = {}
        for mn in MODULES:
            m = importlib.import_module(mn)
            for name, obj in vars(m).items():
                if inspect.isclass(obj) and obj.__module__ == mn:
                    t.setdefault(name, obj)
        _table = t
    return _table


def get(name):
    return table().get(name)


def lookup(clsname, attr):
    """-> (kind, defining class name, object)  kind in property/method/const/none"""
    c = get(clsname)
    if c is None:
        return ('none', None, None)
    for k in c.__mro__:
        if attr in vars(k):
            o = vars(k)[attr]
            if isinstance(o, property):
                return ('property', k.__name__, o)
            if inspect.isfunction(o):
                return ('method', k.__name__, o)
            if isinstance(o, (classmethod, staticmethod)):
                return ('method', k.__name__, o)
            if inspect.ismemberdescriptor(o) or inspect.isgetsetdescriptor(o):
                return ('slot', k.__name__, o)
            return ('const', k.__name__, o)
    return ('none', None, None)


def qualname(clsname, attr):
    kind, dcls, _ = lookup(clsname, attr)
    if dcls is None:
        return None
    c = get(dcls)
    return '%s.%s.%s' % (c.__module__, c.__qualname__, attr)


def subclasses(clsname):
    c = get(clsname)
    return [n for n, k in table().items() if c is not None and issubclass(k, c)]


def overriders(clsname, attr):
    """Names of classes (strict subclasses of clsname) that define attr themselves."""
    c = get(clsname)
    out = []
    for n, k in table().items():
        if k is not c and issubclass(k, c) and attr in vars(k):
            out.append(n)
    return sorted(out)


def is_subclass(a, b):
    ca, cb = get(a), get(b)
    return ca is not None and cb is not None and issubclass(ca, cb)


def has_children(clsname):
    """'yes' if every instance has .children, 'no' if none has, 'maybe' otherwise (by class table)."""
    c = get(clsname)
    if c is None:
        return 'maybe'
    bn, lf = get('BaseNode'), get('Leaf')
    if issubclass(c, bn):
        return 'yes'
    if issubclass(c, lf):
        return 'no'
    return 'maybe'
