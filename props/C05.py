from props.common import run_bounded, add_obs, verify_keys
from pv import obs_tables as T


def run(report):
    add_obs(report, lambda: T.all_versions(which=('lang', 'plans', 'll1'))[0], name='tables')
    # "errors only where a statement or block is expected": recovery cuts the stack back to a file_input / suite entry (or the
    # root), and the removed entries' nodes go, as one error node, into that entry (contracts/parser.py)
    verify_keys(report, ['parso.python.parser.Parser.error_recovery.current_suite', 'parso.python.parser.Parser._stack_removal',
                         'parso.python.parser.Parser.error_recovery#recover',
                         # the collapse convention: an entry with one node contributes the node itself, otherwise a new node
                         'parso.parser.BaseParser._pop', 'parso.python.parser.Parser.convert_node',
                         # a node is built only from an entry whose rule is complete: _pop's precondition at its call sites
                         'parso.parser.BaseParser._add_token', 'parso.parser.BaseParser.parse',
                         # a token is matched against the terminal of its own spelling / type
                         'parso.parser._token_to_transition'])
    report.assume("engine stack invariant I_stack (every stack entry spells a run of its rule's automaton) is stated in "
                  "DESIGN 4/C05 but not discharged deductively; tree conformance rests on the T table facts plus the "
                  "bounded conformance monitor",
                  "oracle of the monitor: independent EBNF reader spec/ebnf.py + documented tree conventions "
                  "(single-child collapse, suite without INDENT/DEDENT, param grouping, optional final NEWLINE at end of file)")
    run_bounded(report, ['parse', 'blk', 'stmt'])
