import os
import re

from pv.core import VERIF
from pv import bounded as B

ASSUME_BOUNDED = ("bounded obligations (bnd:*) are run-time-checked contracts over the stated finite scope; "
                  "they are never counted as proved")


def declared_bounded(prop):
    names = []
    for fn in ('preds.py', 'preds_%s.py' % prop.lower()):
        p = os.path.join(VERIF, 'harness', fn)
        if os.path.exists(p):
            for m in re.finditer(r"'(bnd:%s\.[A-Za-z0-9_.]+)'" % prop, open(p).read()):
                if m.group(1) not in names:
                    names.append(m.group(1))
    return names


def run_bounded(report, alpha, functions=(), scale=1.0, **kw):
    res = B.run_harness(report.prop, alpha, report.tier, report.seed, scale=scale, **kw)
    B.bounded_obligations(report, report.prop, declared_bounded(report.prop), res, functions=functions)
    report.assume(ASSUME_BOUNDED)
    return res
