from props.common import run_bounded, verify_keys

KEYS = [
    'parso.tree.Leaf.start_pos', 'parso.tree.Leaf.start_pos.setter', 'parso.tree.Leaf.end_pos',
    'parso.python.tree._LeafWithoutNewlines.end_pos',
    'parso.python.prefix.PrefixPart.end_pos', 'parso.python.prefix.PrefixPart.__init__',
    'parso.python.prefix.PrefixPart.create_spacing_part',
    'parso.tree.BaseNode.start_pos', 'parso.tree.BaseNode.end_pos', 'parso.tree.Leaf.start_pos#ghost',
    'parso.tree.Leaf.end_pos#ghost', 'parso.python.tree._LeafWithoutNewlines.end_pos#ghost',
    'parso.tree.Leaf.get_start_pos_of_prefix', 'parso.tree.BaseNode.get_start_pos_of_prefix',
    'parso.python.tree.PythonLeaf.get_start_pos_of_prefix', 'parso.python.tokenize._find_fstring_string',
    # start positions the tokenizer helpers give their tokens (the closing quote of an f-string, the parts of an illegal name)
    'parso.python.tokenize._close_fstring_if_necessary', 'parso.python.tokenize._split_illegal_unicode_name',
]


def run(report):
    verify_keys(report, KEYS)
    from props.common import add_obs
    from pv import obs_regex as R
    from pv import obs_tables as T

    def class_inv():
        obs = []
        for v, _ in T.grammar_files():
            obs += [o for o in R.tokenizer_obligations(v) if 'no-break' in o.name or ':shape' in o.name]
        obs += [o for o in R.prefix_obligations('3.10') if 'part-' in o.name or 'spacing-no-break' in o.name]
        return obs
    add_obs(report, class_inv)
    run_bounded(report, 'pos')
