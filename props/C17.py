from props.common import add_obs, ASSUME_BOUNDED, verify_keys
from pv import bounded as B
from pv import obs_effects as E

NAMES = ['bnd:C17.corrupt_is_miss', 'bnd:C17.repair', 'bnd:C17.fault_is_miss', 'bnd:C17.cleanup_spares_active', 'bnd:C17.two_processes']


def _raises():
    src_stat = ('OSError', 'file_io.get_last_modified')    # the *source* file cannot be stat'ed: not a cache fault
    return (E.raises_obligations('C17', ['parso.cache._load_from_file_system', 'parso.cache.try_to_save_module'], set()) +
            E.raises_obligations('C17', ['parso.cache.load_module'], {src_stat}))


def run(report):
    add_obs(report, _raises)
    # the disk load as a VC: no exception escapes whatever the primitives raise or return, a stale or foreign pickle is None
    verify_keys(report, ['parso.cache._load_from_file_system', 'parso.cache.try_to_save_module',
                         # a save that returns normally has written the item to the entry's file, whatever was there
                         'parso.cache._save_to_file_system',
                         # maintenance: only files not accessed for the survival time are removed; the lock file is the only
                         # file touched, in append mode; the automatic clean-up runs with the default threshold
                         'parso.cache.clear_inactive_cache', 'parso.cache._touch', 'parso.cache._get_cache_clear_lock_path',
                         'parso.cache._remove_cache_and_update_lock'])
    report.assume("trusted raises sets of the primitives (pv/obs_effects.py PRIM_RAISES): pickle.load may raise anything, "
                  "open/os.* raise OSError subclasses, pickle.dump raises OSError/PicklingError/RecursionError",
                  "exception-effect analysis pv/effects.py (explicit raises + primitive raises + callee raises, minus "
                  "enclosing handlers), name-based call graph",
                  "atomicity of the pickle write and two-process interleavings are outside the effect contracts: covered "
                  "only through 'any content of the cache file is a miss' (corruption enumeration)")
    res = B.run_script('harness.c17_run', ['--deep'] if report.tier != 'quick' else [])
    B.bounded_obligations(report, 'C17', NAMES, res, functions=['parso.cache.load_module', 'parso.cache._load_from_file_system',
                                                                 'parso.cache.try_to_save_module', 'parso.cache.clear_inactive_cache'])
    report.assume(ASSUME_BOUNDED)
