from props.common import run_bounded, verify_keys, add_obs
from pv import obs_classes as C

KEYS = ['parso.python.tree._StringComparisonMixin.__eq__', 'parso.python.tree._StringComparisonMixin.__hash__',
        'parso.tree.Leaf.start_pos.setter', 'parso.tree.Leaf.start_pos', 'parso.tree.Leaf.get_code',
        'parso.tree.BaseNode.get_code', 'parso.tree.BaseNode._get_code_for_children', 'parso.python.tree.Param.get_code',
        'parso.tree.Leaf.__init__', 'parso.tree.TypedLeaf.__init__', 'parso.tree.ErrorLeaf.__init__',
        'parso.tree.BaseNode.__init__', 'parso.tree.Node.__init__',
        # refactoring is an exact splice: the visit recursion computes the spec function rcode (contracts/refactor.py)
        'parso.normalizer.RefactoringNormalizer.visit', 'parso.normalizer.RefactoringNormalizer.visit_leaf',
        'parso.normalizer.Normalizer.visit#refactor', 'parso.normalizer.Normalizer.visit_leaf#refactor',
        'parso.normalizer.Normalizer._check_type_rules#refactor', 'parso.python.tree.Param.__init__',
        # ... down from the API: Grammar.refactor builds the normalizer on the map and walks the node
        'parso.grammar.Grammar.refactor', 'parso.normalizer.RefactoringNormalizer.__init__',
        'parso.normalizer.Normalizer.walk#refactor', 'parso.normalizer.Normalizer.initialize', 'parso.normalizer.Normalizer.finalize']


def run(report):
    add_obs(report, C.tree_protocol_obligations)
    verify_keys(report, KEYS)
    report.assume("A-BUILTIN: eval(repr(x)) == x for str/int/tuple, pickle preserves slots, __dict__ and cycles",
                  "the recursive text of _format_dump is decided by the bounded stand-in, not by discharged VCs",
                  "splice: RefactoringNormalizer.visit is proved to return rcode(map, node), the recursive spec function 'text of "
                  "the tree with every mapped node replaced by its string' (theory splice); dict lookup by a tree object is by "
                  "identity (_StringComparisonMixin.__eq__ contract); the mutual recursion visit -> Normalizer.visit -> visit "
                  "is verified for partial correctness (termination by tree height not checked across the two functions); "
                  "Grammar.refactor, the constructor and Normalizer.walk are verified on top of it: refactor(node, map) == rcode(map, node)")
    run_bounded(report, ['stmt'], scale=0.5)
