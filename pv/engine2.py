"""Statements, calls, loops and the per-function verification driver."""
import ast
import os
import time

import z3

from pv import classes, smt, source
from pv.contract import REG, FIELDS, THEORIES, SPECFNS, CLASS_INV, GHOST_ARRAYS, Contract, OWN_MAPS
from pv.core import Ob, DISCHARGED, REFUTED, UNDECIDED
from pv.engine import Engine, MAX_PATHS
from pv.evalx import from_py, lit_of
from pv.source import BindingError
from pv.state import State
from pv.values import (VMap, V, VInt, VBool, VStr, VNONE, VNoneT, VTuple, VRef, VList, VOpt, VPy, VFn, VAny,
                       OutOfSubset, fresh, fresh_name, kind_of, I, B, S)


# external functions whose result is an arbitrary value of a kind (no other effect on the modelled state)
EXTERNAL = {'time.time': 'int'}
TRACE = bool(os.environ.get('PV_TRACE'))


_COMPILED = {}


def _compiled(pat):
    import re as _re
    if pat not in _COMPILED:
        _COMPILED[pat] = _re.compile(pat)       # one object per pattern text: matches of it are one function of (text, position)
    return _COMPILED[pat]


class ClassSet:
    """One of a finite set of classes (which one is not tracked)."""

    def __init__(self, cs, conds=None):
        self.classes = list(cs) if conds is not None else list(dict.fromkeys(cs))
        self.conds = conds          # parallel list of z3 conditions (exactly one holds): which class it is

    def __repr__(self):
        return 'ClassSet(%s)' % ', '.join(c.__name__ for c in self.classes)


class Outcome:
    __slots__ = ('kind', 'st', 'val', 'exc', 'site')

    def __init__(self, kind, st, val=None, exc=None, site=None):
        self.kind, self.st, self.val, self.exc, self.site = kind, st, val, exc, site


EXC_PARENTS = {
    'KeyError': ['LookupError', 'Exception'], 'IndexError': ['LookupError', 'Exception'],
    'AttributeError': ['Exception'], 'ValueError': ['Exception'], 'TypeError': ['Exception'],
    'AssertionError': ['Exception'], 'ZeroDivisionError': ['ArithmeticError', 'Exception'],
    'StopIteration': ['Exception'], 'NotImplementedError': ['RuntimeError', 'Exception'],
    'FileNotFoundError': ['OSError', 'Exception'], 'PermissionError': ['OSError', 'Exception'],
    'OSError': ['Exception'], 'LookupError': ['Exception'], 'UnicodeDecodeError': ['ValueError', 'Exception'],
}


def exc_matches(exc, handler_names):
    if handler_names is None:
        return True
    fam = [exc] + EXC_PARENTS.get(exc, ['Exception']) + ['BaseException']
    return any(h in fam for h in handler_names)


class Verifier(Engine):
    # ================================================================== specification evaluation
    def spec_eval(self, st, text, ctr=None, extra_env=None):
        """Evaluate a clause string to a z3 Bool in (a copy of) st; total, no side conditions."""
        node = (ctr or self.ctr).parse(text)
        s = st.fork()
        s.spec = True
        s.guards = []
        s.pend = []
        if extra_env:
            s.env.update(extra_env)
        v = self.ev.ev(s, node)
        # assumptions introduced while evaluating (e.g. callee contracts used inside the clause)
        new_pc = s.pc[len(st.pc):]
        t = self.ev.truthy(s, v)
        return t, new_pc

    def spec_value(self, st, text, ctr=None, extra_env=None):
        node = (ctr or self.ctr).parse(text)
        s = st.fork()
        s.spec = True
        s.guards = []
        if extra_env:
            s.env.update(extra_env)
        v = self.ev.ev(s, node)
        return v, s.pc[len(st.pc):]

    def assume_clause(self, st, text, ctr=None, extra_env=None):
        t, new = self.spec_eval(st, text, ctr, extra_env)
        for f in new:
            st.assume(f)
        st.assume(t)

    # ================================================================== calls
    def call_expr(self, st, e):
        f = e.func
        # super().m(...)
        if isinstance(f, ast.Attribute) and isinstance(f.value, ast.Call) and isinstance(f.value.func, ast.Name) \
                and f.value.func.id == 'super':
            return self.call_super(st, f.attr, e)
        if any(isinstance(a, ast.Starred) for a in e.args) or any(k.arg is None for k in e.keywords):
            raise OutOfSubset('star arguments')
        if isinstance(f, ast.Attribute) and isinstance(f.value, ast.Name) and f.value.id == 'self' \
                and f.attr in self.ctr.attr_calls:
            # a callable stored in an attribute of self at construction time (parser class, tokenizer function): called
            # through the contract the caller's contract names for it (an assumption about what the attribute holds)
            args = [self.ev.ev(st, a) for a in e.args]
            kwargs = {k.arg: self.ev.ev(st, k.value) for k in e.keywords}
            self.calls_reached += 1
            return self.call_contract(st, self.ctr.attr_calls[f.attr], args, kwargs)
        fv = self.ev.ev(st, f)
        # generator expression arguments stay syntactic
        args = [self.ev.ev(st, a) if not isinstance(a, ast.GeneratorExp) else VFn('genexp', node=a, env={}) for a in e.args]
        kwargs = {k.arg: self.ev.ev(st, k.value) for k in e.keywords}
        return self.call_value(st, fv, args, kwargs, e)

    def call_super(self, st, attr, e):
        if self.clsname is None:
            raise OutOfSubset('super() outside a class')
        c = classes.get(self.clsname)
        mro = list(c.__mro__[1:])
        sargs = e.func.value.args
        if sargs:
            # super(Class, self): the search starts after Class in the MRO of self's class
            if len(sargs) != 2 or not isinstance(sargs[0], ast.Name) or not isinstance(sargs[1], ast.Name) or sargs[1].id != 'self':
                raise OutOfSubset('super() with unusual arguments')
            names = [k.__name__ for k in c.__mro__]
            if sargs[0].id not in names:
                raise OutOfSubset('super(%s, self): not a base class' % sargs[0].id)
            mro = list(c.__mro__[names.index(sargs[0].id) + 1:])
        for k in mro:
            if attr in vars(k):
                q = '%s.%s.%s' % (k.__module__, k.__qualname__, attr)
                args = [self.ev.ev(st, a) for a in e.args]
                kwargs = {kw.arg: self.ev.ev(st, kw.value) for kw in e.keywords}
                if k is object:
                    return VNONE
                return self.call_contract(st, q, [st.env['self']] + args, kwargs)
        raise OutOfSubset('super().%s not found' % attr)

    def call_value(self, st, fv, args, kwargs, e=None):
        self.calls_reached += 1
        if isinstance(fv, VFn):
            k = fv.kind
            if k == 'builtin':
                return self.call_builtin(st, fv.name, args, kwargs, e)
            if k == 'spec':
                return SPECFNS[fv.name](self, st, *args)
            if k == 'lmethod':
                if isinstance(fv.recv, VStr):
                    return self.str_method(st, fv.recv, fv.name, args)
                if isinstance(fv.recv, VMap):
                    return self.map_method(st, fv.recv, fv.name, args)
                return self.list_method(st, fv.recv, fv.name, args)
            if k == 'func':
                return self.call_contract(st, fv.qual, args, kwargs)
            if k == 'bound':
                return self.call_contract(st, fv.qual, [fv.recv] + args, kwargs)
            if k == 'closure':
                return self.call_closure(st, fv, args, kwargs)
            if k == 're_match':
                return self.re_match(st, fv.pat, args)
            if k == 're_group':
                return self.re_group(st, fv.m, args)
            if k in ('re_end', 're_start'):
                return self.re_pos(st, fv.m, args, k[3:])
            if k == 're_span':
                return VTuple([self.re_pos(st, fv.m, args, 'start'), self.re_pos(st, fv.m, args, 'end')])
            if k == 'constdict_get':
                # <constant dict>.get(key, default) with a symbolic key: one of the values or the default -- which one is
                # left open (sound over-approximation); only class-valued dicts are supported
                import inspect
                if not fv.d:
                    return args[1] if len(args) > 1 else VNONE      # empty constant dict: always the default
                vals = list(fv.d.values())
                if len(args) > 1:
                    d = args[1]
                    if not isinstance(d, VPy):
                        raise OutOfSubset('dict.get default of kind %s' % kind_of(d))
                    vals.append(d.obj)
                if not vals or not all(inspect.isclass(v) for v in vals):
                    raise OutOfSubset('dict.get on a constant dict whose values are not classes')
                # which value it is follows the key: key is k_i  ->  the i-th class; no key matches -> the default
                try:
                    hits = [self.ev.identical(st, args[0], from_py(k_)) for k_ in fv.d.keys()]
                    conds = list(hits)
                    if len(args) > 1:
                        conds.append(z3.Not(z3.Or(hits)))
                    return VPy(ClassSet(vals, conds))
                except OutOfSubset:
                    return VPy(ClassSet(vals))
            if k == 'lambda' and st.spec:
                return self.call_lambda(st, fv, args)
            raise OutOfSubset('call of %s' % k)
        if isinstance(fv, VPy):
            import inspect
            o = fv.obj
            if isinstance(o, ClassSet):
                return self.construct_any(st, o, args, kwargs)
            if inspect.isclass(o):
                return self.construct(st, o, args, kwargs)
            import re as _re
            import ast as _ast
            if o is _ast.literal_eval and len(args) == 1 and isinstance(args[0], VStr) and args[0].lit() is not None:
                return from_py(_ast.literal_eval(args[0].lit()))           # a literal of a literal: evaluated here
            if o is _re.match and len(args) >= 2 and isinstance(args[0], VStr) and args[0].lit() is not None:
                # re.match(<literal pattern>, s): the match model of that pattern, compiled here
                pl = args[0].lit()
                return self.re_match(st, VPy(_compiled(pl.encode('latin-1') if args[0].b else pl)), args[1:])
            ext = '%s.%s' % (getattr(o, '__module__', ''), getattr(o, '__name__', ''))
            if inspect.ismethod(o):
                ext = '%s.%s' % (type(o.__self__).__module__, o.__qualname__)
            if 'ext:' + ext in REG:
                self.havocked.append('ext:' + ext)
                return self.call_contract(st, 'ext:' + ext, args, kwargs)
            if ext in EXTERNAL:
                self.havocked.append('ext:' + ext)
                return fresh(EXTERNAL[ext], ext.replace('.', '_'))
            raise OutOfSubset('call of constant %r' % (o,))
        raise OutOfSubset('call of %s' % kind_of(fv))

    def call_lambda(self, st, fv, args):
        s = st
        saved = dict(s.env)
        s.env.update(fv.env)
        for a, v in zip(fv.node.args.args, args):
            s.env[a.arg] = v
        try:
            return self.ev.ev(s, fv.node.body)
        finally:
            s.env = saved

    def call_builtin(self, st, name, args, kwargs, e):
        if name == 'len':
            a = args[0]
            if isinstance(a, VStr):
                return VInt(z3.Length(a.t))
            if isinstance(a, VList):
                return VInt(st.llen(a.t))
            if isinstance(a, VTuple):
                return VInt(len(a.items))
            if isinstance(a, VPy):
                return VInt(len(a.obj))
            if isinstance(a, VMap):
                # the number of entries: an uninterpreted function of the key set (equal key sets, equal sizes; >= 0)
                row = st._marr(a.t, 'has', a.kk)[2]
                n = z3.Function('$msize' + ('S' if a.kk == 'str' else 'R'), row.sort(), I)(row)
                st.pc.append(n >= 0)
                return VInt(n)
            raise OutOfSubset('len of %s' % kind_of(a))
        if name == 'isinstance':
            return VBool(self.isinstance_(st, args[0], args[1]))
        if name == 'getattr' and len(args) == 2 and isinstance(args[1], VStr) and args[1].lit() is not None \
                and isinstance(args[0], VRef):
            # getattr(obj, 'literal'): the attribute read obj.literal
            return self.get_attr(st, args[0], args[1].lit())
        if name == 'str' and len(args) == 3 and isinstance(args[0], VStr) and args[0].b \
                and isinstance(args[1], VStr) and isinstance(args[2], VStr):
            # str(bytes, encoding, errors): the codec machinery is external -- decode() is uninterpreted; it raises
            # LookupError for an unknown codec name and UnicodeDecodeError for undecodable input under errors='strict'
            b_, enc, err = args
            known = z3.Function('$known_codec', S, B)(enc.t)
            st.pc.append(z3.Function('$known_codec', S, B)(z3.StringVal('utf-8')))
            st.pc.append(z3.Function('$known_codec', S, B)(z3.StringVal('ascii')))
            st.may_raise(z3.Not(known), 'LookupError', 'unknown encoding')
            st.may_raise(z3.And(known, err.t == z3.StringVal('strict'),
                                z3.Not(z3.Function('$decodable', S, S, B)(b_.t, enc.t))), 'UnicodeDecodeError', 'undecodable bytes')
            return VStr(z3.Function('$decode', S, S, S, S)(b_.t, enc.t, err.t))
        if name == 'int':
            a = args[0]
            if isinstance(a, VBool):
                return VInt(z3.If(a.t, 1, 0))
            if isinstance(a, VInt):
                return a
            if isinstance(a, VPy) and isinstance(a.obj, tuple) and a.obj[0] == 'float-div':
                # int(x / y) for ints: exact while |x| < 2**53 (A-INT); truncation toward zero
                x, y = a.obj[1], a.obj[2]
                q = x / y          # z3 Euclidean division
                trunc = z3.If(z3.And(x < 0, x % y != 0), z3.If(y > 0, q + 1, q - 1), q)
                return VInt(trunc)
            raise OutOfSubset('int() of %s' % kind_of(a))
        if name == 'bool':
            return VBool(self.ev.truthy(st, args[0]))
        if name in ('min', 'max') and len(args) == 2 and all(isinstance(a, VInt) for a in args):
            a, b = args[0].t, args[1].t
            return VInt(z3.If(a <= b, a, b) if name == 'min' else z3.If(a >= b, a, b))
        if name == 'tuple' and len(args) == 1 and isinstance(args[0], VTuple):
            return args[0]
        if name == 'hash':
            a = args[0]
            if isinstance(a, VStr):
                return VInt(z3.Function('$hash_str', S, I)(a.t))
            if isinstance(a, VTuple) and all(isinstance(x, VInt) for x in a.items):
                f = z3.Function('$hash_t%d' % len(a.items), *([I] * (len(a.items) + 1)))
                return VInt(f(*[x.t for x in a.items]))
            raise OutOfSubset('hash of %s' % kind_of(a))
        if name == 'list' and len(args) == 1 and isinstance(args[0], VList):
            src = args[0]
            l = st.alloc('copy')
            st.wr('$len', l, st.llen(src.t))
            st.lset_all(l, st.larr(src.t, src.ek), src.ek)
            return VList(l, src.ek)
        if name == 'list' and not args:
            return self.new_list(st, [])
        if name in ('any', 'all') and e is not None and isinstance(e.args[0], ast.GeneratorExp):
            return self.quant_genexp(st, name, e.args[0])
        if name == 'sum' and e is not None and isinstance(e.args[0], ast.GeneratorExp):
            r = fresh('int', 'sum')          # a sum of lengths: some non-negative integer
            st.assume(r.t >= 0)
            return r
        if name == 'open' and 'ext:io.open' in REG:
            self.havocked.append('ext:io.open')
            return self.call_contract(st, 'ext:io.open', args, kwargs)
        raise OutOfSubset('builtin %s' % name)

    def quant_genexp(self, st, name, g):
        if len(g.generators) != 1 or g.generators[0].ifs or not isinstance(g.generators[0].target, ast.Name):
            raise OutOfSubset('generator expression shape')
        it = self.ev.ev(st, g.generators[0].iter)
        if not isinstance(it, VList):
            raise OutOfSubset('generator over %s' % kind_of(it))
        k = z3.Int(fresh_name('k'))
        s = st.fork()
        s.spec = True
        s.env[g.generators[0].target.id] = self.elem_value(st.lget(it.t, k, it.ek), it.ek)
        body = self.ev.truthy(s, self.ev.ev(s, g.elt))
        rng = z3.And(0 <= k, k < st.llen(it.t))
        if name == 'any':
            return VBool(z3.Exists([k], z3.And(rng, body)))
        return VBool(z3.ForAll([k], z3.Implies(rng, body)))

    def isinstance_(self, st, v, cv):
        import inspect
        if isinstance(cv, VTuple):
            return z3.Or([self.isinstance_(st, v, c) for c in cv.items])
        if isinstance(cv, VFn) and cv.kind == 'builtin' and cv.name in ('str', 'int', 'tuple', 'bool', 'list'):
            cv = VPy({'str': str, 'int': int, 'tuple': tuple, 'bool': bool, 'list': list}[cv.name])
        if not isinstance(cv, VPy):
            raise OutOfSubset('isinstance with symbolic class')
        c = cv.obj
        if isinstance(c, tuple):
            return z3.Or([self.isinstance_(st, v, VPy(x)) for x in c])
        if c is str:
            return z3.BoolVal(isinstance(v, VStr) and not v.b)
        if c is bytes:
            return z3.BoolVal(isinstance(v, VStr) and v.b)
        if c is int:
            return z3.BoolVal(isinstance(v, (VInt, VBool)))
        if c is tuple:
            return z3.BoolVal(isinstance(v, VTuple))
        if c is bool:
            return z3.BoolVal(isinstance(v, VBool))
        if isinstance(v, (VStr, VInt, VBool, VTuple, VNoneT, VList)):
            return z3.BoolVal(False)
        if isinstance(v, VRef) and inspect.isclass(c):
            sc = classes.get(v.cls) if v.cls else None
            if sc is not None and issubclass(sc, c):
                return v.t != 0
            if sc is not None and not issubclass(c, sc) and not self._may_share_subclass(sc, c):
                return z3.BoolVal(False)
            return z3.And(v.t != 0, z3.Function('$isinst_' + c.__name__, I, B)(v.t))
        raise OutOfSubset('isinstance(%s, %r)' % (kind_of(v), c))

    @staticmethod
    def _may_share_subclass(a, b):
        return any(issubclass(k, a) and issubclass(k, b) for k in classes.table().values())

    # ---- construction of objects: allocate, then run __init__ through its contract (or inline)
    def construct(self, st, cls, args, kwargs):
        name = cls.__name__
        if classes.get(name) is not cls:
            raise OutOfSubset('construction of %r' % cls)
        if issubclass(cls, list) and '__init__' not in vars(cls) and '__new__' not in vars(cls):
            # a list subclass without its own constructor: list(iterable) -- a fresh list with the same elements
            if kwargs or len(args) > 1:
                raise OutOfSubset('list subclass constructor arguments')
            if not args:
                return self.new_list(st, [])
            src = args[0]
            if not isinstance(src, VList):
                raise OutOfSubset('list subclass built from %s' % kind_of(src))
            l = st.alloc(name.lower())
            st.wr('$len', l, st.llen(src.t))
            st.lset_all(l, st.larr(src.t, src.ek), src.ek)
            return VList(l, src.ek)
        r = st.alloc(name.lower())
        ref = VRef(r, name)
        for u in ('$isinst_' + k.__name__ for k in classes.table().values()):
            pass
        # exact class facts for isinstance tests -- for the classes of the same hierarchy (sharing a base other than
        # object); membership in unrelated hierarchies is left open (sound, and keeps the path condition small)
        fam = {b for b in cls.__mro__ if b is not object}
        for k in classes.table().values():
            if issubclass(cls, k) or fam & {b for b in k.__mro__ if b is not object}:
                st.pc.append(z3.Function('$isinst_' + k.__name__, I, B)(r) == z3.BoolVal(issubclass(cls, k)))
        st.pc.append(z3.Function('$exact_' + name, I, B)(r))
        if hasattr(cls, '_fields') and issubclass(cls, tuple):
            # NamedTuple: positional / keyword fields, stored as fields of the new object
            fields_ = list(cls._fields)
            vals = dict(zip(fields_, args))
            vals.update(kwargs)
            if set(vals) != set(fields_):
                raise OutOfSubset('namedtuple %s constructed with fields %r' % (name, sorted(vals)))
            for f_ in fields_:
                fk = self.field_kind(name, f_)
                if fk is None:
                    raise OutOfSubset('field %s of %s has no declared kind' % (f_, name))
                self.write_field(st, r, self.storage(name, f_), fk, self.coerce(vals[f_], fk, st))
            return ref
        q = classes.qualname(name, '__init__')
        if q is None or q.endswith('object.__init__'):
            return ref
        self.call_contract(st, q, [ref] + args, kwargs)
        return ref

    def construct_any(self, st, cs, args, kwargs):
        """Construction of an instance of one of several classes that share their __init__ (class-table check)."""
        inits = {classes.qualname(c.__name__, '__init__') for c in cs.classes}
        if (len(inits) != 1 and cs.conds is None) or None in inits:
            raise OutOfSubset('classes %r do not share one __init__' % sorted(c.__name__ for c in cs.classes))
        common = [k for k in cs.classes[0].__mro__ if all(issubclass(c, k) for c in cs.classes)][0]
        r = st.alloc(common.__name__.lower())
        ref = VRef(r, common.__name__)
        for k in classes.table().values():
            if all(issubclass(c, k) for c in cs.classes):
                st.pc.append(z3.Function('$isinst_' + k.__name__, I, B)(r))
            elif cs.conds is not None:
                # the class follows the lookup key: an instance of k exactly when the chosen class derives from k
                st.pc.append(z3.Function('$isinst_' + k.__name__, I, B)(r) ==
                             z3.Or([c_ for c_, cl in zip(cs.conds, cs.classes) if issubclass(cl, k)] or [z3.BoolVal(False)]))
        if len(inits) == 1:
            self.call_contract(st, inits.pop(), [ref] + args, kwargs)
            return ref
        # several constructors: each one's contract applies under "the chosen class uses this constructor"
        for q in sorted(inits):
            cond = z3.Or([c_ for c_, cl in zip(cs.conds, cs.classes) if classes.qualname(cl.__name__, '__init__') == q])
            st.guards.append(cond)
            try:
                self.call_contract(st, q, [ref] + args, kwargs)
            finally:
                st.guards.pop()
        return ref

    # ---- contract call: assert pre, havoc, assume post
    def bind_args(self, ctr, fn_node, args, kwargs, st):
        """Map positional/keyword arguments onto the parameter names of the real def."""
        a = fn_node.args
        names = [x.arg for x in a.posonlyargs + a.args]
        defaults = a.defaults
        nd = len(defaults)
        bound = {}
        for n, v in zip(names, args):
            bound[n] = v
        if len(args) > len(names):
            if a.vararg is None:
                raise OutOfSubset('too many positional arguments')
            bound[a.vararg.arg] = VTuple(args[len(names):])
        elif a.vararg is not None:
            bound[a.vararg.arg] = VTuple([])
        kwnames = [x.arg for x in a.kwonlyargs]
        for k, v in kwargs.items():
            if k not in names and k not in kwnames:
                raise OutOfSubset('unexpected keyword %s' % k)
            bound[k] = v
        for i, n in enumerate(names):
            if n not in bound:
                di = i - (len(names) - nd)
                if di < 0:
                    raise OutOfSubset('missing argument %s' % n)
                bound[n] = self.const_default(defaults[di])
        for n, d in zip(kwnames, a.kw_defaults):
            if n not in bound:
                if d is None:
                    raise OutOfSubset('missing keyword-only argument %s' % n)
                bound[n] = self.const_default(d)
        return bound

    def const_default(self, node):
        try:
            return from_py(ast.literal_eval(node))
        except Exception:  # noqa
            pass
        # a module-level constant of the callee's module (evaluated when the def was executed; module constants are taken
        # as never rebound, as everywhere else)
        mod = getattr(self, '_callee_mod', None)
        if isinstance(node, ast.Name) and mod:
            import importlib
            v = getattr(importlib.import_module(mod), node.id, self)
            if v is None or isinstance(v, (int, str, bool)):
                return from_py(v)
        raise OutOfSubset('non-literal default argument')

    def coerce(self, v, kind, st):
        """View an argument value as the kind the callee's contract declares."""
        if kind is None or kind == 'any':
            return v
        if isinstance(v, VOpt) and not kind.startswith('opt:'):
            return self.coerce(v.val, kind, st)       # the path condition decides whether it can be None here
        if kind.startswith('tuple:') and isinstance(v, VTuple):
            from pv.values import split_kinds
            ks = []
            rest = kind[6:]
            # element kinds are separated by commas; 'ref:X' and 'list:..' contain no commas
            ks = [k.strip() for k in rest.split(',')]
            if len(ks) == len(v.items):
                return VTuple([self.coerce(x, k, st) for x, k in zip(v.items, ks)])
            return v
        if kind == 'pos' and isinstance(v, VTuple):
            return v
        if kind.startswith('ref') and isinstance(v, VRef):
            want = kind[4:] or None
            if want and (v.cls is None or not classes.is_subclass(v.cls, want)):
                return VRef(v.t, want if v.cls is None or classes.is_subclass(want, v.cls) else v.cls)
            return v
        if kind.startswith('ref') and isinstance(v, VNoneT):
            return VRef(z3.IntVal(0), kind[4:] or None)
        if kind.startswith('opt:') and not isinstance(v, VOpt):
            if isinstance(v, VNoneT):
                return VOpt(z3.BoolVal(True), fresh(kind[4:]))
            return VOpt(z3.BoolVal(False), v)
        # a definite value of another type than the declared one: the contract does not describe this call (assuming
        # its postcondition would be unsound, e.g. `self.f == arg` between a str field and an object is just False)
        if isinstance(v, VList) and v.ek == 'any' and kind.startswith('list:'):
            return VList(v.t, kind[5:])          # an empty list literal takes the declared element kind
        if isinstance(v, VTuple) and kind.startswith('list:') and kind[5:] in ('str', 'int') and \
                all(isinstance(x, {'str': VStr, 'int': VInt}[kind[5:]]) for x in v.items):
            # the tuple of a *args parameter read as a sequence of its elements (only `in` / indexing are used on it)
            return self.new_list(st, list(v.items), kind[5:])
        base = kind.split(':')[0]
        want = {'str': (VStr,), 'int': (VInt, VBool), 'bool': (VBool,), 'pos': (VTuple,), 'ref': (VRef, VNoneT, VPy),
                'list': (VList, VRef, VNoneT)}.get(base)
        if want is not None and isinstance(v, (VStr, VInt, VBool, VTuple, VRef, VList, VMap)) and not isinstance(v, want):
            raise OutOfSubset('argument of kind %s where the contract declares %s' % (kind_of(v), kind))
        return v

    def call_contract(self, st, qual, args, kwargs, is_property=False, setter=False):
        key = qual + ('.setter' if setter else '')
        key = self.ctr.call_keys.get(key, key)
        ctr = REG.get(key)
        if ctr is None:
            raise BindingError('call to %s: no contract' % key)
        if key in self.ctr.inline:
            return self.call_inline(st, qual, ctr, args, kwargs, setter)
        if ctr.trusted:
            smt.STATS.setdefault('trusted_used', set()).add(key)       # reported per property in the evidence
        fn_node = None
        try:
            fn_node, self._callee_mod, _ = source.find_def(qual, 'setter' if setter else None)
        except BindingError:
            if not (ctr.trusted and (ctr.params or key.startswith('ext:'))):
                raise
        if fn_node is None:
            names = list(ctr.params)
            bound = dict(zip(names, args))
            bound.update(kwargs)
            for n in names:
                if n not in bound:
                    raise OutOfSubset('trusted contract %s: missing argument %s' % (qual, n))
        else:
            bound = self.bind_args(ctr, fn_node, args, kwargs, st)
        for n, k in ctr.params.items():
            if n in bound:
                bound[n] = self.coerce(bound[n], k, st)
        env = dict(bound)
        for n_ in ctr.free:                       # a closure sees the enclosing function's variables
            if n_ in st.env:
                env[n_] = st.env[n_]
            elif n_ in self.closure_env:
                env[n_] = self.closure_env[n_]
        pre_state = st.fork()
        pre_state.env = env
        # preconditions are obligations of the caller
        site = self.cur_site
        if not st.spec:
            for i, r in enumerate(ctr.requires):
                t, new = self.spec_eval(pre_state, r, ctr)
                g = st.fork()
                for f in new:
                    g.pc.append(f)
                self.oblige('pre@%s[%d]@s%s' % (qual.split('.', 1)[-1], i, site), g, t)
            if ctr.decreases and (key == self.key or key == self.ctr.refines or key == getattr(self, 'refines_key', None)):
                m_new, _ = self.spec_value(pre_state, ctr.decreases, ctr)
                m_old, _ = self.spec_value(self.entry, ctr.decreases, ctr)
                self.oblige('dec:recursion@s%s' % site, st, z3.And(m_new.t >= 0, m_new.t < m_old.t))
        # a pure callee whose contract is `result == <expr>` is used as that expression (no fresh symbol: the call may
        # occur under a quantifier, e.g. __eq__ inside `x in list`)
        if ctr.eq_on_ref == 'contract' and len(ctr.ensures) == 1 and not ctr.modifies:
            node = ctr.parse(ctr.ensures[0])
            if isinstance(node, ast.Compare) and isinstance(node.left, ast.Name) and node.left.id == 'result' \
                    and len(node.ops) == 1 and isinstance(node.ops[0], ast.Eq):
                s2 = st.fork()
                s2.env = dict(env)
                s2.spec = True
                v = self.ev.ev(s2, node.comparators[0])
                for f in s2.pc[len(st.pc):]:
                    st.assume(f)
                return v
        # list objects the callee may change: every other list keeps its length and elements
        if ctr.lists is not None:
            refs = []
            for ex in ([] if ctr.lists == '*' else ctr.lists):
                v, _ = self.spec_value(pre_state, ex, ctr)
                refs.append(v.t)
            l = z3.Int(fresh_name('l'))
            for f in ('$len', '$elR', '$elS'):
                old = st.heap.get(f)
                if old is None:
                    old = self.init_heap.get(f)
                if old is None:
                    continue
                new = z3.Const(fresh_name('H_' + f), old.sort())
                # (under a guard -- a constructor chosen by a table key -- the havoc only happens when the guard holds)
                st.heap[f] = z3.If(z3.And(st.guards), new, old) if st.guards else new
                keep = z3.And([l != r for r in refs]) if refs else z3.BoolVal(True)
                if ctr.lists != '*':        # '*': any list may change, nothing is kept
                    st.pc.append(smt.forall([l], z3.Implies(keep, z3.Select(new, l) == z3.Select(old, l)), patterns=[z3.Select(new, l)]))
                if f == '$len':
                    st.pc.append(smt.forall([l], z3.Select(new, l) >= 0, patterns=[z3.Select(new, l)]))
            # the callee may allocate
            olda = st.arr('$alloc', z3.ArraySort(I, B))
            newa = z3.Const(fresh_name('H_alloc'), olda.sort())
            o_ = z3.Int(fresh_name('o'))
            st.pc.append(z3.ForAll([o_], z3.Implies(z3.Select(olda, o_), z3.Select(newa, o_))))
            st.heap['$alloc'] = z3.If(z3.And(st.guards), newa, olda) if st.guards else newa
        # havoc what the callee may modify
        for fld in [x for f_ in ctr.modifies for x in (('$mhasS', '$mvalS', '$mhasR', '$mvalR') if f_ == '$maps' else (f_,))]:
            if '.' in fld and not fld.startswith('$'):
                # 'param.field': only that object's field changes (frame: every other object keeps its value)
                pn, fn_ = fld.split('.', 1)
                tgt = env.get(pn)
                if not isinstance(tgt, VRef):
                    raise OutOfSubset('modifies %s: %s is not an object' % (fld, pn))
                kind = self.field_kind(tgt.cls, fn_)
                if kind is None:
                    raise BindingError('modifies %s: unknown field' % fld)
                self.write_field(st, tgt.t, self.storage(tgt.cls, fn_), kind, fresh(kind, 'mod_' + fn_))
            else:
                self.havoc_field(st, fld)
        res = fresh(ctr.returns, 'r_' + qual.rsplit('.', 1)[-1]) if ctr.returns != 'none' else VNONE
        if ctr.fresh_result and isinstance(res, (VRef, VList)):
            r = st.alloc('res')
            res = VRef(r, res.cls) if isinstance(res, VRef) else VList(r, res.ek)
        post_state = st.fork()
        post_state.env = dict(env)
        post_state.env['result'] = res
        if getattr(self, '_yf', None) is not None:
            # `yield from` of a generator: its accumulators get their final values (fresh), its bound environment is
            # handed back for the treatment of the yielded values
            for a_ in ctr.yield_acc:
                post_state.env[a_] = VInt(z3.Int(fresh_name('tot_' + a_)))
            self._yf.update(ctr=ctr, env=dict(env), post_env=post_state.env)
        old_state = pre_state
        # exceptions the callee may raise: the postcondition describes normal return only, so it is assumed under
        # "no exception escaped"; each exceptional exit sees the havocked state and what raises_ensures says of `exc`
        raise_conds = []
        if not st.spec:
            for exc in ctr.raises:
                cond_text = ctr.exc_ensures.get(exc)
                c = z3.Bool(fresh_name('raises_' + exc))
                if cond_text is not None:
                    only, _ = self.spec_eval(pre_state, cond_text, ctr)
                    st.pc.append(z3.Implies(c, only))
                val, facts = None, []
                clauses = ctr.raises_ensures.get(exc)
                if clauses and classes.get(exc) is not None:
                    xr = st.alloc(exc.lower())
                    val = VRef(xr, exc)
                    xs = st.fork()
                    xs.env = dict(env)
                    xs.env['exc'] = val
                    self._old_stack.append(old_state)
                    try:
                        for cl in clauses:
                            t, new = self.spec_eval(xs, cl, ctr)
                            facts += list(new) + [t]
                    finally:
                        self._old_stack.pop()
                raise_conds.append((c, exc, val, facts))
        normal = z3.Not(z3.Or([c for c, _, _, _ in raise_conds])) if raise_conds else None
        self._old_stack.append(old_state)
        try:
            for ens in ctr.ensures:
                t, new = self.spec_eval(post_state, ens, ctr)
                for f in new:
                    st.assume(f)
                st.assume(t if normal is None else z3.Implies(normal, t))
        finally:
            self._old_stack.pop()
        for c, exc, val, facts in raise_conds:
            st.may_raise(c, exc, 'call %s' % qual, val, facts)
        return res

    def havoc_field(self, st, fld):
        # every heap map that stores an attribute of this name: the shared one and the class-qualified ones (a plain name in
        # `modifies` means the attribute of any object)
        names = []
        if fld.startswith('$'):
            names = [(fld, None)]
        else:
            stores = [(fld, FIELDS.get(fld))] if fld in FIELDS else []
            stores += [('%s.%s' % (k[0], fld), v) for k, v in FIELDS.items()
                       if isinstance(k, tuple) and k[1] == fld and (v != FIELDS.get(fld) or k in OWN_MAPS)]
            if not stores:
                stores = [(fld, None)]
            for nm, kind in stores:
                if kind == 'pos':
                    names += [(nm + '.0', 'int'), (nm + '.1', 'int')]
                elif kind and kind.startswith('opt:'):
                    names += [(nm, kind[4:]), (nm + '.isnone', 'bool')]
                else:
                    names.append((nm, kind))
        for n, kind in names:
            old = st.heap.get(n)
            if old is None:
                old = self.init_heap.get(n)
            if old is None and n in GHOST_ARRAYS:
                old = st.arr(n, GHOST_ARRAYS[n])      # a ghost array not read yet: later reads must see the havocked one
            if old is None and kind is not None:
                # not read on this path yet: it has to exist now, or a later read would see the entry state
                rng = B if kind == 'bool' else (z3.StringSort() if kind == 'str' else I)
                old = st.arr(n, z3.ArraySort(I, rng))
            if old is None:
                continue
            new_ = z3.Const(fresh_name('H_' + n), old.sort())
            st.heap[n] = z3.If(z3.And(st.guards), new_, old) if st.guards else new_
            if n == '$len':
                l = z3.Int(fresh_name('l'))
                st.pc.append(smt.forall([l], z3.Select(new_, l) >= 0, patterns=[z3.Select(new_, l)]))
        self.havocked.append(fld)

    def call_inline(self, st, qual, ctr, args, kwargs, setter):
        """Execute the callee's real body in place (small helpers, property setters, closures)."""
        fn_node, mod, cls = source.find_def(qual, 'setter' if setter else None)
        bound = self.bind_args(ctr, fn_node, args, kwargs, st)
        for n, k in ctr.params.items():
            if n in bound:
                bound[n] = self.coerce(bound[n], k, st)
        return self.run_inline(st, fn_node, bound, cls, mod)

    def run_inline(self, st, fn_node, bound, cls=None, mod=None):
        saved_env, saved_cls, saved_mod = st.env, self.clsname, self.live_mod
        st.env = dict(bound)
        if cls is not None:
            self.clsname = cls
        if mod is not None:
            import importlib
            self.live_mod = importlib.import_module(mod)
        try:
            outs = self.exec_block(st, fn_node.body)
        finally:
            self.clsname, self.live_mod = saved_cls, saved_mod
        # inline calls appear inside expression evaluation: only single-path callees are supported there
        rets = [o for o in outs if o.kind in ('ret', 'ok')]
        excs = [o for o in outs if o.kind == 'exc']
        if len(rets) != 1 or excs:
            raise OutOfSubset('inlined callee with several paths')
        o = rets[0]
        st.pc, st.heap = o.st.pc, o.st.heap
        st.env = saved_env
        return o.val if o.kind == 'ret' and o.val is not None else VNONE

    def call_closure(self, st, fv, args, kwargs):
        if fv.qual in self.ctr.inline:
            # a local helper that reads the enclosing function's variables: executed in place, in the current environment
            fn_node = fv.node
            if fn_node.args.args or fn_node.args.kwonlyargs or args or kwargs:
                raise OutOfSubset('inlined closure with parameters')
            return self.run_inline(st, fn_node, dict(st.env))
        ctr = REG.get(fv.qual)
        if ctr is None:
            raise BindingError('closure %s has no contract' % fv.qual)
        return self.call_contract(st, fv.qual, args, kwargs)

    # ================================================================== statements
    cur_site = 0
    _old_stack = []

    def exec_block(self, st, body):
        """-> list of Outcome"""
        live = [st]
        done = []
        for stmt in body:
            nxt = []
            for s in live:
                for o in self.exec_stmt(s, stmt):
                    if o.kind == 'ok':
                        nxt.append(o.st)
                    else:
                        done.append(o)
            live = nxt
            if not live:
                break
        return done + [Outcome('ok', s) for s in live]

    def split_pend(self, st):
        """Fork on the pending exception conditions of the expressions just evaluated."""
        outs = []
        pend, st.pend = st.pend, []
        for cond, exc, site, val, facts in pend:
            if z3.is_false(z3.simplify(cond)):
                continue
            r = st.fork()
            r.pc.append(cond)
            r.pc += list(facts)
            if smt.feasible(r.pc):
                outs.append(Outcome('exc', r, val=val, exc=exc, site='%s@s%s' % (site, self.cur_site)))
            else:
                self.note('safe:%s@s%s' % (exc, self.cur_site), DISCHARGED, site)
            st.pc.append(z3.Not(cond))
        return outs

    def exec_stmt(self, st, stmt):
        self.paths += 1
        if TRACE and self.paths % 200 == 0:
            import sys as _sys
            print('[trace] %s: %d statements, %d obligations, line %s' % (self.qual.rsplit('.', 1)[-1], self.paths, len(self.obs),
                  getattr(stmt, 'lineno', '?')), file=_sys.stderr, flush=True)
        if self.paths > MAX_PATHS or time.time() > self.deadline:
            raise OutOfSubset('path budget exceeded')
        self.cur_site = self.stmt_ids.get(id(stmt), 0)
        m = getattr(self, 'st_' + type(stmt).__name__, None)
        if m is None:
            raise OutOfSubset('statement %s' % type(stmt).__name__)
        return m(st, stmt)

    def after_expr(self, st, ok_outcomes=None):
        outs = self.split_pend(st)
        return outs

    def st_Pass(self, st, s):
        return [Outcome('ok', st)]

    def st_Expr(self, st, s):
        if isinstance(s.value, ast.Yield):
            v = self.ev.ev(st, s.value.value) if s.value.value is not None else VNONE
            outs = self.split_pend(st)
            self.do_yield(st, v)
            return outs + [Outcome('ok', st)]
        if isinstance(s.value, ast.YieldFrom):
            return self.do_yield_from(st, s.value.value)
        self.ev.ev(st, s.value)
        outs = self.split_pend(st)
        return outs + [Outcome('ok', st)]

    def do_yield(self, st, v):
        self.yield_count += 1
        st.nyield = st.nyield + 1
        st.last_yield = v
        ctr = self.ctr
        if ctr.yields and isinstance(v, (VRef, VNoneT)):
            v = self.coerce(v, ctr.yields, st)
        env = {'y': v}
        for j, txt in enumerate(ctr.yield_ensures):
            t, new = self.spec_eval(st, txt, extra_env=env)
            g = st.fork()
            g.pc += new
            self.oblige('yield[%d]@s%s' % (j, self.cur_site), g, t)
        for name, expr in ctr.yield_acc.items():
            d, new = self.spec_value(st, expr, extra_env=env)
            for f in new:
                st.assume(f)
            st.env[name] = VInt(st.env[name].t + d.t)

    def do_yield_from(self, st, call):
        """yield from g(args) for a generator g under contract: g's contract is applied as for a call (precondition, frame,
        postcondition at exhaustion); every value it yields satisfies g's yield_ensures and must satisfy this generator's
        own; an accumulator of this generator advances by the final value of g's accumulator with the same defining
        expression (g proves that total in its own postcondition)."""
        if not isinstance(call, ast.Call):
            raise OutOfSubset('yield from a non-call')
        pre_accs = {n: st.env[n] for n in self.ctr.yield_acc}
        self._yf = {}
        try:
            self.ev.ev(st, call)
            info = self._yf
        finally:
            self._yf = None
        outs = self.split_pend(st)
        ctr2 = info.get('ctr')
        if ctr2 is None or ctr2.kind != 'generator':
            raise OutOfSubset('yield from something that is not a contracted generator')
        # this generator's accumulators: matched by defining expression
        by_expr = {e: n for n, e in ctr2.yield_acc.items()}
        mid = {}
        for n, e in self.ctr.yield_acc.items():
            if e not in by_expr:
                raise OutOfSubset('yield from %s: it has no accumulator defined as %r' % (ctr2.qual, e))
            tot = info['post_env'][by_expr[e]].t
            part = z3.Int(fresh_name('part_' + n))
            st.assume(z3.And(0 <= part, part <= tot)) if False else None
            mid[n] = (part, tot)
        # a generic yielded value, at a generic moment of g's run
        y = fresh(ctr2.yields or 'ref', 'yf')
        g = st.fork()
        genv = dict(info['env'])
        genv['y'] = y
        for n2 in ctr2.yield_acc:
            genv[n2] = VInt(z3.Int(fresh_name('at_' + n2)))
        g.env = genv
        if isinstance(y, VRef):
            g.pc.append(y.t != 0) if False else None
        for txt in ctr2.yield_ensures:
            t, new = self.spec_eval(g, txt, ctr2)
            g.pc += new
            g.pc.append(t)
        h = g.fork()
        h.env = dict(st.env)
        for n, e in self.ctr.yield_acc.items():
            h.env[n] = VInt(pre_accs[n].t + genv[by_expr[e]].t)
        for j, txt in enumerate(self.ctr.yield_ensures):
            t, new = self.spec_eval(h, txt, extra_env={'y': y})
            k_ = h.fork()
            k_.pc += new
            self.oblige('yieldfrom[%d]@s%s' % (j, self.cur_site), k_, t)
        for n, (part, tot) in mid.items():
            st.env[n] = VInt(pre_accs[n].t + tot)
        st.nyield = z3.Int(fresh_name('nyield'))
        return outs + [Outcome('ok', st)]

    def st_Return(self, st, s):
        v = self.ev.ev(st, s.value) if s.value is not None else VNONE
        outs = self.split_pend(st)
        return outs + [Outcome('ret', st, v, site='return@s%s' % self.cur_site)]

    def st_Assign(self, st, s):
        v = self.ev.ev(st, s.value)
        if isinstance(v, VList) and v.ek == 'any' and len(s.targets) == 1 and isinstance(s.targets[0], ast.Name):
            # an empty list literal bound to a local whose element kind the contract declares
            kd = getattr(self.ctr, 'locals_', {}).get(s.targets[0].id)
            if kd and kd.startswith('list:'):
                v = VList(v.t, kd[5:])
        outs = self.split_pend(st)
        for t in s.targets:
            self.assign(st, t, v)
            outs += self.split_pend(st)
        return outs + [Outcome('ok', st)]

    def assign(self, st, t, v):
        if isinstance(t, ast.Name):
            st.env[t.id] = v
            ub = st.env.get('$ub')
            if ub and t.id in ub and not getattr(self, '_loop_binding', False):
                ub = dict(ub)
                del ub[t.id]
                st.env['$ub'] = ub
        elif isinstance(t, ast.Attribute):
            recv = self.ev.ev(st, t.value)
            self.set_attr(st, recv, t.attr, v)
        elif isinstance(t, (ast.Tuple, ast.List)):
            items = self.unpack(st, v, len(t.elts))
            for x, y in zip(t.elts, items):
                self.assign(st, x, y)
        elif isinstance(t, ast.Subscript):
            recv = self.ev.ev(st, t.value)
            if isinstance(t.slice, ast.Slice):
                # lst[a:] = other   -- keep the first a elements, then other's
                if t.slice.step is not None or not isinstance(recv, VList) or not isinstance(v, VList):
                    raise OutOfSubset('slice assignment')
                lo = self.ev.ev(st, t.slice.lower) if t.slice.lower is not None else VInt(0)
                n = st.llen(recv.t)
                a = self.clamp(self.as_int(lo), n)
                m = st.llen(v.t)
                if t.slice.upper is not None:
                    # lst[a:b] = other   -- the first a elements, then other's, then the elements from b on
                    hi_ = self.clamp(self.as_int(self.ev.ev(st, t.slice.upper)), n)
                    b = z3.If(hi_ < a, a, hi_)
                    if v.ek != recv.ek and v.ek != 'any':
                        raise OutOfSubset('slice assignment between lists of different element kinds')
                    old = st.larr(recv.t, recv.ek)
                    srcl = st.larr(v.t, recv.ek)
                    k = z3.Int(fresh_name('k'))
                    new = z3.Const(fresh_name('sla'), old.sort())
                    st.pc.append(smt.forall([k], z3.Select(new, k) == z3.If(k < a, z3.Select(old, k),
                                                                             z3.If(k < a + m, z3.Select(srcl, k - a),
                                                                                   z3.Select(old, k - m + b))),
                                            patterns=[z3.Select(new, k)]))
                    st.lset_all(recv.t, new, recv.ek)
                    st.wr('$len', recv.t, a + m + (n - b))
                    return
                if v.ek != recv.ek:
                    ms = z3.simplify(m)
                    if not (z3.is_int_value(ms) and ms.as_long() == 0):
                        raise OutOfSubset('slice assignment between lists of different element kinds')
                else:
                    old = st.larr(recv.t, recv.ek)
                    srcl = st.larr(v.t, v.ek)
                    k = z3.Int(fresh_name('k'))
                    new = z3.Const(fresh_name('sla'), old.sort())
                    st.pc.append(smt.forall([k], z3.Select(new, k) == z3.If(k < a, z3.Select(old, k), z3.Select(srcl, k - a)),
                                            patterns=[z3.Select(new, k)]))
                    st.lset_all(recv.t, new, recv.ek)
                st.wr('$len', recv.t, a + m)
                return
            idx = self.ev.ev(st, t.slice)
            if isinstance(recv, VList):
                n = st.llen(recv.t)
                i = self.norm_index(st, idx, n, 'list store')
                st.lset_all(recv.t, z3.Store(st.larr(recv.t, recv.ek), i, self.elem_term(v, recv.ek)), recv.ek)
            elif isinstance(recv, VMap):
                if isinstance(v, VTuple) and recv.vk == 'any':
                    v = VAny(st.alloc('tuple'))        # a tuple stored as an opaque value
                st.mput(recv.t, self.map_key(recv, idx), self.as_ref(v) if not isinstance(v, VInt) else v.t, recv.kk)
            elif isinstance(recv, VRef):
                self.map_set(st, recv, idx, v)
            else:
                raise OutOfSubset('subscript store on %s' % kind_of(recv))
        else:
            raise OutOfSubset('assignment target %s' % type(t).__name__)

    def map_set(self, st, m, k, v):
        raise OutOfSubset('subscript store on object of class %s' % m.cls)

    def unpack(self, st, v, n):
        if isinstance(v, VTuple):
            if len(v.items) != n:
                st.may_raise(z3.BoolVal(True), 'ValueError', 'unpack arity')
                return [fresh('any') for _ in range(n)]
            return v.items
        if isinstance(v, VRef):
            c = classes.get(v.cls) if v.cls else None
            if c is not None and hasattr(c, '_fields'):
                if len(c._fields) != n:
                    st.may_raise(z3.BoolVal(True), 'ValueError', 'unpack arity')
                return [self.get_attr(st, v, f) for f in c._fields[:n]]
        raise OutOfSubset('unpacking %s' % kind_of(v))

    def st_AugAssign(self, st, s):
        cur = self.ev.ev(st, s.target)
        rhs = self.ev.ev(st, s.value)
        if isinstance(cur, VList) and isinstance(s.op, ast.Add):
            # in-place extend: the same list object grows by the elements of the right-hand side
            if not isinstance(rhs, VList) or (rhs.ek != cur.ek and 'any' not in (rhs.ek, cur.ek)):
                raise OutOfSubset('list += %s' % kind_of(rhs))
            outs = self.split_pend(st)
            n, m = st.llen(cur.t), st.llen(rhs.t)
            old = st.larr(cur.t, cur.ek)
            src = st.larr(rhs.t, cur.ek)
            k = z3.Int(fresh_name('k'))
            new = z3.Const(fresh_name('ext'), old.sort())
            st.pc.append(smt.forall([k], z3.Select(new, k) == z3.If(k < n, z3.Select(old, k), z3.Select(src, k - n)),
                                    patterns=[z3.Select(new, k)]))
            st.lset_all(cur.t, new, cur.ek)
            st.wr('$len', cur.t, n + m)
            return outs + [Outcome('ok', st)]
        v = self.ev.binop(st, s.op, cur, rhs)
        outs = self.split_pend(st)
        self.assign(st, s.target, v)
        outs += self.split_pend(st)
        return outs + [Outcome('ok', st)]

    def st_If(self, st, s):
        c = self.ev.truthy(st, self.ev.ev(st, s.test))
        outs = self.split_pend(st)
        a = st.fork()
        a.pc.append(c)
        b = st
        b.pc.append(z3.Not(c))
        if smt.feasible(a.pc):
            self.refine_isinstance(a, s.test, True)
            outs += self.exec_block(a, s.body)
        if smt.feasible(b.pc):
            self.refine_isinstance(b, s.test, False)
            outs += self.exec_block(b, s.orelse) if s.orelse else [Outcome('ok', b)]
        return outs

    def refine_isinstance(self, st, test, truth):
        """`if isinstance(x, C)` / `if not isinstance(x, C)`: in the branch where the test holds the local x is viewed
        with static class C (its fields become readable); the path condition already carries the dynamic fact."""
        if isinstance(test, ast.UnaryOp) and isinstance(test.op, ast.Not):
            return self.refine_isinstance(st, test.operand, not truth)
        if not truth or not (isinstance(test, ast.Call) and isinstance(test.func, ast.Name) and test.func.id == 'isinstance'
                             and len(test.args) == 2 and isinstance(test.args[0], ast.Name)):
            return
        v = st.env.get(test.args[0].id)
        cname = test.args[1].id if isinstance(test.args[1], ast.Name) else getattr(test.args[1], 'attr', None)
        c = classes.get(cname) if cname else None
        if isinstance(v, VRef) and c is not None:
            cur = classes.get(v.cls) if v.cls else None
            if cur is None or (issubclass(c, cur) and c is not cur):
                st.env = dict(st.env)
                st.env[test.args[0].id] = VRef(v.t, cname)

    def st_Assert(self, st, s):
        c = self.ev.truthy(st, self.ev.ev(st, s.test))
        st.may_raise(z3.Not(c), 'AssertionError', 'assert')
        outs = self.split_pend(st)
        return outs + [Outcome('ok', st)]

    def st_Raise(self, st, s):
        name = 'Exception'
        if s.exc is not None:
            x = s.exc
            val = None
            if isinstance(x, ast.Call):
                fn = x.func
                cname = fn.id if isinstance(fn, ast.Name) else getattr(fn, 'attr', None)
                q = classes.qualname(cname, '__init__') if classes.get(cname or '') is not None else None
                if q is not None and q in REG:
                    # the raised object is built like any other (its constructor contract applies)
                    val = self.ev.ev(st, x)
                else:
                    # evaluate arguments for their side conditions
                    for a in x.args:
                        try:
                            self.ev.ev(st, a)
                        except OutOfSubset:
                            pass
                x = x.func
            if isinstance(x, ast.Name):
                name = x.id
            elif isinstance(x, ast.Attribute):
                name = x.attr
        else:
            name = st.env.get('$handling', 'Exception')
            val = None
        outs = self.split_pend(st)        # what evaluating the raised expression itself may raise
        return outs + [Outcome('exc', st, val=val, exc=name, site='raise@s%s' % self.cur_site)]

    def st_Break(self, st, s):
        return [Outcome('brk', st)]

    def st_Continue(self, st, s):
        return [Outcome('cnt', st)]

    def st_FunctionDef(self, st, s):
        q = '%s.%s' % (self.qual, s.name)
        st.env[s.name] = VFn('closure', qual=q, node=s)
        return [Outcome('ok', st)]

    def st_Delete(self, st, s):
        outs = []
        for t in s.targets:
            if isinstance(t, ast.Subscript) and not isinstance(t.slice, ast.Slice):
                recv = self.ev.ev(st, t.value)
                idx = self.ev.ev(st, t.slice)
                if not isinstance(recv, VList):
                    raise OutOfSubset('del on %s' % kind_of(recv))
                n = st.llen(recv.t)
                i = self.norm_index(st, idx, n, 'del list item')
                outs += self.split_pend(st)
                old = st.larr(recv.t, recv.ek)
                k = z3.Int(fresh_name('k'))
                new = z3.Const(fresh_name('del'), old.sort())
                st.pc.append(z3.ForAll([k], z3.Select(new, k) == z3.If(k < i, z3.Select(old, k), z3.Select(old, k + 1))))
                st.lset_all(recv.t, new, recv.ek)
                st.wr('$len', recv.t, n - 1)
            elif isinstance(t, ast.Subscript) and isinstance(t.slice, ast.Slice) and t.slice.upper is None and t.slice.step is None:
                # del lst[i:]  -- truncation
                recv = self.ev.ev(st, t.value)
                lo = self.ev.ev(st, t.slice.lower) if t.slice.lower is not None else VInt(0)
                if not isinstance(recv, VList):
                    raise OutOfSubset('del slice on %s' % kind_of(recv))
                n = st.llen(recv.t)
                a = self.clamp(self.as_int(lo), n)
                outs += self.split_pend(st)
                st.wr('$len', recv.t, a)
            else:
                raise OutOfSubset('del target')
        return outs + [Outcome('ok', st)]

    def st_With(self, st, s):
        """with <external resource> as name: the context expression is evaluated (its contract may raise), the body
        runs, leaving the block releases the resource.  Only managers that never swallow exceptions are modelled
        (files); __exit__ is assumed not to raise."""
        outs = []
        cm = self.contextmanager_def(st, s)
        if cm is not None:
            return self.with_contextmanager(st, s, *cm)
        for it in s.items:
            v = self.ev.ev(st, it.context_expr)
            outs += self.split_pend(st)
            if not isinstance(v, (VAny, VRef)) or (isinstance(v, VRef) and v.cls is not None):
                raise OutOfSubset('with statement over %s' % kind_of(v))
            if it.optional_vars is not None:
                self.assign(st, it.optional_vars, v)
        return outs + self.exec_block(st, s.body)

    def contextmanager_def(self, st, s):
        """`with self.m(args):` where m is a @contextmanager generator method with a single top-level `yield`:
        -> (def node, class, module, argument expressions), else None."""
        if len(s.items) != 1 or s.items[0].optional_vars is not None:
            return None
        ce = s.items[0].context_expr
        if not (isinstance(ce, ast.Call) and isinstance(ce.func, ast.Attribute) and isinstance(ce.func.value, ast.Name)
                and ce.func.value.id == 'self' and self.clsname):
            return None
        recv = st.env.get('self')
        cls = recv.cls if isinstance(recv, VRef) and recv.cls else self.clsname
        q = classes.qualname(cls, ce.func.attr)
        if q is None:
            return None
        try:
            fn_node, mod, dcls = source.find_def(q)
        except BindingError:
            return None
        decos = [getattr(d, 'id', getattr(d, 'attr', None)) for d in fn_node.decorator_list]
        if 'contextmanager' not in decos:
            return None
        ys = [i for i, b in enumerate(fn_node.body) if isinstance(b, ast.Expr) and isinstance(b.value, ast.Yield)]
        nested = sum(isinstance(n, (ast.Yield, ast.YieldFrom)) for n in ast.walk(fn_node))
        if len(ys) != 1 or nested != 1 or ce.keywords:
            raise OutOfSubset('context manager %s is not of the form <statements>; yield; <statements>' % q)
        return fn_node, dcls, mod, ys[0], ce.args

    def with_contextmanager(self, st, s, fn_node, cls, mod, yi, argexprs):
        """Runs the manager's statements before its yield, the with-body, then the statements after the yield (on normal
        exit of the body; a body that raises skips them, as a generator-based manager without try/finally does)."""
        import importlib
        args = [self.ev.ev(st, a) for a in argexprs]
        outs = self.split_pend(st)
        names = [a.arg for a in fn_node.args.args]
        if len(args) != len(names) - 1:
            raise OutOfSubset('context manager arguments')
        saved_env, saved_cls, saved_mod = st.env, self.clsname, self.live_mod
        menv = dict(zip(names, [st.env['self']] + args))

        def run_part(state, stmts, env):
            state.env = dict(env)
            self.clsname, self.live_mod = cls, importlib.import_module(mod)
            try:
                return self.exec_block(state, stmts)
            finally:
                self.clsname, self.live_mod = saved_cls, saved_mod
        res = []
        for o in run_part(st, fn_node.body[:yi], menv):
            if o.kind != 'ok':
                if o.kind == 'exc':
                    o.st.env = saved_env
                    res.append(o)
                    continue
                raise OutOfSubset('context manager leaves before its yield')
            menv2 = o.st.env
            o.st.env = dict(saved_env)
            for b in self.exec_block(o.st, s.body):
                if b.kind == 'exc' or not fn_node.body[yi + 1:]:
                    res.append(b)
                    continue
                benv = b.st.env
                for f in run_part(b.st, fn_node.body[yi + 1:], menv2):
                    if f.kind == 'ok':
                        f.st.env = benv
                        res.append(Outcome(b.kind, f.st, val=b.val, exc=b.exc, site=b.site))
                    else:
                        f.st.env = benv
                        res.append(f)
        return outs + res

    def st_Try(self, st, s):
        if s.finalbody:
            # try/finally: the final block runs after every way of leaving the rest; unless it leaves differently
            # itself (raise / return / break), the original outcome continues
            import copy
            inner = copy.copy(s)
            inner.finalbody = []
            res = []
            first = self.st_Try(st, inner) if (s.handlers or s.orelse) else self.exec_block(st, s.body)
            for o in first:
                o.st.pend = []
                for f in self.exec_block(o.st, s.finalbody):
                    if f.kind == 'ok':
                        res.append(Outcome(o.kind, f.st, val=o.val, exc=o.exc, site=o.site))
                    else:
                        res.append(f)
            return res
        outs = []
        for o in self.exec_block(st, s.body):
            if o.kind == 'exc':
                handled = False
                for h in s.handlers:
                    names = self.handler_names(h)
                    subs = [n_ for n_ in (names or []) if o.exc in EXC_PARENTS.get(n_, [])]
                    if subs and str(o.site).startswith('call ') and not exc_matches(o.exc, names):
                        # a callee declared to raise X may raise any subclass of X: a handler for a subclass catches those
                        # (forked copy), the rest goes on to the later handlers
                        hs = o.st.fork()
                        hs.pend = []
                        if h.name:
                            hs.env[h.name] = fresh('any')
                        hs.env['$handling'] = subs[0]
                        outs += self.exec_block(hs, h.body)
                        continue
                    if exc_matches(o.exc, names):
                        hs = o.st
                        hs.pend = []
                        if h.name:
                            hs.env[h.name] = fresh('any')
                        hs.env['$handling'] = o.exc
                        outs += self.exec_block(hs, h.body)
                        handled = True
                        break
                if not handled:
                    outs.append(o)
            elif o.kind == 'ok' and s.orelse:
                outs += self.exec_block(o.st, s.orelse)
            else:
                outs.append(o)
        return outs

    @staticmethod
    def handler_names(h):
        if h.type is None:
            return None
        if isinstance(h.type, ast.Tuple):
            return [getattr(x, 'id', getattr(x, 'attr', '?')) for x in h.type.elts]
        return [getattr(h.type, 'id', getattr(h.type, 'attr', '?'))]
