"""Constructors of tree objects (C19 protocol, C11 parent links, C01 one-leaf-per-token)."""
from pv.contract import contract

contract('parso.tree.Leaf.__init__',
         params={'self': 'ref:Leaf', 'value': 'str', 'start_pos': 'pos', 'prefix': 'str'},
         ensures=['self.value == value', 'self.prefix == prefix', 'self.line == start_pos[0]', 'self.column == start_pos[1]',
                  'self.parent is None'],
         modifies=['self.value', 'self.prefix', 'self.line', 'self.column', 'self.parent'],
         inline=['parso.tree.Leaf.start_pos.setter'], props=['C19', 'C01'])
contract('parso.tree.TypedLeaf.__init__',
         params={'self': 'ref:TypedLeaf', 'type': 'str', 'value': 'str', 'start_pos': 'pos', 'prefix': 'str'},
         ensures=['self.value == value', 'self.prefix == prefix', 'self.line == start_pos[0]', 'self.column == start_pos[1]',
                  'self.type == type', 'self.parent is None'],
         modifies=['self.value', 'self.prefix', 'self.line', 'self.column', 'self.parent', 'self.type'], props=['C19'])
contract('parso.tree.ErrorLeaf.__init__',
         # token_type is a str (Parser.error_recovery: typ.name) or a token type object (BaseParser.error_recovery):
         # declared opaque, nothing is promised about the stored field
         params={'self': 'ref:ErrorLeaf', 'token_type': 'any', 'value': 'str', 'start_pos': 'pos', 'prefix': 'str'},
         ensures=['self.value == value', 'self.prefix == prefix', 'self.line == start_pos[0]', 'self.column == start_pos[1]',
                  'self.parent is None'],
         modifies=['self.value', 'self.prefix', 'self.line', 'self.column', 'self.parent', 'self.token_type'], props=['C19', 'C07'])

# every child's parent is the new node, the children list is the one given, nothing else changes
contract('parso.tree.BaseNode.__init__', params={'self': 'ref:BaseNode', 'children': 'list:ref:NodeOrLeaf'},
         requires=['children is not None',
                   'forall(lambda k: implies(0 <= k and k < len(children), children[k] is not None and children[k] is not self), '
                   'trigger=lambda k: children[k])'],
         ensures=['self.children is children', 'self.parent is None',
                  'forall(lambda k: implies(0 <= k and k < len(children), children[k].parent is self), trigger=lambda k: children[k])',
                  # frame of the parent links: whoever's parent changed is now a child of self
                  'forall(lambda x: implies(x is not self and x.parent is not old(x.parent), x.parent is self), kinds=dict(x="ref:NodeOrLeaf"), trigger=lambda x: x.parent)'],
         loops={0: dict(invariant=['self.children is children', 'self.parent is None', 'forall(lambda x: implies(x is not self and x.parent is not old(x.parent), x.parent is self), kinds=dict(x="ref:NodeOrLeaf"), trigger=lambda x: x.parent)',
                                   'forall(lambda k: implies(0 <= k and k < _i, children[k].parent is self), trigger=lambda k: children[k])',
                                   'forall(lambda k: implies(0 <= k and k < len(children), children[k] is not None and children[k] is not self), '
                                   'trigger=lambda k: children[k])'])},
         modifies=['self.children', 'self.parent', 'parent'], props=['C19', 'C11'])
contract('parso.tree.Node.__init__', params={'self': 'ref:Node', 'type': 'str', 'children': 'list:ref:NodeOrLeaf'},
         requires=['children is not None',
                   'forall(lambda k: implies(0 <= k and k < len(children), children[k] is not None and children[k] is not self), '
                   'trigger=lambda k: children[k])'],
         ensures=['self.children is children', 'self.type == type',
                  'forall(lambda k: implies(0 <= k and k < len(children), children[k].parent is self), trigger=lambda k: children[k])'],
         modifies=['self.type', 'self.children', 'self.parent', 'parent'], props=['C19'])

# ---- Param regrouping (C11 parent links, C19): Param.__init__ and the parent discipline of _create_params
contract('parso.python.tree.Param.__init__',
         params={'self': 'ref:Param', 'children': 'list:ref:NodeOrLeaf', 'parent': 'ref:BaseNode'},
         requires=['children is not None',
                   'forall(lambda k: implies(0 <= k and k < len(children), children[k] is not None and children[k] is not self), '
                   'trigger=lambda k: children[k])'],
         ensures=['self.children is children', 'self.parent is parent',
                  'forall(lambda k: implies(0 <= k and k < len(children), children[k].parent is self), trigger=lambda k: children[k])',
                  # nothing else is re-parented: whoever's parent changed is now a child of self (or is self)
                  'forall(lambda x: implies(x is not self and x.parent is not old(x.parent), x.parent is self), '
                  'kinds=dict(x="ref:NodeOrLeaf"), trigger=lambda x: x.parent)'],
         modifies=['self.children', 'self.parent', 'parent'], call_keys={'parso.tree.BaseNode.__init__': 'parso.tree.BaseNode.__init__'},
         props=['C11', 'C19'])

# ---- the remaining node constructors reached through Parser.convert_node (C02: convert_node returns a node)
NODE_INIT = dict(requires=['children is not None',
                           'forall(lambda k: implies(0 <= k and k < len(children), children[k] is not None and children[k] is not self), '
                           'trigger=lambda k: children[k])'],
                 ensures=['self.children is children',
                          'forall(lambda k: implies(0 <= k and k < len(children), children[k].parent is self), trigger=lambda k: children[k])'],
                 modifies=['self.children', 'self.parent', 'parent'], props=['C02', 'C19'])
for _q, _cls in (('parso.python.tree.Scope.__init__', 'Scope'), ('parso.python.tree.Class.__init__', 'Class')):
    contract(_q, params={'self': 'ref:' + _cls, 'children': 'list:ref:NodeOrLeaf'}, **NODE_INIT)
contract('parso.python.tree.Module.__init__', params={'self': 'ref:Module', 'children': 'list:ref:NodeOrLeaf'},
         requires=NODE_INIT['requires'], ensures=NODE_INIT['ensures'],
         modifies=['self.children', 'self.parent', 'parent', 'self._used_names'], props=['C02', 'C19'])
# Function / Lambda regroup their parameters (calls _create_params, not under contract): ASSUMED total on the children of a
# funcdef / lambdef production; they may re-parent the parameter leaves and change the parameter node's children list
for _q, _cls in (('parso.python.tree.Function.__init__', 'Function'), ('parso.python.tree.Lambda.__init__', 'Lambda')):
    contract(_q, params={'self': 'ref:' + _cls, 'children': 'list:ref:NodeOrLeaf'}, trusted=True,
             requires=NODE_INIT['requires'], ensures=['self.children is children'],
             modifies=['self.children', 'self.parent', 'parent', 'children'], lists='*',
             note='ASSUMED: total on grammar-shaped children (funcdef / lambdef); regroups parameters into Param nodes in place')
