from props.common import run_bounded, add_obs, verify_keys
from pv import obs_tables as T


def run(report):
    add_obs(report, lambda: T.all_versions(which=('ll1',))[0], name='tables')
    verify_keys(report, ['parso.parser.BaseParser._add_token', 'parso.parser.BaseParser._pop', 'parso.parser.StackNode.__init__',
                         'parso.python.parser.Parser.convert_leaf', 'parso.python.parser.Parser.__init__', 'parso.parser.BaseParser.__init__', 'parso.tree.Leaf.__init__', 'parso.tree.ErrorLeaf.__init__',
                         'parso.tree.BaseNode.__init__', 'parso.tree.Node.__init__'])
    report.assume("engine: _add_token / _pop are proved free of IndexError / KeyError / AttributeError and to keep the stack "
                  "shape under the preconditions 'stack non-empty and well formed', 'tables well formed' (T obligations) and "
                  "'the root entry is not complete' (ENDMARKER is the last token: tokenizer contract, bounded); "
                  "error_recovery, _stack_removal, convert_node and BaseParser.parse are used through assumed contracts or "
                  "not covered: totality of the whole pipeline rests on the bounded stand-in",
                  "A-REC: recursion depth / memory not modelled")
    run_bounded(report, ['parse', 'blk', 'fstr'], extra='nesting')
