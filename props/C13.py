from props.common import run_bounded, verify_keys, add_obs
from pv import obs_effects as E
from pv import obs_classes as C

KEYS = ['parso.python.errors.ErrorFinder._add_syntax_error', 'parso.python.errors.ErrorFinder._add_indentation_error',
        'parso.normalizer.Issue.__init__', 'parso.python.errors.ErrorFinder.add_issue',
        'parso.python.errors.ErrorFinder.add_issue#part', 'parso.python.errors.ErrorFinder.visit_leaf#error_leaf',
        # coverage of error nodes: the rule registered for error_node files an issue for the line of the following token
        'parso.normalizer.Rule._get_message', 'parso.python.errors.SyntaxRule._get_message', 'parso.normalizer.Rule.add_issue#syntax',
        'parso.python.errors._InvalidSyntaxRule.get_node', 'parso.python.errors._InvalidSyntaxRule.is_issue',
        'parso.normalizer.Rule.feed_node#invalid_syntax']


def _effects():
    return (E.tree_purity_obligations('C13', ['parso.grammar.Grammar.iter_errors']) +
            E.frame_obligations('C13', ['parso.grammar.Grammar.iter_errors']))


def run(report):
    add_obs(report, _effects)
    add_obs(report, C.error_rule_obligations)
    add_obs(report, C.add_issue_callsite_obligations, 'parso.python.errors', 'C13')
    verify_keys(report, KEYS)
    report.assume("totality of the ~45 rule classes on arbitrary recovered trees (index/attribute safety through grammar "
                  "shape types) is not discharged deductively; it rests on the bounded stand-in",
                  "one-issue-per-line follows from the dict keyed by line in ErrorFinder.add_issue (checked bounded)")
    run_bounded(report, ['err', 'blk'])
