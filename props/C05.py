from props.common import run_bounded, add_obs
from pv import obs_tables as T


def run(report):
    add_obs(report, lambda: T.all_versions(which=('lang', 'plans', 'll1'))[0], name='tables')
    report.assume("engine stack invariant I_stack (every stack entry spells a run of its rule's automaton) is stated in "
                  "DESIGN 4/C05 but not discharged deductively; tree conformance rests on the T table facts plus the "
                  "bounded conformance monitor",
                  "oracle of the monitor: independent EBNF reader spec/ebnf.py + documented tree conventions "
                  "(single-child collapse, suite without INDENT/DEDENT, param grouping, optional final NEWLINE at end of file)")
    run_bounded(report, ['parse', 'blk', 'stmt'])
