"""Reference tokenizer server for C10: runs under the CPython whose tokenizer is the reference (3.6 .. 3.13, standard
library only, 3.6 syntax).  One JSON request per line on stdin ({"code": ...}), one JSON answer per line on stdout:

  compiles   compile(code) succeeded (C tokenizer and parser accepted the program)
  err        [exception class, msg, lineno, offset] of the SyntaxError otherwise
  toks       [[token name, string, line, column], ...] of tokenize.generate_tokens, or null when it raised
"""
import io
import json
import sys
import token
import tokenize
import warnings


def handle(code):
    res = {'compiles': False, 'err': None, 'toks': None}
    try:
        with warnings.catch_warnings():
            warnings.simplefilter('ignore')
            compile(code, '<c10>', 'exec')
        res['compiles'] = True
    except SyntaxError as e:
        res['err'] = [type(e).__name__, e.msg, e.lineno, e.offset]
    except (ValueError, RecursionError, MemoryError, OverflowError) as e:
        res['err'] = [type(e).__name__, str(e), None, None]
    try:
        res['toks'] = [[token.tok_name[t.type], t.string, t.start[0], t.start[1]]
                       for t in tokenize.generate_tokens(io.StringIO(code).readline)]
    except (tokenize.TokenError, SyntaxError, ValueError, RecursionError, MemoryError, OverflowError):
        res['toks'] = None
    return res


def main():
    for line in sys.stdin:
        try:
            req = json.loads(line)
            out = handle(req['code'])
        except Exception as e:  # noqa
            out = {'compiles': False, 'err': ['server', repr(e), None, None], 'toks': None}
        sys.stdout.write(json.dumps(out) + '\n')
        sys.stdout.flush()


if __name__ == '__main__':
    main()
