"""parso.cache contracts (C16): the in-memory cache is keyed by (grammar hash, path); garbage collection only drops
entries; a cached tree is handed out only while the file's modification time is not newer than the entry's stamp."""
import z3

from pv.contract import contract, class_fields, specfn
from pv.values import VInt, I

class_fields('_NodeCacheItem', node='ref:Module', lines='any', change_time='int', last_used='int')
class_fields('FileIO', path='any')
class_fields('Module', ver='int')

CACHE = {'parser_cache': 'map:any:map:any:ref:_NodeCacheItem'}

_ver_at = z3.Function('ver_at', I, I, I)      # content version of the file at a path when its mtime is m (the proviso
#                                               "a change is observable as a newer mtime" makes this a function)


_cur = z3.Function('cur_mtime', I, I)          # the file's modification time now (mtimes only grow)


@specfn('ver_at')
def sp_ver_at(eng, st, p, m):
    return VInt(_ver_at(p.t, m.t))


@specfn('allocated')
def sp_allocated(eng, st, x):
    from pv.values import VBool
    return VBool(st.is_alloc(x.t))


@specfn('cur_mtime')
def sp_cur(eng, st, p):
    return VInt(_cur(p.t))


# ---- C16: entries of different paths / grammars are never confused; GC only removes entries
contract('parso.cache._set_cache_item',
         params={'hashed_grammar': 'any', 'path': 'any', 'module_cache_item': 'ref:_NodeCacheItem'},
         globals_=CACHE,
         requires=['module_cache_item is not None', 'parser_cache is not None', 'allocated(parser_cache)',
                   # the inner dicts are distinct objects (one per grammar), none of them is the outer dict
                   'forall(lambda g: implies(g in parser_cache, parser_cache[g] is not None and parser_cache[g] is not parser_cache '
                   'and allocated(parser_cache[g])))',
                   'forall(lambda g1, g2: implies(g1 in parser_cache and g2 in parser_cache and g1 != g2, '
                   'parser_cache[g1] is not parser_cache[g2]))'],
         ensures=['hashed_grammar in parser_cache and path in parser_cache[hashed_grammar]',
                  'parser_cache[hashed_grammar][path] is module_cache_item',
                  # every other entry that exists afterwards existed before with the same item
                  'forall(lambda g, p: implies(g in parser_cache and p in parser_cache[g] and not (g == hashed_grammar and p == path), '
                  'old(g in parser_cache and p in parser_cache[g]) and parser_cache[g][p] is old(parser_cache[g][p])))'],
         loops={0: dict(invariant=['parser_cache is not None',
                                   'forall(lambda g: implies(g in parser_cache, parser_cache[g] is not None and parser_cache[g] is not parser_cache '
                                   'and allocated(parser_cache[g])))',
                                   'forall(lambda g1, g2: implies(g1 in parser_cache and g2 in parser_cache and g1 != g2, '
                                   'parser_cache[g1] is not parser_cache[g2]))',
                                   'forall(lambda g, p: implies(g in parser_cache and p in parser_cache[g], '
                                   'old(g in parser_cache and p in parser_cache[g]) and parser_cache[g][p] is old(parser_cache[g][p])))'])},
         modifies=['parser_cache', '$maps'], props=['C16'])

contract('parso.file_io.FileIO.get_last_modified', params={'self': 'ref:FileIO'}, returns='opt:int', trusted=True,
         ensures=['implies(not (result is None), result == cur_mtime(self.path))'],
         note='environment: the modification time observed now')
contract('parso.cache._load_from_file_system',
         params={'hashed_grammar': 'any', 'path': 'any', 'p_time': 'int', 'cache_path': 'any'}, returns='ref:Module',
         trusted=True, ensures=['implies(result is not None, result.ver == ver_at(path, p_time))'], modifies=['$maps'],
         note='disk branch: the analogous obligation (pickle mtime >= source mtime) is covered by the bounded stand-in')

# ---- a tree from the in-memory cache is returned only while the entry's stamp is not older than the file's mtime.
# Representation invariant: an entry stamped t (an mtime observed earlier, hence t <= the mtime now) holds the tree
# of the content version the file has at mtime t.
contract('parso.cache.load_module',
         params={'hashed_grammar': 'any', 'file_io': 'ref:FileIO', 'cache_path': 'any'}, returns='ref:Module',
         globals_=CACHE,
         requires=['file_io is not None', 'parser_cache is not None',
                   'forall(lambda g: implies(g in parser_cache, parser_cache[g] is not None))',
                   'forall(lambda g, p: implies(g in parser_cache and p in parser_cache[g], '
                   'parser_cache[g][p] is not None and parser_cache[g][p].node is not None and '
                   'parser_cache[g][p].change_time <= cur_mtime(p) and '
                   'parser_cache[g][p].node.ver == ver_at(p, parser_cache[g][p].change_time)))'],
         ensures=['implies(result is not None, result.ver == ver_at(file_io.path, cur_mtime(file_io.path)))'],
         raises=[], modifies=['parser_cache', '$maps', 'last_used'], props=['C16'])
