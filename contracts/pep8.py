"""C20: 'no newline at end of file' (292) is exact on error-free trees.

PEP8Normalizer._visit_node on the root (file_input), i.e. the very first thing the visitor does (no leaf visited yet):
an issue with code 292 is recorded  <=>  the input text G does not end in a line break.  The text is the ghost input of
the 'tile' theory (the end marker's prefix and the value of the leaf before it are its last slices); the chain
_visit_node -> PEP8Normalizer.add_issue (nothing suppressed: no previous leaf, the end marker hangs under the root) ->
Normalizer.add_issue (records the issue unless an equal one exists) is under contract."""
from pv.contract import contract, class_fields

class_fields('PEP8Normalizer', issues='list:ref:Issue', _previous_leaf='ref:Leaf')

HAS = lambda code: ('exists(lambda k: 0 <= k and k < len(self.issues) and self.issues[k].code == %s)' % code)   # noqa: E731
KEPT = ('forall(lambda k: implies(0 <= k and k < old(len(self.issues)), self.issues[k] is old(self.issues[k])), '
        'trigger=lambda k: self.issues[k])')
ONLY = ('forall(lambda k: implies(old(len(self.issues)) <= k and k < len(self.issues), self.issues[k].code == %s), '
        'trigger=lambda k: self.issues[k])')

# nothing is suppressed for a node that hangs directly under the root while no leaf has been visited yet
contract('parso.python.pep8.PEP8Normalizer.add_issue#first',
         params={'self': 'ref:PEP8Normalizer', 'node': 'ref:NodeOrLeaf', 'code': 'int', 'message': 'str'},
         requires=['node is not None', 'self._previous_leaf is None', 'node.parent is not None', 'node.parent.parent is None',
                   'node.parent.type == "file_input"', 'code != 901 and code != 903', 'self.issues is not None'],
         ensures=[HAS('code'), KEPT, ONLY % 'code', 'len(self.issues) >= old(len(self.issues))'],
         call_keys={'parso.normalizer.Normalizer.add_issue': 'parso.normalizer.Normalizer.add_issue#records'},
         raises=[],
         # (the frame check is path-insensitive: it also follows the 901 / 903 branch into ErrorFinder.add_issue, which the
         # precondition excludes; the frame is over-declared rather than pruned)
         modifies=['issues', '_error_dict', '$maps'], lists=['self.issues'], theories=['tree'], props=['C20'])

NL3 = '(%s == "\\n" or %s == "\\r\\n" or %s == "\\r")'
PREV = 'leaf_at(root(node), hi(node) - 1)'
contract('parso.python.pep8.PEP8Normalizer._visit_node#file_input', kind='generator',
         params={'self': 'ref:PEP8Normalizer', 'node': 'ref:BaseNode'},
         requires=['node is not None', 'node.type == "file_input"', 'node.parent is None', 'not is_leaf(node)', 'off(node) == 0', 'end(node) == len(G())',
                   'self._previous_leaf is None', 'self.issues is not None', 'not ' + HAS('292'),
                   # the last child of the root is the end marker: a leaf without text of its own
                   'is_leaf(node.children[len(node.children) - 1])', 'node.children[len(node.children) - 1].value == ""',
                   # LEMMA (tile + tree, by induction over the height; about the ghost definitions, not about code -- listed as an
                   # assumption): consecutive leaves are adjacent in the text, and the first leaf starts where the root starts
                   'implies(hi(node) > lo(node), end(%s) == off(node.children[len(node.children) - 1]))' % PREV,
                   'implies(hi(node) == lo(node), off(node.children[len(node.children) - 1]) == 0)',
                   # error-free tree: every token before the end marker has text, and a token that ends in a line break is a
                   # NEWLINE token (names, numbers, operators and closed strings do not end in one: RegLan facts of C09 / C10)
                   'implies(hi(node) > lo(node), len(%s.value) >= 1 and (ends_nl(%s.value) == %s))'
                   % (PREV, PREV, NL3 % ((PREV + '.value',) * 3))],
         ensures=['implies(ends_nl(G()), not %s)' % HAS('292'), 'implies(not ends_nl(G()), %s)' % HAS('292')],
         call_keys={'parso.python.pep8.PEP8Normalizer.add_issue': 'parso.python.pep8.PEP8Normalizer.add_issue#first'},
         raises=[], modifies=['issues', '_error_dict', '$maps', '_in_suite_introducer', '_indentation_tos', '_implicit_indentation_possible', '_wanted_newline_count'],
         lists=['self.issues'], theories=['tree', 'tile', 'leafnum'], props=['C20'])
