"""Replay of the C18 known finding (warnings filters): 8 threads list the issues of one tree at the same time; afterwards the
process-wide warnings.filters list must be what it was.  Exit 1 when a blanket filter stayed installed.   /venv/bin/python harness/c18_warnings_race.py"""
import sys, threading, warnings
sys.path.insert(0, '/repo')
import parso


def main():
    g = parso.load_grammar()
    m = g.parse(''.join('x%d = "a%d"\n' % (i, i) for i in range(300)))
    before = list(warnings.filters)
    sys.setswitchinterval(1e-6)
    def work():
        for _ in range(10):
            g.iter_errors(m)
    for rnd in range(12):
        ts = [threading.Thread(target=work) for _ in range(8)]
        [t.start() for t in ts]; [t.join() for t in ts]
        if list(warnings.filters) != before:
            print('round', rnd, 'warnings.filters changed for good: first entry now', warnings.filters[0]); sys.exit(1)
    print('filters unchanged after 12 rounds'); sys.exit(0)


if __name__ == '__main__':
    main()
