from props.common import run_bounded, add_obs
from pv import obs_tables as T


def run(report):
    add_obs(report, lambda: T.all_versions(which=('ll1',))[0], name='tables')
    report.assume("exception-freedom and termination obligations of the parser engine (DESIGN 4/C02) are not discharged "
                  "deductively; totality rests on the bounded stand-in",
                  "A-REC: recursion depth / memory not modelled")
    run_bounded(report, ['parse', 'blk', 'fstr'], extra='nesting')
