"""Executable definitions of the text vocabulary (DESIGN section 3).

These are the *specification* functions: written from the property statements, not from parso.
Python's line breaks are exactly \\n, \\r\\n and \\r.
"""
BOM = '\ufeff'


def breaks(s):
    """Number of Python line breaks in s (\\r\\n counts once)."""
    n = 0
    i = 0
    L = len(s)
    while i < L:
        c = s[i]
        if c == '\n':
            n += 1
        elif c == '\r':
            n += 1
            if i + 1 < L and s[i + 1] == '\n':
                i += 1
        i += 1
    return n


def tail(s):
    """Number of characters after the last line break of s (len(s) if there is none)."""
    a = s.rfind('\n')
    b = s.rfind('\r')
    return len(s) - 1 - max(a, b)


def advance(pos, s):
    """Position reached from pos after the text s."""
    b = breaks(s)
    if b == 0:
        return (pos[0], pos[1] + len(s))
    return (pos[0] + b, tail(s))


def bom0(s):
    """A leading BOM has zero width for positions."""
    return s[1:] if s.startswith(BOM) else s


def py_lines(s):
    """Reference line splitting (keepends): pieces end in \\n, \\r\\n or \\r; always >= 1 piece."""
    out = []
    cur = []
    i = 0
    L = len(s)
    while i < L:
        c = s[i]
        cur.append(c)
        if c == '\n':
            out.append(''.join(cur))
            cur = []
        elif c == '\r':
            if i + 1 < L and s[i + 1] == '\n':
                cur.append('\n')
                i += 1
            out.append(''.join(cur))
            cur = []
        i += 1
    out.append(''.join(cur))
    return out


def strip_eol(line):
    if line.endswith('\r\n'):
        return line[:-2]
    if line.endswith('\n') or line.endswith('\r'):
        return line[:-1]
    return line
