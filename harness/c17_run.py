"""C17 bounded stand-in: torn / corrupt cache files and injected I/O faults.

 (1) for each of several modules: save it through parse(cache=True), then replace the pickle by every truncation
     (all offsets up to a cap, strided beyond) and a set of corruptions; with the in-memory cache dropped,
     parse(path, cache=True) must return the tree of the current content, and a following parse must work too.
 (2) fault enumeration: for every primitive the cache module calls (open, pickle.load, pickle.dump,
     os.path.getmtime, os.makedirs, os.utime, os.remove, os.scandir, os.listdir, Path.exists, Path.is_dir, stat) and
     every call index during a cached parse, raise each exception of the primitive's raises set; the parse must still
     succeed with the right tree.
 (3) clean-up never removes a recently used entry.
"""
import argparse
import builtins
import json
import os
import pickle
import shutil
import sys
import tempfile
import time

sys.path.insert(0, os.path.dirname(os.path.dirname(os.path.abspath(__file__))))
from harness.treeutil import crash_signature  # noqa

MODULES = ['x = 1\n', 'def f(a, b=2):\n    return a + b\n\nclass C:\n    pass\n', 'if x:\n  (\n']


def setup(root, i):
    import parso
    from parso import cache as pc
    from pathlib import Path
    pc.parser_cache.clear()
    src = os.path.join(root, 'm%d.py' % i)
    with open(src, 'w') as f:
        f.write(MODULES[i])
    cdir = Path(os.path.join(root, 'cache%d' % i))
    g = parso.load_grammar(version='3.10')
    m = g.parse(path=Path(src), cache=True, cache_path=cdir)
    hp = pc._get_hashed_path(g._hashed, Path(src), cache_path=cdir)
    return g, Path(src), cdir, hp, m.dump(indent=None)


DEEP = [False]


def corruptions(data):
    out = [('empty', b''), ('garbage', b'\x00\xff garbage not a pickle'), ('text', b'hello\n'),
           ('wrong-object', pickle.dumps({'not': 'an item'})), ('wrong-object2', pickle.dumps(42)),
           ('flipped', data[:len(data) // 2] + bytes([data[len(data) // 2] ^ 0xFF]) + data[len(data) // 2 + 1:]),
           ('overwritten-head', b'\x80\x05' + b'X' * 20 + data[22:]),
           ('doubled', data + data), ('proto-only', data[:2])]
    # garbage that unpickles to an object of the right class but not to a usable item: pickle restores the attributes it finds
    # without calling __init__, so an item may lack any of them
    try:
        for attr in ('node', 'lines', 'change_time', 'last_used'):
            it = pickle.loads(data)
            delattr(it, attr)
            out.append(('incomplete-item:' + attr, pickle.dumps(it, pickle.HIGHEST_PROTOCOL)))
        it = pickle.loads(data)
        it.change_time = 'yesterday'
        out.append(('incomplete-item:change_time-not-a-number', pickle.dumps(it, pickle.HIGHEST_PROTOCOL)))
    except Exception:  # noqa
        pass
    n = len(data)
    if DEEP[0]:
        offs = list(range(0, n))                                  # every truncation offset
        # (no bit flips: a flipped byte can leave a valid pickle of a different tree, which no crash, full disk or
        # concurrent writer of the property's fault model produces and nothing short of a checksum could detect)
        for k in range(1, n, 97):
            out.append(('overwritten-head-at', data[:k] + data[:n - k]))   # a second write that died after k bytes ... of the same data
        for k in range(0, n, 97):                                 # the tail of another write over the head of this one
            out.append(('spliced', data[k:] + data[:k]))
    else:
        offs = list(range(0, min(n, 400))) + list(range(400, n, max(1, (n - 400) // 200 or 1)))
    for k in offs:
        out.append(('truncated', data[:k]))
    return out


def part1(root):
    import parso
    from parso import cache as pc
    fails = {}
    evals = 0
    for i in range(len(MODULES)):
        g, src, cdir, hp, ref = setup(root, i)
        with open(hp, 'rb') as f:
            data = f.read()
        for kind, blob in corruptions(data):
            evals += 1
            with open(hp, 'wb') as f:
                f.write(blob)
            pc.parser_cache.clear()
            try:
                m = g.parse(path=src, cache=True, cache_path=cdir)
                ok = m.dump(indent=None) == ref
                if not ok:
                    fails.setdefault(('bnd:C17.corrupt_is_miss', 'wrong-tree:' + kind), dict(
                        ob='bnd:C17.corrupt_is_miss', sig='wrong-tree:' + kind, detail='parse returned a different tree',
                        inp='module %d, %s pickle (%d bytes)' % (i, kind, len(blob)), count=0))['count'] += 1
                pc.parser_cache.clear()
                # the save that followed the miss repaired the entry: the file on disk is a loadable item again
                disk = pc._load_from_file_system(g._hashed, src, os.path.getmtime(src), cache_path=cdir)
                if disk is None or disk.dump(indent=None) != ref:
                    fails.setdefault(('bnd:C17.repair', 'not-rewritten:' + kind), dict(
                        ob='bnd:C17.repair', sig='not-rewritten:' + kind,
                        detail='after the parse that missed, the cache file is still not a loadable entry of the current content',
                        inp='module %d, %s pickle (%d bytes)' % (i, kind, len(blob)), count=0))['count'] += 1
                pc.parser_cache.clear()
                m2 = g.parse(path=src, cache=True, cache_path=cdir)        # repaired entry is served
                if m2.dump(indent=None) != ref:
                    fails.setdefault(('bnd:C17.repair', kind), dict(ob='bnd:C17.repair', sig=kind, detail='second parse wrong',
                                                                    inp='module %d, %s' % (i, kind), count=0))['count'] += 1
            except Exception as e:  # noqa
                sig = '%s:%s' % (kind if kind != 'truncated' else 'truncated', crash_signature(e))
                d = fails.setdefault(('bnd:C17.corrupt_is_miss', sig), dict(
                    ob='bnd:C17.corrupt_is_miss', sig=sig, detail='%s: %s' % (type(e).__name__, e),
                    inp='module %d, %s pickle (%d of %d bytes)' % (i, kind, len(blob), len(data)), count=0))
                d['count'] += 1
    return evals, fails


class Fault(Exception):
    pass


def part2(root):
    """Inject an exception at the k-th call of each primitive during load / save."""
    import parso
    from parso import cache as pc
    from pathlib import Path
    import os as real_os
    fails = {}
    evals = 0
    prims = {
        'open': [PermissionError(13, 'denied'), OSError(28, 'No space left on device'), FileNotFoundError(2, 'gone')],
        'pickle.load': [EOFError('Ran out of input'), pickle.UnpicklingError('bad'), AttributeError('x'), ImportError('y'),
                        IndexError('z'), MemoryError()],
        'pickle.dump': [OSError(28, 'No space left on device'), pickle.PicklingError('p'), RecursionError('deep')],
        'os.path.getmtime': [PermissionError(13, 'denied'), OSError(5, 'I/O error')],
        'os.makedirs': [PermissionError(13, 'denied'), OSError(30, 'Read-only file system'), FileExistsError(17, 'exists')],
        'os.utime': [PermissionError(13, 'denied'), OSError(30, 'Read-only file system')],
        'os.listdir': [PermissionError(13, 'denied'), FileNotFoundError(2, 'gone')],
        'os.scandir': [PermissionError(13, 'denied'), FileNotFoundError(2, 'gone')],
        'os.remove': [PermissionError(13, 'denied')],
    }
    for scenario in ('save', 'load', 'load-after-touch'):
        for prim, excs in prims.items():
            for exc in excs:
                for k in range(0, 4):
                    evals += 1
                    d = tempfile.mkdtemp(prefix='c17_', dir=root)
                    try:
                        src = Path(d) / 'm.py'
                        src.write_text(MODULES[1])
                        cdir = Path(d) / 'cache'
                        g = parso.load_grammar(version='3.10')
                        ref = g.parse(MODULES[1]).dump(indent=None)
                        pc.parser_cache.clear()
                        if scenario != 'save':
                            g.parse(path=src, cache=True, cache_path=cdir)
                            pc.parser_cache.clear()
                            if scenario == 'load-after-touch':
                                lock = pc._get_cache_clear_lock_path(cdir)
                                real_os.utime(lock, (1, 1))       # makes the next save run the clean-up
                        counter = [0]

                        def tripwire(name, real):
                            def f(*a, **kw):
                                # faults only hit the cache directory / pickle machinery, not the source file
                                if name in ('open', 'os.path.getmtime') and a and str(a[0]).endswith('m.py'):
                                    return real(*a, **kw)
                                if counter[0] == k:
                                    counter[0] += 1
                                    raise exc
                                counter[0] += 1
                                return real(*a, **kw)
                            return f
                        saved = {}
                        try:
                            if prim == 'open':
                                pc.open = tripwire('open', builtins.open)
                                saved['open'] = True
                            elif prim.startswith('pickle.'):
                                class P:
                                    pass
                                px = P()
                                for n in dir(pickle):
                                    if not n.startswith('__'):
                                        setattr(px, n, getattr(pickle, n))
                                setattr(px, prim.split('.')[1], tripwire(prim, getattr(pickle, prim.split('.')[1])))
                                saved['pickle'] = pc.pickle
                                pc.pickle = px
                            else:
                                class O:
                                    pass
                                ox = O()
                                for n in dir(real_os):
                                    if not n.startswith('__'):
                                        setattr(ox, n, getattr(real_os, n))
                                if prim == 'os.path.getmtime':
                                    class PP:
                                        pass
                                    pp = PP()
                                    for n in dir(real_os.path):
                                        if not n.startswith('__'):
                                            setattr(pp, n, getattr(real_os.path, n))
                                    pp.getmtime = tripwire(prim, real_os.path.getmtime)
                                    ox.path = pp
                                else:
                                    setattr(ox, prim.split('.')[1], tripwire(prim, getattr(real_os, prim.split('.')[1])))
                                saved['os'] = pc.os
                                pc.os = ox
                            import warnings
                            with warnings.catch_warnings():
                                warnings.simplefilter('ignore')
                                m = g.parse(path=src, cache=True, cache_path=cdir)
                            if m.dump(indent=None) != ref:
                                fails.setdefault(('bnd:C17.fault_is_miss', 'wrong-tree'), dict(
                                    ob='bnd:C17.fault_is_miss', sig='wrong-tree', detail='wrong tree', inp='%s %s' % (prim, exc), count=0))['count'] += 1
                        except Exception as e:  # noqa
                            if counter[0] <= k:
                                continue          # the fault point was never reached
                            sig = '%s:%s:%s' % (scenario, prim, type(e).__name__)
                            dd = fails.setdefault(('bnd:C17.fault_is_miss', sig), dict(
                                ob='bnd:C17.fault_is_miss', sig=sig,
                                detail='%s raised by call %d of %s during %s escapes parse(): %s' % (type(exc).__name__, k, prim, scenario, crash_signature(e)),
                                inp='scenario=%s primitive=%s call=%d exception=%r' % (scenario, prim, k, exc), count=0))
                            dd['count'] += 1
                        finally:
                            if 'open' in saved:
                                del pc.open
                            if 'pickle' in saved:
                                pc.pickle = saved['pickle']
                            if 'os' in saved:
                                pc.os = saved['os']
                    finally:
                        shutil.rmtree(d, ignore_errors=True)
    return evals, fails


def part3(root):
    """Clean-up removes only files not accessed for the survival time; never a fresh entry."""
    import parso
    from parso import cache as pc
    from pathlib import Path
    fails = {}
    g, src, cdir, hp, ref = setup(root, 1)
    old = os.path.join(os.path.dirname(hp), 'old-entry.pkl')
    with open(old, 'wb') as f:
        f.write(b'x')
    t = time.time() - pc._CACHED_FILE_MAXIMUM_SURVIVAL - 100
    os.utime(old, (t, t))
    pc.clear_inactive_cache(cache_path=cdir)
    if not os.path.exists(hp):
        fails[('bnd:C17.cleanup_spares_active', 'fresh-removed')] = dict(ob='bnd:C17.cleanup_spares_active', sig='fresh-removed',
                                                                          detail='a just-written entry was deleted', inp='clear_inactive_cache', count=1)
    if os.path.exists(old):
        fails[('bnd:C17.cleanup_spares_active', 'old-kept')] = dict(ob='bnd:C17.cleanup_spares_active', sig='old-kept',
                                                                     detail='an entry unused for > 30 days was kept', inp='clear_inactive_cache', count=1)
    # an entry in use inside a directory that looks old: the directory's own timestamps only move when a name is created or
    # removed in it, they say nothing about entries that are read, or re-saved in place, every day
    now = time.time()
    vdir = os.path.dirname(hp)
    if os.path.exists(hp):
        os.utime(hp, (now, t))              # read a moment ago, written long ago
        os.utime(vdir, (t, t))
        pc.clear_inactive_cache(cache_path=cdir)
        if not os.path.exists(hp):
            fails[('bnd:C17.cleanup_spares_active', 'in-use-removed')] = dict(
                ob='bnd:C17.cleanup_spares_active', sig='in-use-removed',
                detail='an entry read a moment ago was deleted because its directory (or its own mtime) is old', inp='clear_inactive_cache', count=1)
    # ... and through the real path: the lock is due, the source changed, the entry is re-saved in place, the clean-up runs
    g2, src2, cdir2, hp2, _ = setup(root, 2)
    vdir2 = os.path.dirname(hp2)
    lock = pc._get_cache_clear_lock_path(cache_path=cdir2)
    with open(lock, 'a'):
        pass
    os.utime(lock, (now - 3 * 24 * 3600, now - 3 * 24 * 3600))
    with open(src2, 'a') as f:
        f.write('\nz = 3\n')
    os.utime(src2, (now + 5, now + 5))
    os.utime(vdir2, (t, t))
    pc.parser_cache.clear()
    g2.parse(path=src2, cache=True, cache_path=cdir2)
    if not os.path.exists(hp2):
        fails[('bnd:C17.cleanup_spares_active', 'just-saved-removed')] = dict(
            ob='bnd:C17.cleanup_spares_active', sig='just-saved-removed',
            detail='the clean-up that ran after a save deleted the entry that had just been saved (its directory looked old)',
            inp='parse(cache=True) with a due lock', count=1)
    return 4, fails


def _hammer(args):
    """One of two processes that parse the same files through the same cache directory again and again, each starting with
    an empty memory cache every round, so that saves and loads of the two interleave on disk."""
    root, who, rounds = args
    import parso
    from parso import cache as pc
    from pathlib import Path
    g = parso.load_grammar(version='3.10')
    cdir = Path(os.path.join(root, 'shared_cache'))
    bad = []
    for r in range(rounds):
        for i in range(len(MODULES)):
            src = Path(os.path.join(root, 'two_m%d.py' % i))
            pc.parser_cache.clear()
            try:
                m = g.parse(path=src, cache=True, cache_path=cdir)
                if m.get_code() != MODULES[i]:
                    bad.append('process %d round %d module %d: wrong tree' % (who, r, i))
            except Exception as e:  # noqa
                bad.append('process %d round %d module %d: %s: %s' % (who, r, i, type(e).__name__, e))
            if (r + who) % 3 == 0:
                try:                      # force a re-save next time: the entry vanishes under the other process
                    os.remove(pc._get_hashed_path(g._hashed, src, cache_path=cdir))
                except OSError:
                    pass
    return bad


def part4(root, rounds):
    import multiprocessing as mp
    for i in range(len(MODULES)):
        with open(os.path.join(root, 'two_m%d.py' % i), 'w') as f:
            f.write(MODULES[i])
    with mp.get_context('fork').Pool(2) as pool:
        res = pool.map(_hammer, [(root, 0, rounds), (root, 1, rounds)])
    fails = {}
    for bad in res:
        for b in bad[:3]:
            fails.setdefault(('bnd:C17.two_processes', b.split(':')[1].strip()[:40]), dict(
                ob='bnd:C17.two_processes', sig=b.split(':')[1].strip()[:40], detail=b,
                inp='two processes, %d rounds over %d modules, shared cache directory' % (rounds, len(MODULES)), count=1))
    return 2 * rounds * len(MODULES), fails


def main():
    ap = argparse.ArgumentParser()
    ap.add_argument('--out', required=True)
    ap.add_argument('--repo', default='/repo')
    ap.add_argument('--deep', action='store_true')
    a = ap.parse_args()
    t0 = time.time()
    root = tempfile.mkdtemp(prefix='pv_c17_')
    DEEP[0] = a.deep
    if a.deep:
        try:            # a module of realistic size: its pickle is tens of kilobytes
            with open(os.path.join(a.repo, 'parso', 'file_io.py')) as f:
                MODULES.append(f.read())
        except OSError:
            pass
    try:
        e1, f1 = part1(root)
        e2, f2 = part2(root)
        e3, f3 = part3(root)
        e4, f4 = part4(root, 120 if a.deep else 12)
    finally:
        shutil.rmtree(root, ignore_errors=True)
    f3 = dict(f3, **f4)
    e3 += e4
    fails = list(f1.values()) + list(f2.values()) + list(f3.values())
    out = dict(prop='C17', evaluations=e1 + e2 + e3, distinct_nontrivial=e1 + e2 + e3, failures=fails,
               samples=['truncation of the pickle of module 1 at offset 17', 'EOFError at call 0 of pickle.load during load'],
               wall_s=round(time.time() - t0, 2), scope=dict(corruptions=e1, faults=e2, modules=len(MODULES)),
               rule='%d corrupted/truncated pickles (%s, 9 corruption patterns, %d modules), %d (scenario, primitive, exception, '
                    'call index < 4) fault injections, and two processes parsing the same %d files through one cache directory for '
                    '%d rounds each (entries removed under each other, saves and loads interleaving); every case is distinct'
                    % (e1, 'every truncation offset, partial overwrites and rotations at every 97th offset' if a.deep else
                       'every truncation offset < 400, strided beyond', len(MODULES), e2, len(MODULES), 120 if a.deep else 12),
               exhaustive=False)
    with open(a.out, 'w') as f:
        json.dump(out, f)


if __name__ == '__main__':
    main()
