from props.common import run_bounded, add_obs, ASSUME_BOUNDED
from pv import bounded as B
from pv import obs_effects as E


def run(report):
    add_obs(report, lambda: E.frame_obligations('C18', E.ENTRIES, E.PRUNE, interpreter_globals=True))
    report.assume("M-NI: calls whose write frames are per-call objects and whose shared reads are of state nobody writes "
                  "commute under any interleaving (standard non-interference argument over the discharged frame "
                  "obligations; not machine-checked)",
                  "class table of pv/obs_effects.py: SHARED classes, dynamic dispatch targets (A-DISPATCH), write-once "
                  "memo tables _token_collection_cache and _loaded_grammars",
                  "effects of the stdlib warnings module (catch_warnings in _StringChecks) on interpreter-global filters "
                  "are outside the frame")
    run_bounded(report, ['parse', 'stmt'], scale=0.4)
    res = B.run_script('harness.c18_extra', ['--seed', str(report.seed), '--rounds', '20' if report.tier == 'quick' else '200'])
    B.bounded_obligations(report, 'C18', ['bnd:C18.load_order', 'bnd:C18.threads'], res, functions=['parso.grammar.load_grammar'])
