"""C16 bounded stand-in: model-free enumeration of file/cache histories with the contract as monitor.

Environment model (harness side, no parso edit): a logical clock stands for modification times of *all* files
(sources and pickles): os.path.getmtime is answered from a table, every write of a source or of a pickle advances
the clock -- so "content changes => strictly newer mtime" holds by construction (the property's proviso), while
coarse real timestamps cannot produce false alarms.

Operations on files f0, f1 (two grammar versions, two cache directories):
  W  write new content        T  touch (mtime advances, same content)
  C  parse(path, cache=True)  D  parse(path, cache=True, diff_cache=True)   N  parse(path) without cache
  R  drop the in-memory cache (new process)     X  delete the cache directory
  Z  write-during-parse: content is read, then the file is rewritten before the cache stamps the entry
  S  strict parse through the cache: parse(path, cache=True, error_recovery=False) -- must raise exactly when a fresh strict
     parse of the current content raises, and otherwise return the same tree
  B  back-dated write: new content whose modification time is strictly newer than the file's previous one but older than
     the clock (cp -p, rsync -t, tar, a checkout that restores times): still "observable as a newer modification time"
Postcondition of every parse: dump() equals a fresh non-caching parse of the file's *current* content.
"""
import argparse
import itertools
import json
import multiprocessing as mp
import os
import random
import shutil
import sys
import tempfile
import time

sys.path.insert(0, os.path.dirname(os.path.dirname(os.path.abspath(__file__))))
from harness.treeutil import crash_signature  # noqa

CONTENTS = ['(a := 1)\n', 'def f(a, /): pass\n', 'a = 1\n', 'def f():\n    return 2\n', 'a = 1\nb = (\n', 'class C:\n  x = [1,\n 2]\n\nprint(C)\n', '', 'if a:\n  b\nelse:\n  c\n']
OPS = ['W', 'T', 'C', 'D', 'N', 'R', 'X', 'Z', 'B', 'S']


class World:
    def __init__(self, root, small_gc=False):
        import parso
        from parso import cache as pc
        self.parso, self.pc = parso, pc
        self.root = root
        self.clock = 1000.0
        self.mtime = {}
        self.files = [os.path.join(root, 'f0.py'), os.path.join(root, 'f1.py')]
        # a third file whose *spelling* normalises lexically to the first file's path but names another file: root/link is a
        # symbolic link to root/e/sub, so root/link/../f0.py is root/e/f0.py (entries of different paths must not be confused)
        os.makedirs(os.path.join(root, 'e', 'sub'), exist_ok=True)
        try:
            os.symlink(os.path.join(root, 'e', 'sub'), os.path.join(root, 'link'))
            self.files.append(os.path.join(root, 'link', '..', 'f0.py'))
        except OSError:
            self.files.append(os.path.join(root, 'e', 'f0.py'))
        self.cdirs = [os.path.join(root, 'cacheA'), os.path.join(root, 'cacheB')]
        self.content = {}
        self.next_content = {f: i for i, f in enumerate(self.files)}      # the two files never hold the same text initially
        self.grammars = [parso.load_grammar(version='3.6'), parso.load_grammar(version='3.12')]
        self._orig_getmtime = os.path.getmtime
        self._orig_save = pc._save_to_file_system
        w = self

        def getmtime(p):
            p = os.fspath(p)
            if p in w.mtime:
                if not os.path.exists(p):
                    raise FileNotFoundError(p)
                return w.mtime[p]
            return w._orig_getmtime(p)

        def save(hashed_grammar, path, item, cache_path=None):
            w._orig_save(hashed_grammar, path, item, cache_path=cache_path)
            hp = pc._get_hashed_path(hashed_grammar, path, cache_path=cache_path)
            w.tick()
            w.mtime[os.fspath(hp)] = w.clock
        self._orig_utime = os.utime

        def utime(p, times=None, **kw):
            # a touch of a tracked file (source or pickle) moves its logical mtime like any other write of its metadata
            w._orig_utime(p, times, **kw)
            q = os.fspath(p)
            if q in w.mtime and times is None:
                w.tick()
                w.mtime[q] = w.clock
        os.utime = utime
        os.path.getmtime = getmtime
        pc._save_to_file_system = save
        pc._remove_cache_and_update_lock = lambda cache_path=None: None     # clean-up is C17's business
        self._orig_trigger = pc._CACHED_SIZE_TRIGGER
        if small_gc:
            pc._CACHED_SIZE_TRIGGER = 1      # the in-memory garbage collection runs on every store (tuning constant)
        for f in self.files:
            self.write(f)

    def close(self):
        os.path.getmtime = self._orig_getmtime
        os.utime = self._orig_utime
        self.pc._save_to_file_system = self._orig_save
        self.pc._CACHED_SIZE_TRIGGER = self._orig_trigger
        self.pc.parser_cache.clear()

    def tick(self):
        self.clock += 1.0

    def write(self, f):
        i = self.next_content[f]
        self.next_content[f] = (i + 1) % len(CONTENTS)
        txt = CONTENTS[i] + '# %s\n' % os.path.basename(f) * (i % 2)
        with open(f, 'w', newline='') as fh:
            fh.write(txt)
        self.content[f] = txt
        self.tick()
        self.mtime[f] = self.clock

    def touch(self, f):
        self.tick()
        self.mtime[f] = self.clock

    def write_backdated(self, f):
        old = self.mtime.get(f, 0.0)
        self.write(f)
        # strictly newer than the file's previous mtime, but (if the file was written before) older than everything
        # stamped since then
        self.mtime[f] = old + 0.25 if old else self.clock

    def parse(self, f, gi, ci, cache, diff, race=False):
        from pathlib import Path
        from parso.file_io import FileIO
        g = self.grammars[gi]
        w = self
        if race:
            class RacyIO(FileIO):
                def read(self_inner):
                    data = FileIO.read(self_inner)
                    w.write(f)              # the file changes after it was read, before the entry is stamped
                    return data
            node = g.parse(path=Path(f), cache=cache, diff_cache=diff, cache_path=Path(self.cdirs[ci]), file_io=RacyIO(Path(f)))
            return node, None               # result may be either content; the *next* parse is what is judged
        node = g.parse(path=Path(f), cache=cache, diff_cache=diff, cache_path=Path(self.cdirs[ci]))
        fresh = g.parse(self.content[f])
        return node, fresh


def run_history(args):
    hist, small_gc = args
    root = tempfile.mkdtemp(prefix='pv_c16_')
    w = None
    try:
        w = World(root, small_gc)
        for step, (op, fi, gi, ci) in enumerate(hist):
            f = w.files[fi]
            try:
                if op == 'W':
                    w.write(f)
                elif op == 'T':
                    w.touch(f)
                elif op == 'B':
                    w.write_backdated(f)
                elif op == 'R':
                    w.pc.parser_cache.clear()
                elif op == 'X':
                    for c in w.cdirs:
                        shutil.rmtree(c, ignore_errors=True)
                elif op == 'S':
                    from pathlib import Path
                    from parso.parser import ParserSyntaxError
                    g = w.grammars[gi]
                    try:
                        fresh = g.parse(w.content[f], error_recovery=False)
                    except ParserSyntaxError:
                        fresh = None
                    try:
                        node = g.parse(path=Path(f), cache=True, error_recovery=False, cache_path=Path(w.cdirs[ci]))
                    except ParserSyntaxError:
                        node = None
                    if (node is None) != (fresh is None):
                        return ('bnd:C16.parse_equals_fresh', 'strict-through-cache',
                                'step %d S on %s: a fresh strict parse %s, the strict parse through the cache %s (content %r...)'
                                % (step, os.path.basename(f), 'raises' if fresh is None else 'returns a tree',
                                   'raises' if node is None else 'returns a tree', w.content[f][:30]), hist)
                    if node is not None and node.dump(indent=None) != fresh.dump(indent=None):
                        return ('bnd:C16.parse_equals_fresh', 'strict-through-cache', 'step %d S: tree differs from a fresh strict parse' % step, hist)
                elif op in 'CDNZ':
                    node, fresh = w.parse(f, gi, ci, cache=op in 'CDZ', diff=op == 'D', race=op == 'Z')
                    if fresh is not None and node.dump(indent=None) != fresh.dump(indent=None):
                        stale = 'after-race' if any(h[0] == 'Z' and h[1] == fi for h in hist[:step]) else 'no-race'
                        return ('bnd:C16.parse_equals_fresh', stale,
                                'step %d %s on %s: returned tree is not the parse of the current content (got %r..., current %r...)'
                                % (step, op, os.path.basename(f), node.get_code()[:30], w.content[f][:30]), hist)
                    if fresh is not None and node.get_code() != w.content[f]:
                        return ('bnd:C16.parse_equals_fresh', 'code', 'get_code differs', hist)
            except Exception as e:  # noqa
                return ('bnd:C16.parse.total', crash_signature(e), '%s: %s' % (type(e).__name__, e), hist)
        return None
    finally:
        if w is not None:
            w.close()
        shutil.rmtree(root, ignore_errors=True)


def histories(length, seed, sample):
    acts = []
    for op in OPS:
        if op in 'RX':
            acts.append((op, 0, 0, 0))
        elif op in 'WT':
            acts += [(op, 0, 0, 0), (op, 1, 0, 0)]
        elif op in 'ZBS':
            acts += [(op, 0, 0, 0)]
        else:
            acts += [(op, 0, 0, 0), (op, 1, 0, 0), (op, 0, 1, 0), (op, 0, 0, 1)]
    out = []
    for L in range(1, length + 1):
        allh = itertools.product(acts, repeat=L)
        if len(acts) ** L <= sample:
            out += [list(h) for h in allh]
        else:
            rng = random.Random(seed * 31 + L)
            out += [[rng.choice(acts) for _ in range(L)] for _ in range(sample)]
    # structured histories (longer than the exhaustive bound): a file is cached, changes, is parsed again in some other
    # way (other cache directory / diff cache / no cache), is parsed again, the process restarts, and it is parsed once more
    ps = [(op, 0, 0, ci) for op in 'CDN' for ci in (0, 1)]
    for p1 in ps[:2] + ps[2:4]:
        for p2 in ps:
            for p3 in ps:
                for p4 in ps[:4]:
                    out.append([p1, ('W', 0, 0, 0), p2, p3, ('R', 0, 0, 0), p4])
    # ... two files whose paths differ only by a spelling that lexical normalisation would identify (index 2, see World)
    for p1 in ps[:4]:
        for p2 in ps[:4]:
            a1, a2 = (p1[0], 0, 0, p1[3]), (p2[0], 2, 0, p2[3])
            out.append([a1, a2])
            out.append([a2, a1])
            out.append([a1, ('R', 0, 0, 0), a2])
            out.append([a2, ('R', 0, 0, 0), a1, a2])
    # ... strict parses through the cache around recovering ones, on every content (some contents do not parse cleanly)
    for n in range(len(CONTENTS)):
        pre = [('W', 0, 0, 0)] * n
        for p1 in ps[:2]:
            out.append(pre + [p1, ('S', 0, 0, 0)])
            out.append(pre + [('S', 0, 0, 0), p1, ('S', 0, 0, 0)])
            out.append(pre + [p1, ('R', 0, 0, 0), ('S', 0, 0, 0)])
    # ... a cached file is replaced by a version with a back-dated (but newer) modification time, with and without a restart
    for p1 in ps[:4]:
        for p4 in ps[:4]:
            out.append([('W', 0, 0, 0), p1, ('B', 0, 0, 0), p4])
            out.append([('W', 0, 0, 0), p1, ('R', 0, 0, 0), ('B', 0, 0, 0), p4])
            out.append([('W', 0, 0, 0), p1, ('B', 0, 0, 0), ('R', 0, 0, 0), p4, p4])
    # ... and two grammar versions taking turns on one file around a change of the file (an entry must never be
    # filed under, or served to, the other version)
    for ga in (0, 1):
        gb = 1 - ga
        for o1, o2, o3, o4 in itertools.product('CD', repeat=4):
            out.append([(o1, 0, ga, 0), (o2, 0, gb, 0), ('W', 0, 0, 0), (o3, 0, ga, 0), (o4, 0, gb, 0)])
            out.append([(o1, 0, ga, 0), (o2, 1, gb, 0), ('W', 0, 0, 0), (o3, 0, ga, 0), (o4, 0, gb, 0)])
    # histories without any parse are trivial
    return [h for h in out if any(a[0] in 'CDNZS' for a in h)], len(acts)


def main():
    ap = argparse.ArgumentParser()
    ap.add_argument('--length', type=int, default=3)
    ap.add_argument('--sample', type=int, default=6000)
    ap.add_argument('--seed', type=int, default=0)
    ap.add_argument('--out', required=True)
    ap.add_argument('--repo', default='/repo')
    a = ap.parse_args()
    t0 = time.time()
    hs, nacts = histories(a.length, a.seed, a.sample)
    with mp.Pool(16) as pool:
        res = pool.map(run_history, [(h, False) for h in hs] + [(h, True) for h in hs], chunksize=32)
    fails = {}
    for r in res:
        if r is None:
            continue
        ob, sig, detail, hist = r
        k = (ob, sig)
        if k not in fails or len(hist) < len(fails[k]['history']):
            c = fails.get(k, {}).get('count', 0)
            fails[k] = dict(ob=ob, sig=sig, detail=detail, inp=json.dumps(hist), history=hist, count=c)
        fails[k]['count'] += 1
    out = dict(prop='C16', evaluations=2 * len(hs), distinct_nontrivial=len({json.dumps(h) for h in hs}),
               failures=[{k: v for k, v in f.items() if k != 'history'} for f in fails.values()],
               samples=[hs[i] for i in range(0, len(hs), max(1, len(hs) // 4))][:4], wall_s=round(time.time() - t0, 2),
               scope=dict(max_length=a.length, actions=nacts, sample_per_length=a.sample, seed=a.seed),
               rule='every history of length <= L over %d actions (ops W T C D N R X Z x file x grammar version x cache '
                    'directory) while the number of histories of a length is <= %d, seeded samples of that size beyond; '
                    'plus the 576 structured 6-step histories parse / write / parse / parse / restart / parse over (C D N) x (two cache directories) '
                    'and 64 5-step histories in which two grammar versions take turns on a file around a change of it; '
                    'os.utime on a tracked file advances its logical mtime; histories without a parse are dropped; each history is run with the in-memory GC trigger at its default (600) '
                    'and at 1; all counted histories are distinct' % (nacts, a.sample),
               exhaustive=False)
    with open(a.out, 'w') as f:
        json.dump(out, f)


if __name__ == '__main__':
    main()
