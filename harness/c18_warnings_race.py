import sys, threading, warnings
sys.path.insert(0, '/repo')
import parso
g = parso.load_grammar()
m = g.parse(''.join('x%d = "a%d"\n' % (i, i) for i in range(300)))
before = list(warnings.filters)
sys.setswitchinterval(1e-6)
def work():
    for _ in range(10):
        g.iter_errors(m)
for rnd in range(12):
    ts = [threading.Thread(target=work) for _ in range(8)]
    [t.start() for t in ts]; [t.join() for t in ts]
    if list(warnings.filters) != before:
        print('round', rnd, 'warnings.filters changed for good: first entry now', warnings.filters[0]); sys.exit(1)
print('filters unchanged after 12 rounds'); sys.exit(0)
