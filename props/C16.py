from props.common import ASSUME_BOUNDED
from pv import bounded as B

NAMES = ['bnd:C16.parse_equals_fresh', 'bnd:C16.parse.total']


def run(report):
    tier = report.tier
    res = B.run_script('harness.c16_run', ['--length', '3' if tier == 'quick' else '5',
                                          '--sample', '6000' if tier == 'quick' else '60000', '--seed', str(report.seed)])
    B.bounded_obligations(report, 'C16', NAMES, res, functions=['parso.cache.load_module', 'parso.cache.try_to_save_module',
                                                                 'parso.cache._load_from_file_system', 'parso.grammar.Grammar.parse'])
    report.assume(ASSUME_BOUNDED,
                  "environment model of the harness: a logical clock answers os.path.getmtime for sources and pickles, "
                  "every write advances it (the property's proviso 'a change is observable as a newer modification time')")
