"""Oracles derived from the independent reading of the grammar text (spec/ebnf.py):
  * shape conformance of parsed trees (C05)
  * generated derivations covering every automaton arc, with their expected collapsed trees (C06)
"""
import glob
import heapq
import os
import re

from spec import ebnf

_cache = {}


def spec_grammar(repo, version):
    key = (repo, version)
    if key not in _cache:
        major, minor = version.split('.')
        p = os.path.join(repo, 'parso', 'python', 'grammar%s%s.txt' % (major, minor))
        with open(p) as f:
            text = f.read()
        g = ebnf.Grammar(text)
        # the documented convention "the final newline may be absent at end of file": same grammar with the
        # NEWLINE of simple_stmt optional; only consulted for nodes whose last leaf is at the end of the file
        relaxed = re.sub(r'(?m)^(simple_stmt:.*?)\bNEWLINE\b', r'\1[NEWLINE]', text)
        g.relaxed = ebnf.Grammar(relaxed) if relaxed != text else g
        g.relaxed._unit = g.relaxed.unit_closure()
        g._unit = g.unit_closure()
        _cache[key] = g
    return _cache[key]


# ======================================================================== C05: conformance
TOKEN_OF_LEAF = {'name': 'NAME', 'number': 'NUMBER', 'string': 'STRING', 'newline': 'NEWLINE', 'endmarker': 'ENDMARKER',
                 'fstring_start': 'FSTRING_START', 'fstring_string': 'FSTRING_STRING', 'fstring_end': 'FSTRING_END'}
RULE_OF_TYPE = {'lambdef': ('lambdef', 'lambdef_nocond')}


def reserved(g):
    if not hasattr(g, '_reserved'):
        g._reserved = {l[1:] for n in g.names for s in g.dfa[n].trans for l in s if l.startswith("'")}
    return g._reserved


def leaf_symbols(g, leaf):
    """Terminal labels a leaf can stand for."""
    t = leaf.type
    if t in ('keyword', 'operator'):
        out = set()
        if leaf.value in reserved(g):
            out.add("'" + leaf.value)
        if t == 'operator':
            if leaf.value == '':
                out.update(['INDENT', 'DEDENT'])
            else:
                out.add('OP')
        else:
            out.add('NAME')
        return out
    if t == 'name':
        return {'NAME'}
    if t in TOKEN_OF_LEAF:
        return {TOKEN_OF_LEAF[t]}
    return set()


def child_symbols(g, c):
    if hasattr(c, 'children'):
        if c.type == 'error_node':
            return {'<error>'}
        return set(RULE_OF_TYPE.get(c.type, (c.type,)))
    if c.type == 'error_leaf':
        return {'<error>'}
    return leaf_symbols(g, c)


def accepts(g, rule, symsets, unit, allow_error_as=None):
    """Is some choice of symbols from symsets a sentence of the rule (modulo single-child collapsing)?"""
    nfa = g.nfa[rule]
    cur = nfa.closure({nfa.start})
    for ss in symsets:
        nxt = set()
        for s in cur:
            for l, z in nfa.arcs[s]:
                ok = False
                if l in ss:
                    ok = True
                elif l in unit and unit[l] & ss:
                    ok = True
                elif allow_error_as and '<error>' in ss and any(
                        l == e or (l in unit and e in unit[l]) for e in allow_error_as):
                    ok = True
                if ok:
                    nxt.add(z)
        cur = nfa.closure(nxt)
        if not cur:
            return False
    return nfa.final in cur


def flatten_params(children):
    out = []
    for c in children:
        if hasattr(c, 'children') and c.type == 'param':
            out.extend(c.children)
        else:
            out.append(c)
    return out


def check_node(g, node, unit, is_last_stmt):
    """-> None if the node conforms, else a short reason."""
    t = node.type
    if t in ('error_node',):
        return None
    rules = [r for r in RULE_OF_TYPE.get(t, (t,)) if r in g.nfa]
    if t == 'param':
        return None        # grouping node of the documented convention; checked through its parent
    if not rules:
        return 'node type %s is not a rule of the grammar' % t
    ch = list(node.children)
    if len(ch) == 1 and t != 'file_input':
        return 'single-child node %s was not collapsed' % t
    variants = []
    if t == 'suite':
        # virtual INDENT / DEDENT are omitted
        if ch and not hasattr(ch[0], 'children') and ch[0].type == 'newline':
            syms = [child_symbols(g, ch[0]), {'INDENT'}] + [child_symbols(g, c) for c in ch[1:]] + [{'DEDENT'}]
        else:
            syms = [child_symbols(g, c) for c in ch]
        variants.append(syms)
    elif t in ('parameters', 'lambdef'):
        flat = flatten_params(ch)
        if t == 'parameters':
            inner = flat[1:-1]
            head, tail = flat[:1], flat[-1:]
        else:
            inner = flat[1:-2]
            head, tail = flat[:1], flat[-2:]
        lst = 'typedargslist' if t == 'parameters' else 'varargslist'
        if not inner:
            variants.append([child_symbols(g, c) for c in head + tail])
        else:
            syms_in = [child_symbols(g, c) for c in inner]
            one = len(inner) == 1
            ok_list = accepts(g, lst, syms_in, unit) or (one and bool(unit[lst] & syms_in[0])) or \
                (one and any(x in unit and unit[x] & unit[lst] for x in syms_in[0]))
            if not ok_list and one:
                ok_list = any(s in unit[lst] for s in syms_in[0])
            if not ok_list:
                return '%s: parameter list %r is not a %s' % (t, [sorted(s) for s in syms_in][:6], lst)
            variants.append([child_symbols(g, c) for c in head] + [{lst}] + [child_symbols(g, c) for c in tail])
    else:
        variants.append([child_symbols(g, c) for c in ch])
    # error nodes / leaves stand where a statement (in file_input / suite) or a block (a collapsed suite) is expected
    err_as = ('stmt', 'suite') if t in ('file_input', 'suite') else ('suite',)
    for syms in variants:
        for r in rules:
            if accepts(g, r, syms, unit, err_as):
                return None
    if is_last_stmt:
        gr = g.relaxed
        for syms in variants:
            for r in rules:
                if r in gr.nfa and accepts(gr, r, syms, gr._unit, err_as):
                    return None
    if not is_last_stmt:
        gr = g.relaxed
        for syms in variants:
            for r in rules:
                if r in gr.nfa and accepts(gr, r, syms, gr._unit, err_as):
                    return 'midfile-missing-newline: %s contains a statement without its NEWLINE that is not at the end of the file' % t
    if any('<error>' in s for syms in variants for s in syms):
        return 'error node/leaf inside a %s node where neither a statement nor a block is expected' % t
    return 'children of %s are not a sentence of the rule: %r' % (t, [sorted(s)[:3] for s in variants[0]][:8])


def conformance(g, module):
    """-> list of (node type, reason)"""
    unit = g._unit
    out = []
    # which simple_stmt may lack its NEWLINE: one whose last leaf is directly followed by only zero-width leaves + endmarker
    leaves = []
    st = [module]
    while st:
        n = st.pop()
        if hasattr(n, 'children'):
            st.extend(reversed(n.children))
        else:
            leaves.append(n)
    idx = {id(l): i for i, l in enumerate(leaves)}

    def last_leaf(n):
        while hasattr(n, 'children'):
            n = n.children[-1]
        return n

    def at_eof(n):
        i = idx[id(last_leaf(n))] + 1
        while i < len(leaves) and leaves[i].value == '' and leaves[i].type != 'endmarker':
            i += 1
        return i < len(leaves) and leaves[i].type == 'endmarker' or i >= len(leaves)

    st = [module]
    while st:
        n = st.pop()
        if not hasattr(n, 'children'):
            continue
        if n.type != 'error_node':
            r = check_node(g, n, unit, at_eof(n))
            if r:
                out.append((n.type, r))
            st.extend(n.children)
        # the inside of an error node is unfinished by definition: not checked
    return out


# ======================================================================== C06: derivations
class Deriver:
    def __init__(self, g):
        self.g = g
        self.cost = {}          # symbol -> min number of tokens
        self.word = {}          # rule -> min-cost accepted word (list of labels)
        self._costs()

    def _sym_cost(self, l):
        if self.g.is_terminal(l):
            return 1
        return self.cost.get(l, float('inf'))

    def _costs(self):
        g = self.g
        changed = True
        while changed:
            changed = False
            for n in g.names:
                d = g.dfa[n]
                dist, path = self._dijkstra(d, 0)
                best = None
                for f in d.final:
                    if f in dist and (best is None or dist[f] < dist[best]):
                        best = f
                if best is not None and dist[best] < self.cost.get(n, float('inf')):
                    self.cost[n] = dist[best]
                    self.word[n] = path[best]
                    changed = True

    def _dijkstra(self, d, src):
        dist = {src: 0}
        path = {src: []}
        pq = [(0, src)]
        while pq:
            c, s = heapq.heappop(pq)
            if c > dist.get(s, float('inf')):
                continue
            for l, t in sorted(d.trans[s].items()):
                w = self._sym_cost(l)
                if w == float('inf'):
                    continue
                if c + w < dist.get(t, float('inf')):
                    dist[t] = c + w
                    path[t] = path[s] + [l]
                    heapq.heappush(pq, (c + w, t))
        return dist, path

    def to_final(self, d, src):
        """min-cost word from state src to a final state"""
        dist, path = self._dijkstra(d, src)
        best = None
        for f in d.final:
            if f in dist and (best is None or dist[f] < dist[best]):
                best = f
        return None if best is None else path[best]

    def word_through(self, rule, s, l, t):
        d = self.g.dfa[rule]
        dist, path = self._dijkstra(d, 0)
        if s not in dist or self._sym_cost(l) == float('inf'):
            return None, None
        tail = self.to_final(d, t)
        if tail is None:
            return None, None
        return path[s] + [l] + tail, len(path[s])

    def parents(self, starts):
        """rule -> (parent rule, s, t) on a cheapest embedding chain from a start rule"""
        g = self.g
        best = {s: (0, None) for s in starts}
        pq = [(0, s) for s in starts]
        heapq.heapify(pq)
        while pq:
            c, q = heapq.heappop(pq)
            if c > best[q][0]:
                continue
            d = g.dfa[q]
            for s, tr in enumerate(d.trans):
                for l, t in tr.items():
                    if g.is_terminal(l):
                        continue
                    w, _ = self.word_through(q, s, l, t)
                    if w is None:
                        continue
                    cc = c + sum(self._sym_cost(x) for x in w) - self._sym_cost(l)
                    if l not in best or cc < best[l][0]:
                        best[l] = (cc, (q, s, t))
                        heapq.heappush(pq, (cc, l))
        return best

    def expand(self, label):
        """derivation tree of a symbol: ('T', label) or ('N', rule, [children])"""
        if self.g.is_terminal(label):
            return ('T', label)
        return ('N', label, [self.expand(x) for x in self.word[label]])

    def tree_through(self, rule, s, l, t):
        w, pos = self.word_through(rule, s, l, t)
        if w is None:
            return None
        return ('N', rule, [self.expand(x) for x in w])

    def embed(self, tree, rule, parents):
        """wrap the derivation tree of `rule` into a derivation from the start rule"""
        cur_tree, cur = tree, rule
        while parents[cur][1] is not None:
            q, s, t = parents[cur][1]
            w, pos = self.word_through(q, s, cur, t)
            kids = [self.expand(x) for x in w]
            kids[pos] = cur_tree
            cur_tree, cur = ('N', q, kids), q
        return cur_tree

    def sentences(self, starts):
        """One derivation per automaton arc of every rule reachable from the start rules."""
        par = self.parents(starts)
        g = self.g
        for rule in g.names:
            if rule not in par:
                continue
            d = g.dfa[rule]
            for s, tr in enumerate(d.trans):
                for l, t in sorted(tr.items()):
                    tr_ = self.tree_through(rule, s, l, t)
                    if tr_ is None:
                        continue
                    yield (rule, s, l), self.embed(tr_, rule, par)


    def sentences_pairs(self, starts):
        """One derivation per pair of consecutive automaton arcs (s -l-> t -l2-> t2) of every reachable rule: every way two
        steps of a rule follow each other (repetitions, separators followed by another item, optional parts in sequence)."""
        par = self.parents(starts)
        g = self.g
        for rule in g.names:
            if rule not in par:
                continue
            d = g.dfa[rule]
            dist, path = self._dijkstra(d, 0)
            for s, tr in enumerate(d.trans):
                if s not in dist:
                    continue
                for l, t in sorted(tr.items()):
                    if self._sym_cost(l) == float('inf'):
                        continue
                    for l2, t2 in sorted(d.trans[t].items()):
                        if self._sym_cost(l2) == float('inf'):
                            continue
                        tail = self.to_final(d, t2)
                        if tail is None:
                            continue
                        w = path[s] + [l, l2] + tail
                        tree = ('N', rule, [self.expand(x) for x in w])
                        yield (rule, s, l, 'then', l2), self.embed(tree, rule, par)

    def sentences_in_sites(self, starts):
        """One derivation per (use site of a rule, automaton arc of that rule): every arc of R is also taken inside
        every rule that refers to R, not only inside R's cheapest context."""
        par = self.parents(starts)
        g = self.g
        sites = {}
        for q in g.names:
            if q not in par:
                continue
            for s, tr in enumerate(g.dfa[q].trans):
                for l, t in sorted(tr.items()):
                    if not g.is_terminal(l):
                        sites.setdefault(l, []).append((q, s, t))
        for rule in g.names:
            if rule not in par or len(sites.get(rule, ())) < 2:
                continue
            d = g.dfa[rule]
            for (q, qs, qt) in sites[rule]:
                if par[rule][1] == (q, qs, qt):
                    continue        # the cheapest context: already produced by sentences()
                w, pos = self.word_through(q, qs, rule, qt)
                if w is None:
                    continue
                for s, tr in enumerate(d.trans):
                    for l, t in sorted(tr.items()):
                        inner = self.tree_through(rule, s, l, t)
                        if inner is None:
                            continue
                        kids = [self.expand(x) for x in w]
                        kids[pos] = inner
                        yield (rule, s, l, q, qs), self.embed(('N', q, kids), q, par)


# spellings of the token classes; which one a token gets rotates with its position in the sentence and the sentence's length,
# so that every spelling occurs in many contexts although each sentence is rendered once per variant
SPELL = {'NAME': ['a', 'xy', '_z9', '\xe9t\xe9', 'print', 'match'],
         'NUMBER': ['1', '0x1F', '2.5e3', '09j', '0_7J', '1_000', '0o17', '0b1', '.5', '1e-3', '00', '1.j', '0_0', '5E1_0j'],
         'STRING': ["'s'", '"t"', "b'u'", "rb'v'", "'''w'''", 'u"x"', "R'y'", '"""z"""'],
         # literal text of an f-string may be spelled like a keyword or operator of the grammar: it stays literal text
         'FSTRING_START': ["f'", 'f"', "F'"], 'FSTRING_STRING': ['.', 'q', 'if'], 'FSTRING_END': ["'", '"', "'"]}


def leaf_kind(label, text):
    """The kind of leaf a terminal of the grammar becomes (parso's documented convention, read independently of
    convert_leaf): a quoted grammar string is a keyword when it is a word and an operator otherwise; a token type gives the
    leaf type of the same name."""
    if label.startswith("'"):
        return 'keyword' if (text[:1].isalpha() or text[:1] == '_') else 'operator'
    return label.lower()


def render(tree, variant=0):
    """-> (text, [terminal labels], leaves [(label, text)])"""
    toks = []

    def walk(t):
        if t[0] == 'T':
            toks.append(t[1])
        else:
            for c in t[2]:
                walk(c)
    walk(tree)
    out = []
    indent = 0
    at_line_start = True
    in_f = []        # stack of brace depths for nested f-strings
    leaves = []
    ind_unit = '    ' if variant != 1 else '\t'
    for l in toks:
        if l == 'INDENT':
            indent += 1
            leaves.append((l, ''))
            continue
        if l == 'DEDENT':
            indent -= 1
            leaves.append((l, ''))
            continue
        if l == 'ENDMARKER':
            leaves.append((l, ''))
            continue
        if l == 'NEWLINE':
            out.append('\n')
            at_line_start = True
            leaves.append((l, '\n'))
            continue
        if l.startswith("'"):
            txt = l[1:]
        else:
            if l in ('NAME', 'NUMBER', 'STRING'):
                txt = SPELL[l][(variant + len(out) + len(toks)) % len(SPELL[l])]
            else:
                txt = SPELL[l][variant % 3] if l in SPELL else l
        literal_ctx = bool(in_f) and in_f[-1] == 0
        if at_line_start:
            out.append(ind_unit * indent)
            at_line_start = False
        elif not literal_ctx and l != 'FSTRING_END' or (l == 'FSTRING_END' and in_f and in_f[-1] > 0):
            out.append(' ')
        if l == 'FSTRING_START':
            in_f.append(0)
        elif l == 'FSTRING_END' and in_f:
            in_f.pop()
        elif in_f and txt == '{':
            in_f[-1] += 1
        elif in_f and txt == '}':
            in_f[-1] -= 1
        out.append(txt)
        leaves.append((l, txt))
    return ''.join(out), toks, leaves


def collapse(tree):
    """Expected parso tree shape of a derivation: ('L', text) / ('N', type, [children])"""
    if tree[0] == 'T':
        return None     # filled by the caller with texts
    raise NotImplementedError


def expected_shape(tree, texts):
    """Apply the documented conventions to a derivation tree.  texts: iterator over leaf texts in order."""
    if tree[0] == 'T':
        txt = next(texts)
        if tree[1] in ('INDENT', 'DEDENT'):
            return None
        return ('L', txt, leaf_kind(tree[1], txt))
    kids = [expected_shape(c, texts) for c in tree[2]]
    kids = [k for k in kids if k is not None]
    rule = tree[1]
    if len(kids) == 1 and rule != 'file_input':
        return kids[0]
    if rule == 'lambdef_nocond':
        rule = 'lambdef'
    return ('N', rule, kids)


def actual_shape(node):
    if not hasattr(node, 'children'):
        return ('L', node.value, node.type)
    kids = []
    for c in node.children:
        # the param grouping convention applies to the children of parameters / lambdef only: a param node anywhere
        # else stays in the shape and differs from the derivation
        if hasattr(c, 'children') and c.type == 'param' and node.type in ('parameters', 'lambdef'):
            kids.extend(actual_shape(x) for x in c.children)
        else:
            kids.append(actual_shape(c))
    return ('N', node.type, kids)


def normalise_params(shape):
    """typedargslist / varargslist directly under parameters / lambdef are flattened (param grouping convention)."""
    if shape[0] == 'L':
        return shape
    kids = []
    for k in shape[2]:
        k = normalise_params(k)
        if k[0] == 'N' and k[1] in ('typedargslist', 'varargslist') and shape[1] in ('parameters', 'lambdef'):
            kids.extend(k[2])
        else:
            kids.append(k)
    return ('N', shape[1], kids)
