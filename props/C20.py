from props.common import run_bounded, verify_keys, add_obs
from pv import obs_effects as E
from pv import obs_classes as C

KEYS = ['parso.normalizer.Issue.__init__', 'parso.normalizer.Issue.__eq__', 'parso.normalizer.Normalizer.add_issue',
        'parso.python.prefix.PrefixPart.end_pos', 'parso.python.prefix.PrefixPart.create_spacing_part']


def run(report):
    add_obs(report, lambda: E.tree_purity_obligations('C20', ['parso.grammar.Grammar._get_normalizer_issues']))
    add_obs(report, C.add_issue_callsite_obligations, 'parso.python.pep8', 'C20')
    verify_keys(report, KEYS)
    report.assume("nullability obligations of the PEP 8 visitor (the bracket/suite stack discipline of _indentation_tos) "
                  "are not discharged deductively; totality rests on the bounded stand-in, where the crash sites of the "
                  "unchanged tree are listed as known findings")
    run_bounded(report, ['pep8', 'blk'], scale=0.6)
