"""C18 bounded stand-in (run-time frame monitor): a deep fingerprint of all shared objects is equal before and
after parse / iter_errors / normalizer / tokenize, and results do not depend on what was parsed before."""
import sys
import threading

from harness.treeutil import Fail, crash_signature
from harness.preds import grammar

_warm = set()
_fp = {}
_prev = {}


def fingerprint(g):
    import parso.grammar as pg_mod
    import parso.python.tokenize as tk
    import parso.python.errors as er
    import parso.python.pep8 as p8
    import parso.normalizer as nz
    out = []
    pg = g._pgen_grammar
    ids = {}
    for n, dfas in pg.nonterminal_to_dfas.items():
        for i, d in enumerate(dfas):
            ids[id(d)] = (n, i)
    for n, dfas in pg.nonterminal_to_dfas.items():
        for i, d in enumerate(dfas):
            out.append((n, i, d.is_final, d.from_rule,
                        tuple((k, ids.get(id(v))) for k, v in d.arcs.items()),
                        tuple((repr(k), ids.get(id(p.next_dfa)), tuple(ids.get(id(x)) for x in p.dfa_pushes))
                              for k, p in d.transitions.items()),
                        tuple(sorted(vars(d)))))
    out.append(tuple((k, id(v), v.value) for k, v in pg.reserved_syntax_strings.items()))
    out.append(tuple(sorted((k, id(v)) for k, v in vars(g).items())))
    out.append(tuple(sorted(k for k in vars(type(g)))))
    for cls in (er.ErrorFinder, p8.PEP8Normalizer, nz.Normalizer, nz.RefactoringNormalizer):
        out.append(tuple((k, tuple(id(c) for c in v)) for k, v in cls.rule_value_classes.items()))
        out.append(tuple((k, tuple(id(c) for c in v)) for k, v in cls.rule_type_classes.items()))
        out.append(tuple(sorted(k for k in vars(cls))))
    memo = {('tcc', k): id(v) for k, v in tk._token_collection_cache.items()}
    memo.update({('lg', k): id(v) for k, v in pg_mod._loaded_grammars.items()})
    for mod in (tk, er, p8, nz, pg_mod):
        out.append(tuple(sorted((k, id(v)) for k, v in vars(mod).items() if not k.startswith('__'))))
    dflt = g._default_normalizer_config
    out.append(tuple(sorted((k, repr(v)) for k, v in vars(dflt).items())))
    return hash(tuple(out)), memo


def observe(g, code, version):
    from parso.python.tokenize import tokenize
    from parso.utils import parse_version_string
    m = g.parse(code)
    r1 = m.dump(indent=None)
    try:
        r2 = [(i.code, i.message, i.start_pos, i.end_pos) for i in g.iter_errors(m)]
    except Exception as e:  # noqa   crashes of the error finder are C13's business
        r2 = 'crash:' + type(e).__name__
    r3 = [tuple(t) for t in tokenize(code, version_info=parse_version_string(version))]
    try:
        r4 = [(i.code, i.start_pos) for i in g._get_normalizer_issues(m)]
    except Exception as e:  # noqa   the PEP 8 checker's own crashes are C20's business
        r4 = 'crash:' + type(e).__name__
    return r1, r2, repr(r3), r4


def check(code, version, env):
    F = []
    g = grammar(version)
    try:
        if version not in _warm:
            observe(g, 'x = f"{a}"\n', version)     # first-use memoisation happens here
            _warm.add(version)
        # the deep fingerprint is taken every 25 programs (it walks all tables); a change is attributed to the window
        st = _fp.setdefault(version, [0, None])
        if st[1] is None:
            st[1] = fingerprint(g)
        a = observe(g, code, version)
        st[0] += 1
        if st[0] % 25 == 0 or len(code) > 2000:
            after = fingerprint(g)
            # write-once memo tables may gain entries (first use of another version); existing entries stay
            same = st[1][0] == after[0] and all(after[1].get(k) == v for k, v in st[1][1].items())
            if not same:
                F.append(Fail('bnd:C18.shared_state_unchanged', 'fingerprint',
                              'shared state changed by parse/iter_errors/tokenize within the last 25 programs', code))
            st[1] = after
        b = observe(g, code, version)
        if a != b:
            F.append(Fail('bnd:C18.same_on_every_call', 'repeat', 'second call gives a different result', code))
        # order independence: the previous program of this worker is observed again after this one
        p = _prev.get(version)
        if p is not None:
            pc, pres = p
            if observe(g, pc, version) != pres:
                F.append(Fail('bnd:C18.independent_of_history', 'history', 'result for %r changed after parsing another text' % pc[:40], code))
        _prev[version] = (code, a)
    except RecursionError:
        pass
    except Exception as e:  # noqa
        F.append(Fail('bnd:C18.total', crash_signature(e), repr(e), code))
    return F
