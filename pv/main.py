"""./check <ID> --tier quick|thorough   |   ./check <ID> --replay replay/<ID>-0.json"""
import argparse
import importlib
import json
import os
import sys

sys.setrecursionlimit(10000)

from pv import core


def main():
    ap = argparse.ArgumentParser()
    ap.add_argument('prop')
    ap.add_argument('--tier', default=os.environ.get('VERIF_TIER', 'quick'), choices=['quick', 'thorough'])
    ap.add_argument('--replay', default=None)
    a = ap.parse_args()
    seed = int(os.environ.get('VERIF_SEED', '0') or 0)
    mod = importlib.import_module('props.' + a.prop)
    if a.replay:
        from pv import replay
        return replay.run(a.prop, a.replay)
    if a.tier == 'thorough':
        os.environ.setdefault('PV_CROSSCHECK', '1')      # every discharged VC is also shown to cvc5
    report = core.Report(a.prop, a.tier, seed)
    mod.run(report)
    return core.finish(report)


if __name__ == '__main__':
    sys.exit(core.run_guarded(main))
