from props.common import run_bounded, verify_keys, add_obs
from pv import obs_regex as R
from pv import obs_tables as T

KEYS = ['parso.python.prefix.PrefixPart.end_pos', 'parso.python.prefix.PrefixPart.__init__',
        'parso.python.prefix.PrefixPart.create_spacing_part', 'parso.python.tokenize._close_fstring_if_necessary',
        'parso.python.tokenize._split_illegal_unicode_name', 'parso.python.tokenize._find_fstring_string',
        'parso.python.prefix.split_prefix', 'parso.python.tokenize.tokenize_lines.dedent_if_necessary',
        'parso.python.tokenize.FStringNode.__init__', 'parso.python.tokenize.FStringNode.open_parentheses',
        'parso.python.tokenize.FStringNode.close_parentheses', 'parso.python.tokenize.FStringNode.is_in_expr',
        'parso.python.tokenize.FStringNode.is_in_format_spec']


def _regex():
    obs = []
    for v, _ in T.grammar_files():
        obs += R.tokenizer_obligations(v)
    obs += R.prefix_obligations('3.10')
    return obs


def run(report):
    add_obs(report, _regex)
    verify_keys(report, KEYS)
    report.assume("regex obligations are decided on the live compiled patterns (9 token collections, prefix._regex) by z3's "
                  "regular-expression theory; the match contract of re is language-level: groups are contiguous slices "
                  "in pattern order (checked structurally), group i is in L(sub-pattern i)",
                  "the tiling / balance / position invariants of tokenize_lines (DESIGN 4/C09) are not discharged deductively; "
                  "they rest on the bounded stand-in",
                  "split_prefix tiling VC: one match of the re-lexer is described by facts imported from the RegLan obligations "
                  "(re:prefix._regex:shape / empty-value-only-at-end / type-lookup-total); that the match succeeds at all (A-RELEX) is "
                  "ASSUMED there -- it is exactly the refuted obligation re:prefix:relexer-total (known finding: form feed inside a "
                  "comment), discharged only for comments without form feed; positions of the parts stay bounded",
                  "A-CHARS: z3's character sort ends at U+2FFFF")
    run_bounded(report, ['tok', 'fstr'])
