from props.common import run_bounded, add_obs, verify_keys
from pv import obs_tables as T


def run(report):
    add_obs(report, lambda: T.all_versions(which=('ll1', 'plans'))[0], name='tables')
    verify_keys(report, ['parso.parser.BaseParser._add_token', 'parso.parser.BaseParser._pop', 'parso.parser.StackNode.__init__',
                         'parso.python.parser.Parser.convert_leaf', 'parso.python.parser.Parser.__init__', 'parso.parser.BaseParser.__init__', 'parso.tree.Leaf.__init__', 'parso.tree.ErrorLeaf.__init__',
                         'parso.tree.BaseNode.__init__', 'parso.tree.Node.__init__',
                         # the recovery path: both implementations of the dispatched error_recovery, stack removal
                         'parso.parser.BaseParser.error_recovery', 'parso.python.parser.Parser.error_recovery#strict',
                         'parso.python.parser.Parser.error_recovery#recover', 'parso.python.parser.Parser.error_recovery.current_suite',
                         'parso.python.parser.Parser._stack_removal', 'parso.parser.StackNode.nonterminal',
                         'parso.parser.ParserSyntaxError.__init__', 'parso.parser.BaseParser.parse',
                         'parso.python.parser.Parser.convert_node', 'parso.python.tree.Scope.__init__', 'parso.python.tree.Class.__init__',
                         'parso.python.tree.Module.__init__',
                         # Function / Lambda constructors: total on a funcdef / lambdef production (only _create_params is assumed)
                         'parso.python.tree.Function.__init__', 'parso.python.tree.Function._find_parameters',
                         'parso.python.tree.Lambda.__init__'], procs=14)
    report.assume("engine: _add_token / _pop are proved free of IndexError / KeyError / AttributeError and to keep the stack "
                  "shape under the preconditions 'stack non-empty and well formed', 'tables well formed' (T obligations) and "
                  "'the root entry is not complete' (ENDMARKER is the last token: tokenizer contract, bounded); "
                  "Parser.error_recovery (strict and recovering mode), its closure current_suite and _stack_removal are proved "
                  "against the contract _add_token assumes at the dynamic dispatch site, under preconditions that the "
                  "dispatch site does not establish and that are therefore assumed of the caller: the int list "
                  "_omit_dedent_list is none of the object lists, a DEDENT never arrives while the top entry is empty, the "
                  "root entry belongs to the start rule, recovery mode implies start symbol file_input (checked by Grammar._parse); "
                  "the recursion error_recovery -> _add_token -> error_recovery is verified for partial correctness only "
                  "(termination not proved); Parser.convert_node is proved (class chosen from the constant table node_map by the rule name, suite drops "
                  "children[1] and children[-1]) with the constructors of Function / Lambda ASSUMED total on grammar-shaped children "
                  "(they call _create_params, which is not under contract); BaseParser.parse (the driver loop) is proved safe and to "
                  "return a node under two stated per-iteration assumptions (root entry not complete while tokens remain; the "
                  "tables' push lists are not the parser's working lists); Parser.parse (wraps the token filter generator), the "
                  "tokenizer and Grammar._parse are not under contract: totality of the whole pipeline rests on the bounded stand-in",
                  "A-REC: recursion depth / memory not modelled")
    run_bounded(report, ['parse', 'blk', 'fstr'], extra='nesting')
