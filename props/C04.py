from props.common import ASSUME_BOUNDED, verify_keys, add_obs
from pv import obs_effects as E
from pv import bounded as B

NAMES = ['bnd:C04.update.total', 'bnd:C04.code', 'bnd:C04.equals_fresh_parse', 'bnd:C04.parent_links', 'bnd:C04.used_names_fresh']


KEYS = ['parso.python.diff._update_positions', 'parso.python.diff._is_indentation_error_leaf',
        'parso.python.diff._get_previous_leaf_if_indentation', 'parso.python.diff._get_next_leaf_if_indentation',
        'parso.python.diff._skip_dedent_error_leaves', 'parso.python.diff._ends_with_newline', 'parso.python.diff._get_last_line',
        # copy conditions, helper by helper
        'parso.python.diff._flows_finished', 'parso.python.diff._func_or_class_has_suite',
        'parso.python.diff._suite_or_file_input_is_valid', 'parso.python.diff._is_flow_node',
        'parso.python.diff.DiffParser._get_old_line_stmt',
        # the diff branch of the API: the cached module is reused only for identical lines, the updated module is filed with
        # the new lines
        'parso.grammar.Grammar.parse']


def run(report):
    # helpers under contract: moving copied subtrees to their new lines shifts exactly the leaves up to last_leaf and
    # writes nothing else; the leaf walks return the nearest non-indentation leaf
    verify_keys(report, KEYS)
    # the used-names memo is reset before anything else in update() and filled by the memo function only
    add_obs(report, E.c04_obligations)
    report.assume("TREE-WF: the ghost theory of contracts/tree_nav.py (one well-formed tree, in-order leaf numbering) plus "
                  "leaf_at (a leaf is the leaf at its own number); _update_positions is called on consecutive siblings of one "
                  "parent (precondition, assumed of _NodesTreeNode.add_tree_nodes / _copy_nodes)")
    tier = report.tier
    args = ['--seed', str(report.seed)]
    if tier == 'quick':
        args += ['--bases', '0,1,3,5,8,9,10,11,12,13', '--cap', '7000', '--random', '3000', '--versions', '3.9']
    else:
        args += ['--bases', '0,1,2,3,4,5,6,7,8,9,10,11,12,13', '--cap', '40000', '--random', '30000', '--versions', '3.6,3.9,3.14']
    res = B.run_script('harness.c04_run', args)
    B.bounded_obligations(report, 'C04', NAMES, res, functions=['parso.python.diff.DiffParser.update', 'parso.grammar.Grammar.parse'])
    report.assume(ASSUME_BOUNDED,
                  "the core of C04 (the copy conditions of the diff parser never keep a node a fresh parse would build "
                  "differently) has no inductive invariant within reach; it is decided only by this bounded stand-in with the "
                  "batch parser as oracle; the D obligations cover the position update and leaf walks it relies on")
