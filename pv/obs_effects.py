"""Effect obligations (kind D, back end 'effects'): frame (modifies), constructor-site, flag-read and raises
inclusions over the call graph of the real code.  The declared tables below are the sidecar contract."""
import ast

from pv.core import Ob, DISCHARGED, REFUTED, UNDECIDED
from pv.effects import Program

# ---- classes whose instances are shared between calls (everything else is per-call state)
SHARED = {'Grammar', 'PythonGrammar', 'DFAState', 'DFAPlan', 'ReservedString', 'NFAState', 'NFAArc', 'TokenType',
          'TokenCollection', 'PythonTokenTypes', 'NormalizerConfig', 'PEP8NormalizerConfig', 'ErrorFinderConfig',
          '_NormalizerMeta', 'Version', 'PythonVersionInfo', '_PythonVersionInfo'}

# ---- dynamic call targets (function-valued fields / class-valued variables), A-DISPATCH
TREE_INITS = ['parso.tree.Leaf.__init__', 'parso.tree.TypedLeaf.__init__', 'parso.tree.BaseNode.__init__',
              'parso.tree.Node.__init__', 'parso.tree.ErrorLeaf.__init__', 'parso.python.tree.Scope.__init__',
              'parso.python.tree.Module.__init__', 'parso.python.tree.Function.__init__',
              'parso.python.tree.Lambda.__init__', 'parso.python.tree.Param.__init__',
              'parso.python.tree.ClassOrFunc.__init__', 'parso.python.tree.Class.__init__']
LEAF_INITS = ['parso.tree.Leaf.__init__', 'parso.tree.TypedLeaf.__init__', 'parso.tree.ErrorLeaf.__init__']   # cls:leaf-dispatch
DYNAMIC = {
    ('parso.grammar.Grammar.parse', 'self._parser'): ['parso.python.parser.Parser.__init__', 'parso.parser.BaseParser.__init__'],
    ('parso.grammar.Grammar.parse', '._parser'): ['parso.python.parser.Parser.__init__', 'parso.parser.BaseParser.__init__'],
    ('parso.grammar.Grammar.parse', 'self._tokenizer'): ['parso.grammar.PythonGrammar._tokenize_lines'],
    ('parso.grammar.Grammar.parse', '._tokenizer'): ['parso.grammar.PythonGrammar._tokenize_lines'],
    ('parso.grammar.Grammar.parse', 'self._diff_parser'): ['parso.python.diff.DiffParser.__init__'],
    ('parso.grammar.Grammar.parse', '._diff_parser'): ['parso.python.diff.DiffParser.__init__'],
    ('parso.normalizer.Normalizer._instantiate_rules', 'rule_cls'): ['parso.normalizer.Rule.__init__'],
    ('parso.normalizer.NormalizerConfig.create_normalizer', 'self.normalizer_class'):
        ['parso.normalizer.Normalizer.__init__', 'parso.python.errors.ErrorFinder.__init__',
         'parso.python.pep8.PEP8Normalizer.__init__', 'parso.normalizer.RefactoringNormalizer.__init__'],
    ('parso.parser.BaseParser.convert_leaf', 'self.default_leaf'): LEAF_INITS,
    ('parso.parser.BaseParser.convert_leaf', 'self.leaf_map[type_]'): LEAF_INITS,
    ('parso.parser.BaseParser.convert_node', 'self.node_map[nonterminal]'): TREE_INITS,
    ('parso.parser.BaseParser.convert_node', 'self.default_node'): TREE_INITS,
    ('parso.python.parser.Parser.convert_node', 'self.node_map[nonterminal]'): TREE_INITS,
    ('parso.python.parser.Parser.convert_node', 'self.default_node'): TREE_INITS,
    ('parso.python.parser.Parser.convert_leaf', 'self._leaf_map.get(type, tree.Operator)'): LEAF_INITS,
    ('parso.python.errors._Context._analyze_names', 'self._add_syntax_error'): ['parso.python.errors.ErrorFinder._add_syntax_error'],
    ('parso.python.errors._Context._analyze_names.<locals>.raise_', 'self._add_syntax_error'): ['parso.python.errors.ErrorFinder._add_syntax_error'],
    ('parso.python.errors._Context.finalize', 'self._add_syntax_error'): ['parso.python.errors.ErrorFinder._add_syntax_error'],
    ('parso.python.errors._StringChecks.is_issue', 'func'): ['ext:codecs.escape_decode'],
}

# ---- what external primitives may raise (trusted, from their documentation)
PRIM_RAISES = {
    'pickle.load': ['<any>'], 'pickle.dump': ['OSError', 'PicklingError', 'RecursionError'],
    'open': ['OSError'], 'os.path.getmtime': ['OSError'], 'os.makedirs': ['OSError'], 'os.utime': ['OSError'],
    'os.remove': ['OSError'], 'os.scandir': ['OSError'], 'os.listdir': ['OSError'], 'io.stat': ['OSError'],
    'io.exists': [], 'io.is_dir': [], 'io.read': ['OSError'], 'io.write': ['OSError'],
    'shutil.rmtree': ['OSError'], 'codecs.escape_decode': ['ValueError'],
}

ENTRIES = ['parso.grammar.Grammar.parse', 'parso.grammar.Grammar.iter_errors',
           'parso.grammar.Grammar._get_normalizer_issues', 'parso.python.tokenize.tokenize',
           'parso.python.tokenize.tokenize_lines', 'parso.grammar.load_grammar', 'parso.grammar.Grammar.refactor']
PRUNE = {'parso.grammar.Grammar.parse': {'cache', 'diff_cache'}}

# write-once memo tables: the only shared locations a reachable function may write (outside constructors)
MEMO_OK = {
    ('parso.python.tokenize._get_token_collection', 'global:parso.python.tokenize._token_collection_cache'):
        'idempotent memo: value is a function of the key only',
    ('parso.grammar.load_grammar', 'global:parso.grammar._loaded_grammars'): 'setdefault: first writer wins, equal values',
}

_prog = [None]


def program():
    if _prog[0] is None:
        _prog[0] = Program(DYNAMIC, PRIM_RAISES)
    return _prog[0]


def _is_ctor_self_write(q, loc, prog):
    """`self.x = ...` inside C.__init__ initialises a fresh object."""
    if not q.endswith('.__init__') or not loc.startswith('field:'):
        return False
    cls = loc[6:].split('.')[0]
    f = prog.fns[q]
    return f.cls is not None and (cls == f.cls or f.cls in prog.mro(cls) or cls in prog.mro(f.cls))


def _shared_loc(loc, prog):
    if loc.startswith(('global:', 'clsattr:', 'default:')):
        return True
    if loc.startswith('field:'):
        cls = loc[6:].split('.')[0]
        if cls == '?':
            return True
        return any(c in SHARED for c in prog.mro(cls)) or cls in SHARED
    return False


def frame_obligations(name, entries, prune=None, memo_ok=MEMO_OK, functions=None, interpreter_globals=False):
    """No reachable function writes shared state (other than the listed write-once memo tables)."""
    prog = program()
    reach = prog.reachable(entries, prune)
    obs = []
    bad = []
    memo_hit = set()
    nwrites = 0
    for q in sorted(reach):
        for loc, ln, txt in sorted(prog.fns[q].writes):
            nwrites += 1
            if not _shared_loc(loc, prog):
                continue
            if _is_ctor_self_write(q, loc, prog):
                continue
            if (q, loc) in memo_ok:
                memo_hit.add((q, loc))
                continue
            bad.append((q, loc, txt))
    unresolved = sorted((q, u) for q in reach for u in prog.fns[q].unresolved)
    fl = sorted(reach)
    obs.append(Ob('eff:%s:calls-resolved' % name, 'D', 'effects', DISCHARGED if not unresolved else UNDECIDED, 0,
                  'all dynamic calls in the %d reachable functions are resolved through the declared dispatch table'
                  % len(reach) if not unresolved else 'binding error: unresolved dynamic calls %r' % unresolved[:6],
                  functions=fl))
    for q, loc, txt in bad:
        obs.append(Ob('eff:%s:no-shared-write' % name, 'D', 'effects', REFUTED, 0,
                      '%s writes shared location %s: %s' % (q, loc, txt), dict(function=q, location=loc, statement=txt),
                      functions=[q], signature='%s -> %s' % (q, loc), replayed=False))
    if not bad:
        obs.append(Ob('eff:%s:no-shared-write' % name, 'D', 'effects', DISCHARGED, 0,
                      '%d write sites in %d reachable functions: none touches a shared object, module global, class '
                      'attribute or mutable default (memo tables used: %d)' % (nwrites, len(reach), len(memo_hit)),
                      functions=fl))
    # a mutable object in a class attribute that instance methods mutate in place is shared by all instances
    bad_cls = []
    for cname, (mod, node, bases) in prog.classes.items():
        for st_ in node.body:
            tgt = val = None
            if isinstance(st_, ast.Assign) and len(st_.targets) == 1 and isinstance(st_.targets[0], ast.Name):
                tgt, val = st_.targets[0].id, st_.value
            elif isinstance(st_, ast.AnnAssign) and isinstance(st_.target, ast.Name) and st_.value is not None:
                tgt, val = st_.target.id, st_.value
            if tgt is None or not (isinstance(val, (ast.List, ast.Dict, ast.Set)) or
                                   (isinstance(val, ast.Call) and getattr(val.func, 'id', '') in ('list', 'dict', 'set'))):
                continue
            owners = [c for c in prog.classes if cname in prog.mro(c)]
            inits = set()
            mutators = []
            for c in owners:
                for q, f in prog.fns.items():
                    if f.cls != c:
                        continue
                    for loc, ln, txt in f.writes:
                        if loc == 'field:%s.%s' % (c, tgt):
                            is_rebind = ('self.%s =' % tgt) in txt.replace('  ', ' ') or ('self.%s:' % tgt) in txt
                            if q.endswith('.__init__') and is_rebind:
                                inits.add(c)
                            elif not is_rebind:
                                mutators.append((q, txt))
            for q, txt in mutators:
                c = prog.fns[q].cls
                if not any(k in inits for k in prog.mro(c)) and q in reach:
                    bad_cls.append((cname + '.' + tgt, q, txt))
    obs.append(Ob('eff:%s:no-shared-class-level-container' % name, 'D', 'effects', DISCHARGED if not bad_cls else REFUTED, 0,
                  'no reachable method mutates in place a container that only exists as a class attribute' if not bad_cls else
                  'class-level container mutated through instances: %r' % bad_cls[:3],
                  dict(sites=[list(b) for b in bad_cls[:6]]) if bad_cls else None, functions=fl, replayed=False if bad_cls else None))
    # no reads of time / randomness / environment
    env = sorted((q, c) for q in reach for c in prog.fns[q].calls
                 if c.startswith(('ext:time.', 'ext:random.', 'ext:os.getenv', 'ext:os.environ', 'ext:uuid.')))
    obs.append(Ob('eff:%s:no-ambient-reads' % name, 'D', 'effects', DISCHARGED if not env else REFUTED, 0,
                  'no reachable function reads the clock, randomness or the environment' if not env else
                  'ambient reads: %r' % env[:5], dict(sites=env[:10]) if env else None, functions=fl,
                  replayed=False if env else None))
    # no change of interpreter-wide state of the standard library (not thread-safe, visible to every other caller)
    GLOBAL_MUTATORS = ('ext:warnings.filterwarnings', 'ext:warnings.simplefilter', 'ext:warnings.catch_warnings',
                       'ext:warnings.resetwarnings', 'ext:os.chdir', 'ext:os.putenv', 'ext:os.umask', 'ext:sys.setrecursionlimit',
                       'ext:sys.setswitchinterval', 'ext:locale.setlocale', 'ext:gc.disable', 'ext:gc.enable', 'ext:gc.set_threshold',
                       'ext:random.seed', 'ext:signal.signal', 'ext:signal.setitimer', 'ext:threading.setprofile', 'ext:sys.settrace')
    if not interpreter_globals:
        return obs
    glob = sorted((q, c) for q in reach for c in prog.fns[q].calls if c.startswith(GLOBAL_MUTATORS))
    for q, c in glob:
        obs.append(Ob('eff:%s:no-interpreter-global-mutation' % name, 'D', 'effects', REFUTED, 0,
                      '%s calls %s, which changes interpreter-wide state' % (q, c[4:]), dict(function=q, call=c[4:]),
                      functions=[q], signature='%s -> %s' % (q, c[4:]), replayed=False))
    if not glob:
        obs.append(Ob('eff:%s:no-interpreter-global-mutation' % name, 'D', 'effects', DISCHARGED, 0,
                      'no reachable function changes interpreter-wide state of the standard library (warnings filters, working '
                      'directory, recursion limit, locale, garbage collector, random seed, signal handlers)', functions=fl))
    return obs


def tree_purity_obligations(name, entries):
    """No function reachable from the entries stores to a field of a tree object (or mutates a children list)."""
    prog = program()
    tree = set(prog.subclasses('NodeOrLeaf'))
    reach = prog.reachable(entries)
    bad = []
    for q in sorted(reach):
        f = prog.fns[q]
        for loc, ln, txt in sorted(f.writes):
            if loc.startswith('field:') and loc[6:].split('.')[0] in tree:
                if _is_ctor_self_write(q, loc, prog):
                    continue
                bad.append((q, loc, txt))
    if bad:
        return [Ob('eff:%s:tree-unchanged' % name, 'D', 'effects', REFUTED, 0, '%s writes %s: %s' % b,
                   dict(function=b[0], location=b[1], statement=b[2]), functions=[b[0]],
                   signature='%s -> %s' % (b[0], b[1]), replayed=False) for b in bad]
    return [Ob('eff:%s:tree-unchanged' % name, 'D', 'effects', DISCHARGED, 0,
               'none of the %d functions reachable from %s stores to a field of a tree object' % (len(reach), entries),
               functions=sorted(reach))]


# --------------------------------------------------------------------------------------------- C07
ERROR_CLASSES = {'PythonErrorNode', 'PythonErrorLeaf', 'ErrorLeaf', 'ErrorNode'}
ERROR_SITES_OK = {'parso.python.parser.Parser.error_recovery', 'parso.python.parser.Parser._stack_removal',
                  'parso.parser.BaseParser.error_recovery'}
FLAG = '_error_recovery'
FLAG_READS_OK = {'parso.parser.BaseParser.error_recovery', 'parso.python.parser.Parser.error_recovery',
                 'parso.python.parser.Parser.parse'}


def c07_obligations():
    prog = program()
    obs = []
    parser_fns = [q for q in prog.fns if q.startswith(('parso.parser.', 'parso.python.parser.'))]
    # (1) the mode flag is read only at the declared program points
    reads = sorted({q for q in parser_fns for (a, ln, ti) in prog.fns[q].reads if a == FLAG})
    extra = [q for q in reads if q not in FLAG_READS_OK]
    obs.append(Ob('eff:C07:mode-flag-read-sites', 'D', 'effects', DISCHARGED if not extra else REFUTED, 0,
                  'error_recovery flag is read only in %s' % sorted(FLAG_READS_OK) if not extra else
                  'flag also read in %r' % extra, dict(functions=extra) if extra else None, functions=parser_fns,
                  replayed=False if extra else None))
    # (2) in Parser.error_recovery the flag is read exactly once, after the shared missing-final-newline branch
    q = 'parso.python.parser.Parser.error_recovery'
    f = prog.fns.get(q)
    if f is None:
        obs.append(Ob('eff:C07:leniency-before-mode-branch', 'D', 'effects', UNDECIDED, 0, 'binding error: %s not found' % q))
    else:
        rd = [(ln, ti) for (a, ln, ti) in f.reads if a == FLAG]
        lenient = None
        for i, s in enumerate(f.node.body):
            if isinstance(s, ast.If):
                for n in ast.walk(s):
                    if isinstance(n, ast.Attribute) and n.attr == 'ENDMARKER':
                        lenient = i
                        break
            if lenient is not None:
                break
        if lenient is None:
            obs.append(Ob('eff:C07:leniency-before-mode-branch', 'D', 'effects', UNDECIDED, 0,
                          'binding error: missing-final-newline branch not found in %s' % q, functions=[q]))
        else:
            ok = len(rd) == 1 and rd[0][1] > lenient
            obs.append(Ob('eff:C07:leniency-before-mode-branch', 'D', 'effects', DISCHARGED if ok else REFUTED, 0,
                          'the only read of the mode flag in Parser.error_recovery comes after the missing-final-newline '
                          'branch shared by both modes' if ok else
                          'mode flag read at top-level statements %r, shared leniency branch is statement %d'
                          % ([t for _, t in rd], lenient), None if ok else dict(reads=rd, leniency_stmt=lenient),
                          functions=[q], replayed=False if not ok else None))
        # the shared branch itself must not depend on the mode: no read of the flag inside it (covered above) and
        # _omit_dedent_list is appended to only after the mode check
        w = sorted(ln for (loc, ln, txt) in f.writes if loc.endswith('._omit_dedent_list'))
        flag_line = rd[0][0] if rd else 0
        ok = bool(w) and all(x > flag_line for x in w) and bool(rd)
        obs.append(Ob('eff:C07:dedent-filter-armed-only-when-recovering', 'D', 'effects', DISCHARGED if ok else REFUTED, 0,
                      '_omit_dedent_list is appended to only after the strict-mode return' if ok else
                      'writes to _omit_dedent_list at lines %r, mode check at line %d' % (w, flag_line),
                      None if ok else dict(writes=w, flag_line=flag_line), functions=[q], replayed=False if not ok else None))
    # (3) _omit_dedent_list is written nowhere else except __init__ ([]), and popped in _recovery_tokenize
    ws = sorted({qq for qq in prog.fns for (loc, ln, txt) in prog.fns[qq].writes if loc.endswith('._omit_dedent_list')})
    allowed = {'parso.python.parser.Parser.__init__', 'parso.python.parser.Parser.error_recovery',
               'parso.python.parser.Parser._recovery_tokenize'}
    extra = [x for x in ws if x not in allowed]
    obs.append(Ob('eff:C07:dedent-filter-writers', 'D', 'effects', DISCHARGED if not extra else REFUTED, 0,
                  'writers of _omit_dedent_list: %r' % ws, dict(extra=extra) if extra else None, functions=ws,
                  replayed=False if extra else None))
    # (4) error objects are constructed only at the declared sites
    sites = sorted({qq for qq in prog.fns if prog.fns[qq].constructs & ERROR_CLASSES
                    and qq.startswith(('parso.parser.', 'parso.python.parser.', 'parso.grammar.', 'parso.python.tokenize.'))})
    extra = [x for x in sites if x not in ERROR_SITES_OK]
    obs.append(Ob('eff:C07:error-object-construction-sites', 'D', 'effects', DISCHARGED if not extra else REFUTED, 0,
                  'error nodes/leaves are constructed only in %r' % sites, dict(extra=extra) if extra else None,
                  functions=sites, replayed=False if extra else None))
    return obs


# --------------------------------------------------------------------------------------------- C17
def c04_obligations():
    """C04 "data derived from the old tree (the used-names index) is never served stale":
    (1) the first effect of DiffParser.update is `self._module._used_names = None` (nothing can observe the stale memo before);
    (2) the memo is written nowhere but: Module.__init__ (None), Module.get_used_names (filled from the current tree) and
        DiffParser.update (None)."""
    import ast
    prog = program()
    obs = []
    q = 'parso.python.diff.DiffParser.update'
    f = prog.fns.get(q)
    if f is None:
        return [Ob('eff:C04:used-names-reset-first', 'D', 'effects', UNDECIDED, 0, 'binding error: %s not found' % q)]
    first = None
    for st in f.node.body:
        if isinstance(st, ast.Expr) and isinstance(st.value, ast.Constant):
            continue                        # docstring
        if isinstance(st, ast.Expr) and isinstance(st.value, ast.Call) and isinstance(st.value.func, ast.Attribute) \
                and isinstance(st.value.func.value, ast.Name) and st.value.func.value.id == 'LOG':
            continue                        # logging (A-LOG)
        first = st
        break
    ok = (isinstance(first, ast.Assign) and len(first.targets) == 1 and ast.unparse(first.targets[0]) == 'self._module._used_names'
          and isinstance(first.value, ast.Constant) and first.value.value is None)
    obs.append(Ob('eff:C04:used-names-reset-first', 'D', 'effects', DISCHARGED if ok else REFUTED, 0,
                  'the first statement of DiffParser.update is self._module._used_names = None' if ok else
                  'the first effect of DiffParser.update is %r' % (ast.unparse(first)[:80] if first is not None else None),
                  None if ok else dict(first=ast.unparse(first)[:200] if first is not None else None), functions=[q],
                  replayed=False if not ok else None))
    ws = sorted({qq for qq in prog.fns for (loc, ln, txt) in prog.fns[qq].writes if loc.endswith('._used_names')})
    allowed = {'parso.python.tree.Module.__init__', 'parso.python.tree.Module.get_used_names', q}
    extra = [x for x in ws if x not in allowed]
    missing = [x for x in allowed if x not in ws]
    ok = not extra and not missing
    obs.append(Ob('eff:C04:used-names-writers', 'D', 'effects', DISCHARGED if ok else REFUTED, 0,
                  'writers of _used_names: %r' % ws, None if ok else dict(extra=extra, missing=missing), functions=ws,
                  replayed=False if not ok else None))
    return obs


def raises_obligations(name, quals, allowed):
    """escaping(f) <= allowed for each function (for arbitrary file contents / faults: primitives raise per table)."""
    prog = program()
    obs = []
    memo = {}
    for q in quals:
        if q not in prog.fns:
            obs.append(Ob('eff:%s:raises:%s' % (name, q.rsplit('.', 1)[-1]), 'D', 'effects', UNDECIDED, 0,
                          'binding error: %s not found' % q))
            continue
        esc = prog.escaping(q, None, memo)
        bad = sorted((e, o) for e, o in esc if e not in allowed and
                     not any(isinstance(a, tuple) and a[0] == e and a[1] in o for a in allowed))
        short = q.rsplit('.', 1)[-1]
        if not bad:
            obs.append(Ob('eff:%s:raises:%s' % (name, short), 'D', 'effects', DISCHARGED, 0,
                          'nothing but %r escapes %s' % (sorted(map(str, allowed)), q), functions=[q]))
        for e, o in bad:
            obs.append(Ob('eff:%s:raises:%s' % (name, short), 'D', 'effects', REFUTED, 0,
                          '%s may escape %s (origin: %s)' % (e, q, o), dict(exception=e, origin=o), functions=[q],
                          signature='%s from %s' % (e, o), replayed=False))
    return obs


# ---------------------------------------------------------------------------------------------------------------
# Frames of the sidecar contracts.  At a call site the VC generator havocs exactly what the callee's contract declares
# (`modifies`: fields, `lists`: list objects); everything else is kept.  That is sound only if the declaration covers
# what the real function (and everything it calls) writes, which is decided here over the call graph:
#     attributes written (outside `self.x = ...` in constructors of fresh objects)  <=  declared attributes
#     containers changed in place  =>  `lists` is declared and names the attribute the container hangs off
def _attr_names(exprs):
    out = set()
    for e in exprs or ():
        try:
            tree_ = ast.parse(e, mode='eval')
        except SyntaxError:
            out.add(e.rsplit('.', 1)[-1])
            continue
        for n in ast.walk(tree_):
            if isinstance(n, ast.Attribute):
                out.add(n.attr)
            elif isinstance(n, ast.Name):
                out.add(n.id)
    return out


def contract_frame_obligations(keys):
    from pv.contract import REG, FIELDS
    prog = program()
    obs = []
    for key in keys:
        ctr = REG.get(key)
        if ctr is None or ctr.trusted:
            continue
        q = ctr.qual
        cands = [q]
        if ctr.closure_of:
            cands.append('%s.<locals>.%s' % (ctr.closure_of, q.rsplit('.', 1)[-1]))
        fq = next((c for c in cands if c in prog.fns), None)
        name = 'frame:%s' % key
        if fq is None or ctr.kind == 'property' and ctr.setter:
            continue
        if ctr.frame_prune or ctr.frame_dispatch:
            # calls that cannot happen under this contract's precondition (the VC shows the call site unreachable)
            reach, todo = set(), [fq]
            while todo:
                x = todo.pop()
                if x in reach or x not in prog.fns:
                    continue
                reach.add(x)
                for c in prog.fns[x].calls:
                    nm = c.rsplit('.', 1)[-1]
                    if nm in ctr.frame_prune:
                        continue
                    if nm in ctr.frame_dispatch and c not in ctr.frame_dispatch[nm]:
                        continue        # an override of another class: not reachable with this static class of self
                    todo.append(c)
        else:
            reach = prog.reachable([fq])
        written, mutated, params = {}, {}, set()
        for r in reach:
            f = prog.fns[r]
            for loc, ln, txt in f.writes:
                if loc.startswith('field:'):
                    if _is_ctor_self_write(r, loc, prog):
                        continue
                    written.setdefault(loc.rsplit('.', 1)[-1], (r, txt))
                elif loc.startswith(('param:', 'default:')) and r == fq:
                    params.add(loc.rsplit('.', 1)[-1])
                elif loc.startswith(('global:', 'clsattr:')):
                    written.setdefault(loc, (r, txt))
            for loc in f.mutations:
                if loc.startswith('field:'):
                    mutated.setdefault(loc.rsplit('.', 1)[-1], r)
                elif loc.startswith(('global:', 'clsattr:')):
                    mutated.setdefault(loc, r)
        declared = _attr_names(ctr.modifies)
        lists_decl = None if ctr.lists is None else ('*' if ctr.lists == '*' else _attr_names(ctr.lists))
        list_attrs = {a for a in mutated if (FIELDS.get(a) or '').startswith('list:') or
                      any(isinstance(k, tuple) and k[1] == a and str(v).startswith('list:') for k, v in FIELDS.items())}
        bad = []
        assumed = []
        for a in list(written):
            if a in ctr.frame_assumed or a.rsplit('.', 1)[-1] in ctr.frame_assumed:
                assumed.append(a)
                del written[a]
                mutated.pop(a, None)
                list_attrs.discard(a)
        for a, (r, txt) in sorted(written.items()):
            if a in declared or a.rsplit('.', 1)[-1] in declared:
                continue
            if a in list_attrs and a in mutated and lists_decl is not None and (lists_decl == '*' or a in lists_decl):
                continue            # an in-place change of a list that the `lists` frame names
            bad.append('%s written by %s (%s)' % (a, r, txt[:60]))
        for a in sorted(list_attrs):
            if lists_decl is None:
                bad.append('list %s changed in place by %s but the contract declares no list frame' % (a, mutated[a]))
            elif lists_decl != '*' and a not in lists_decl:
                bad.append('list %s changed in place by %s, not named in lists=%r' % (a, mutated[a], ctr.lists))
        for a in sorted(set(mutated) - list_attrs):
            # a dict / set changed in place: the contract must say that dict contents change
            if '$maps' not in ctr.modifies:
                bad.append('container %s changed in place by %s but modifies does not include $maps' % (a, mutated[a]))
        for a in sorted(params):
            kind = ctr.params.get(a, '')
            if kind.startswith('list:') and (lists_decl is None or (lists_decl != '*' and a not in lists_decl)):
                bad.append('list parameter %s changed in place, not named in the list frame' % a)
        if bad:
            obs.append(Ob(name, 'D', 'effects', REFUTED, 0,
                          'the contract frame of %s does not cover what the code writes: %s' % (q, '; '.join(bad[:6])),
                          dict(function=q, uncovered=bad[:12]), functions=[q], replayed=False))
        else:
            obs.append(Ob(name, 'D', 'effects', DISCHARGED, 0,
                          '%d reachable functions; attributes written %r, lists changed %r: all inside the declared frame '
                          '(modifies=%r lists=%r)%s' % (len(reach), sorted(written)[:12], sorted(list_attrs), ctr.modifies, ctr.lists,
                                                       '; not counted (assumed, see contract): %r' % assumed if assumed else ''),
                          functions=[q]))
    return obs
