#!/bin/sh
# tools/try_seed.sh <dir with patch.diff> <prop> [<prop>...]   -- apply a seeded change to /repo, run checks, undo.
d="$1"; shift
cd /repo || exit 2
if ! git diff --quiet; then echo "/repo has local changes; refusing"; exit 2; fi
git apply --check "$d/patch.diff" || { echo "patch does not apply"; exit 2; }
git apply "$d/patch.diff"
trap 'git -C /repo checkout -- . ; rm -rf /repo/parso/__pycache__ /repo/parso/*/__pycache__' EXIT INT TERM
cd /verif
for p in "$@"; do
  echo "=== $p on $(basename $d)"
  ./check "$p" --tier "${TIER:-quick}" 2>&1 | grep -E "VIOLATION|KNOWN-FINDING|UNDECIDED|DEGRADED|CHECKER|tier=" | cut -c1-260 | head -${LINES_MAX:-12}
  echo "rc=$?"
done
