"""Parser engine contracts (C06, C07; stack invariant for C02/C05 is future work)."""
from pv.contract import contract, class_fields, fields

class_fields('Token', type='ref:PythonTokenTypes', string='str', start_pos='pos', prefix='str')
class_fields('Parser', _omit_dedent_list='list:int', _indent_counter='int', _error_recovery='bool',
             _start_nonterminal='str', syntax_errors='list:any', stack='list:ref:StackNode', _pgen_grammar='ref:Grammar')
class_fields('BaseParser', _error_recovery='bool', _start_nonterminal='str', _pgen_grammar='ref')
class_fields('TokenType', contains_syntax='bool', name='str')

# C07: as long as no recovery has happened (the dedent filter is empty) the token filter is the identity:
# every token is yielded unchanged, in order, and the filter stays empty.
contract('parso.python.parser.Parser._recovery_tokenize', kind='generator',
         params={'self': 'ref:Parser', 'tokens': 'list:ref:PythonToken'}, yields='ref:PythonToken',
         requires=['forall(lambda k: implies(0 <= k and k < len(tokens), tokens[k] is not None))',
                   'self._omit_dedent_list is not tokens'],
         loops={0: dict(invariant=['self._omit_dedent_list is not tokens'], len_stable=True,
                        lists_modified=['self._omit_dedent_list'],
                        body_ensures=['implies(old(len(self._omit_dedent_list)) == 0, '
                                      'nyield == nyield0 + 1 and last_yield is token and len(self._omit_dedent_list) == 0)'])},
         modifies=['_indent_counter', '_omit_dedent_list'], lists=['self._omit_dedent_list'], props=['C07'])

contract('parso.python.parser.Parser.__init__',
         params={'self': 'ref:Parser', 'pgen_grammar': 'ref', 'error_recovery': 'bool', 'start_nonterminal': 'str'},
         ensures=['len(self._omit_dedent_list) == 0', 'self._indent_counter == 0',
                  'self._error_recovery == error_recovery', 'self._start_nonterminal == start_nonterminal'],
         inline=['parso.parser.BaseParser.__init__'], props=['C07'])
contract('parso.parser.BaseParser.__init__',
         params={'self': 'ref:BaseParser', 'pgen_grammar': 'ref', 'start_nonterminal': 'str', 'error_recovery': 'bool'},
         ensures=['self._error_recovery == error_recovery', 'self._start_nonterminal == start_nonterminal',
                  'self._pgen_grammar is pgen_grammar'],
         modifies=['self._error_recovery', 'self._start_nonterminal', 'self._pgen_grammar'], props=['C07'])

# ---- C06: token -> transition label
class_fields('PythonTokenTypes', value='ref:TokenType')
class_fields('Grammar', reserved_syntax_strings='map:str:ref:ReservedString')
contract('parso.parser._token_to_transition',
         params={'grammar': 'ref:Grammar', 'type_': 'ref:PythonTokenTypes', 'value': 'str'}, returns='ref',
         requires=['grammar is not None', 'type_ is not None', 'type_.value is not None'],
         ensures=['implies(type_.value.contains_syntax and value in grammar.reserved_syntax_strings, '
                  'result is grammar.reserved_syntax_strings[value])',
                  'implies(not (type_.value.contains_syntax and value in grammar.reserved_syntax_strings), result is type_)'],
         props=['C06'])

# ---- C01: the parser turns a token into exactly one leaf carrying the token's text, prefix and position
LEAF_OF_TOKEN = ['result is not None', 'result.value == value', 'result.prefix == prefix',
                 'result.line == start_pos[0]', 'result.column == start_pos[1]']
contract('parso.python.parser.Parser.convert_leaf',
         params={'self': 'ref:Parser', 'type': 'ref', 'value': 'str', 'prefix': 'str', 'start_pos': 'pos'},
         returns='ref:Leaf', requires=['self._pgen_grammar is not None'],
         # ... and the leaf has the kind of the token (C06 "same leaves"): a NAME is a keyword exactly when its spelling is
         # reserved; literal text of an f-string, strings, numbers, newlines keep their own kind whatever their spelling
         ensures=LEAF_OF_TOKEN + [
             'implies(type is NAME, isinstance(result, tree.Keyword) == (value in self._pgen_grammar.reserved_syntax_strings))',
             'implies(type is NAME and not (value in self._pgen_grammar.reserved_syntax_strings), isinstance(result, tree.Name))',
             'implies(type is PythonTokenTypes.FSTRING_STRING, isinstance(result, tree.FStringString))',
             'implies(type is PythonTokenTypes.FSTRING_START, isinstance(result, tree.FStringStart))',
             'implies(type is PythonTokenTypes.FSTRING_END, isinstance(result, tree.FStringEnd))',
             'implies(type is PythonTokenTypes.STRING, isinstance(result, tree.String))',
             'implies(type is PythonTokenTypes.NUMBER, isinstance(result, tree.Number))',
             'implies(type is PythonTokenTypes.NEWLINE, isinstance(result, tree.Newline))',
             'implies(type is PythonTokenTypes.ENDMARKER, isinstance(result, tree.EndMarker))',
             'implies(type is PythonTokenTypes.OP, isinstance(result, tree.Operator))'],
         refines='parso.parser.BaseParser.convert_leaf', props=['C01', 'C03', 'C06'])

# ---- C02 / C01: the engine's stack discipline (safety of _add_token / _pop, one leaf per token)
class_fields('StackNode', dfa='ref:DFAState', nodes='list:ref:NodeOrLeaf')
class_fields('DFAState', transitions='map:any:ref:DFAPlan', is_final='bool', from_rule='str')
class_fields('DFAPlan', next_dfa='ref:DFAState', dfa_pushes='list:ref:DFAState')
class_fields('BaseParser', stack='list:ref:StackNode', _pgen_grammar='ref:Grammar')

STACK_WF = ('forall(lambda k: implies(0 <= k and k < len(self.stack), self.stack[k] is not None and '
            'self.stack[k].dfa is not None and self.stack[k].nodes is not None and self.stack[k].nodes is not self.stack), '
            'trigger=lambda k: self.stack[k])')
# generated tables: every plan has a target state and a list of pushed states (T obligations tab:*:plan-chains)
TABLES_WF = ("forall(lambda d, t: implies(d is not None and t in d.transitions, d.transitions[t] is not None and "
             "d.transitions[t].next_dfa is not None and d.transitions[t].dfa_pushes is not None), "
             "kinds=dict(d='ref:DFAState', t='any'))")
PUSHES_WF = ("forall(lambda p, k: implies(p is not None and p.dfa_pushes is not None and 0 <= k and k < len(p.dfa_pushes), "
             "p.dfa_pushes[k] is not None), kinds=dict(p='ref:DFAPlan', k='int'))")
# the lists inside the generated tables are not the parser's working lists
DISJOINT = ("forall(lambda p, j: implies(p is not None, p.dfa_pushes is not self.stack and "
            "implies(0 <= j and j < len(self.stack), p.dfa_pushes is not self.stack[j].nodes)), kinds=dict(p='ref:DFAPlan', j='int'))")
class_fields('ParserSyntaxError', message='str', error_leaf='ref:ErrorLeaf')
LEAF_IS_TOKEN = ['exc.error_leaf is not None', 'exc.error_leaf.value == token.string', 'exc.error_leaf.prefix == token.prefix',
                 'exc.error_leaf.line == token.start_pos[0]', 'exc.error_leaf.column == token.start_pos[1]']
class_fields('DFAState', arcs='map:str:ref:DFAState')
class_fields('PythonTokenTypes', name='str')
NODES_NN = ('forall(lambda k, j: implies(0 <= k and k < len(self.stack) and 0 <= j and j < len(self.stack[k].nodes), '
            'self.stack[k].nodes[j] is not None), kinds=dict(k="int", j="int"), trigger=lambda k, j: self.stack[k].nodes[j])')
ARCS_WF = ("forall(lambda d, s: implies(d is not None and s in d.arcs, d.arcs[s] is not None), "
           "kinds=dict(d='ref:DFAState', s='str'))")
# Node constructors reached through convert_node (Function.__init__ / Lambda.__init__ regroup the parameters) change the
# children list of a node inside the subtree being built.  Such a list left the parser stack when its entry was popped, so
# it is none of self.stack / self.stack[k].nodes: an ownership argument that the frame check does not make (assumed).
NODE_CTOR = {'children': 'children lists of already popped subtrees are not stack-resident lists (ownership, assumed)'}
ROOT_OPEN = 'not self.stack[0].dfa.is_final'      # the start rule is complete only after ENDMARKER, which is the last token

contract('parso.parser.StackNode.__init__', params={'self': 'ref:StackNode', 'dfa': 'ref:DFAState'},
         ensures=['self.dfa is dfa', 'self.nodes is not None', 'len(self.nodes) == 0'],
         modifies=['self.dfa', 'self.nodes'], props=['C02'])

contract('parso.parser.BaseParser._pop', params={'self': 'ref:BaseParser'},
         requires=['self.stack is not None', 'len(self.stack) >= 2', STACK_WF, NODES_NN,
                   # C05: only an entry whose rule is complete (its automaton is in a final state) is turned into a node
                   'self.stack[len(self.stack) - 1].dfa.is_final'],
         ensures=[NODES_NN, 'len(self.stack) == old(len(self.stack)) - 1',
                  'forall(lambda k: implies(0 <= k and k < len(self.stack), self.stack[k] is old(self.stack[k])), trigger=lambda k: self.stack[k])',
                  'len(self.stack[len(self.stack) - 1].nodes) == old(len(self.stack[len(self.stack) - 2].nodes)) + 1',
                  # the collapse convention (C05): an entry with exactly one node contributes that node itself, any other entry
                  # contributes a new node (built by convert_node) -- as the last node of the entry below
                  'implies(old(len(self.stack[len(self.stack) - 1].nodes)) == 1, '
                  'self.stack[len(self.stack) - 1].nodes[len(self.stack[len(self.stack) - 1].nodes) - 1] is old(self.stack[len(self.stack) - 1].nodes[0]))',
                  'implies(old(len(self.stack[len(self.stack) - 1].nodes)) != 1, '
                  'new_object(self.stack[len(self.stack) - 1].nodes[len(self.stack[len(self.stack) - 1].nodes) - 1]))'],
         modifies=['parent', 'children'], frame_assumed=NODE_CTOR,
         lists=['self.stack', 'self.stack[len(self.stack) - 2].nodes'], props=['C02', 'C01'])

contract('parso.parser.BaseParser.convert_node',
         params={'self': 'ref:BaseParser', 'nonterminal': 'str', 'children': 'list:ref:NodeOrLeaf'}, returns='ref:BaseNode',
         trusted=True, ensures=['result is not None', 'new_object(result)'], modifies=['parent', 'children'], lists=[],
         note='dynamic dispatch: the override Parser.convert_node is verified against this postcondition (refines); lists=[] is '
              'the ownership assumption NODE_CTOR (only children lists of already popped subtrees change)')
contract('parso.parser.BaseParser.convert_leaf',
         params={'self': 'ref:BaseParser', 'type_': 'ref', 'value': 'str', 'prefix': 'str', 'start_pos': 'pos'},
         returns='ref:Leaf', trusted=True, ensures=LEAF_OF_TOKEN, lists=[],
         note='dynamic dispatch: the override Parser.convert_leaf is verified against the same postcondition')
contract('parso.parser.BaseParser.error_recovery#dispatch', params={'self': 'ref:BaseParser', 'token': 'ref:PythonToken'},
         trusted=True,
         # what _add_token proves at the dispatch site (the preconditions both implementations share)
         requires=['token is not None', 'token.type is not None', 'token.type.value is not None',
                   'self._pgen_grammar is not None', 'self.stack is not None', 'len(self.stack) >= 1', STACK_WF,
                   TABLES_WF, PUSHES_WF, DISJOINT, ROOT_OPEN, NODES_NN, ARCS_WF],
         ensures=['self.stack is not None', 'len(self.stack) >= 1', STACK_WF, NODES_NN, PUSHES_WF],
         raises=['ParserSyntaxError', 'NotImplementedError', 'InternalParseError'],
         modifies=['dfa', 'parent', 'children', 'nodes', '_omit_dedent_list'], lists='*',
         raises_ensures={'ParserSyntaxError': LEAF_IS_TOKEN},
         note='assumed (dynamic dispatch to Parser.error_recovery): re-establishes the stack shape; not verified')

# _add_token: no IndexError / AttributeError / KeyError escapes; the stack keeps its shape; InternalParseError only
# when the stack runs empty.  Precondition "the root entry is not complete" is what the token-stream contract
# (ENDMARKER is last) and the table facts (start rules end with ENDMARKER) give: assumed here.
contract('parso.parser.BaseParser._add_token', params={'self': 'ref:BaseParser', 'token': 'ref:PythonToken'},
         requires=['token is not None', 'token.type is not None', 'token.type.value is not None',
                   'self._pgen_grammar is not None', 'self.stack is not None', 'len(self.stack) >= 1', STACK_WF,
                   TABLES_WF, PUSHES_WF, DISJOINT, ROOT_OPEN, NODES_NN, ARCS_WF],
         ensures=['self.stack is not None', 'len(self.stack) >= 1', STACK_WF, NODES_NN, PUSHES_WF],
         raises=['ParserSyntaxError', 'NotImplementedError', 'InternalParseError'],
         raises_ensures={'ParserSyntaxError': LEAF_IS_TOKEN},
         loops={0: dict(invariant=['stack is self.stack', 'stack is not None', STACK_WF, TABLES_WF, PUSHES_WF, DISJOINT,
                                   'len(stack) == 0 or ' + ROOT_OPEN, NODES_NN, ARCS_WF, 'forall(lambda k: implies(0 <= k and k < len(stack), allocated(stack[k])), trigger=lambda k: stack[k])'],
                        decreases='len(self.stack) + 1'),
                1: dict(invariant=['stack is self.stack', 'stack is not None', 'len(stack) >= 1', STACK_WF, PUSHES_WF, NODES_NN,
                                   'plan is not None and plan.dfa_pushes is not None and stack is not plan.dfa_pushes',
                                   # C06 "the engine step is the table step": below the pushed entries lies the entry that took
                                   # the transition, now in the plan's target state; the entries pushed so far are exactly
                                   # the plan's states, in order, each still without nodes
                                   'forall(lambda k: implies(0 <= k and k < len(stack), allocated(stack[k])), trigger=lambda k: stack[k])',
                                   'len(stack) >= _i + 1', 'stack[len(stack) - _i - 1].dfa is plan.next_dfa',
                                   'forall(lambda k: implies(0 <= k and k < _i, stack[len(stack) - _i + k].dfa is plan.dfa_pushes[k] and '
                                   'len(stack[len(stack) - _i + k].nodes) == 0), trigger=lambda k: plan.dfa_pushes[k])'],
                        len_stable=True, lists_modified=['stack'])},
         modifies=['dfa', 'parent', 'children', 'nodes', '_omit_dedent_list'], lists='*', frame_assumed=NODE_CTOR,
         # self.error_recovery(token) is dispatched dynamically: the assumed contract of any overrider
         call_keys={'parso.parser.BaseParser.error_recovery': 'parso.parser.BaseParser.error_recovery#dispatch'},
         props=['C02', 'C01'])

# ---- C07: what strict mode raises.  BaseParser.error_recovery never returns; with error recovery switched off it
# raises ParserSyntaxError whose error leaf is exactly the offending token (same text, prefix and position).
contract('parso.parser.ParserSyntaxError.__init__',
         params={'self': 'ref:ParserSyntaxError', 'message': 'str', 'error_leaf': 'ref:ErrorLeaf'},
         ensures=['self.message == message', 'self.error_leaf is error_leaf'],
         modifies=['self.message', 'self.error_leaf'], props=['C07'])
contract('parso.parser.BaseParser.error_recovery', params={'self': 'ref:BaseParser', 'token': 'ref:PythonToken'},
         requires=['token is not None'],
         ensures=['False'],
         raises=['ParserSyntaxError', 'NotImplementedError'],
         exc_ensures={'ParserSyntaxError': 'not self._error_recovery', 'NotImplementedError': 'self._error_recovery'},
         raises_ensures={'ParserSyntaxError': [
             'exc.error_leaf is not None', 'exc.error_leaf.value == token.string', 'exc.error_leaf.prefix == token.prefix',
             'exc.error_leaf.line == token.start_pos[0]', 'exc.error_leaf.column == token.start_pos[1]',
             'exc.error_leaf.parent is None']},
         modifies=[], props=['C07'])

# The error leaf of a strict-mode syntax error is the token that had no transition (C07).  Assumed of the dynamic
# dispatch target, proved of both implementations and carried through _add_token.
TOP = 'self.stack[len(self.stack) - 1]'
# get_last_leaf is proved (contracts/tree_nav.py, under the tree theory) to return a leaf, never None; the parser only
# needs that consequence, so its call sites use this theory-free restatement
contract('parso.tree.NodeOrLeaf.get_last_leaf#nonnull', params={'self': 'ref:NodeOrLeaf'}, returns='ref:Leaf', trusted=True,
         requires=['self is not None'], ensures=['result is not None'], lists=[],
         note='restates the verified contract parso.tree.NodeOrLeaf.get_last_leaf without its ghost theory')
LAST_LEAF_NN = {'parso.tree.NodeOrLeaf.get_last_leaf': 'parso.tree.NodeOrLeaf.get_last_leaf#nonnull'}
contract('parso.python.parser.Parser.error_recovery#strict', params={'self': 'ref:Parser', 'token': 'ref:PythonToken'},
         requires=['not self._error_recovery', 'token is not None', 'token.type is not None', 'token.type.value is not None',
                   'self._pgen_grammar is not None', 'self.stack is not None', 'len(self.stack) >= 1', STACK_WF,
                   TABLES_WF, PUSHES_WF, DISJOINT, ROOT_OPEN, NODES_NN, ARCS_WF,
                   # assumed of the caller (engine + tokenizer): a DEDENT never arrives while the top entry is empty,
                   # and the root entry belongs to the start rule
                   'len(%s.nodes) >= 1 or token.type is not DEDENT' % TOP,
                   'self.stack[0].dfa.from_rule == self._start_nonterminal'],
         ensures=['self.stack is not None', 'len(self.stack) >= 1', STACK_WF, NODES_NN, PUSHES_WF,
                  # strict mode returns normally only through the missing-final-newline exemption shared with
                  # recovery mode
                  'self._start_nonterminal == "file_input"', 'old(%s.dfa.from_rule) == "simple_stmt"' % TOP],
         raises=['ParserSyntaxError', 'NotImplementedError', 'InternalParseError'],
         raises_ensures={'ParserSyntaxError': LEAF_IS_TOKEN},
         modifies=['dfa', 'parent', 'children', 'nodes', '_omit_dedent_list'], lists='*', frame_assumed=NODE_CTOR,
         call_keys=LAST_LEAF_NN, globals_={'DEDENT': 'ref:PythonTokenTypes'},
         props=['C07'])

# ---- C02: the recovery path.  Parser.error_recovery (recovery mode) and _stack_removal against the contract that
# _add_token assumes of the dispatch target: no IndexError / AttributeError / KeyError / NameError escapes and the stack
# keeps its shape.
contract('parso.parser.StackNode.nonterminal', kind='property', params={'self': 'ref:StackNode'}, returns='str',
         requires=['self is not None', 'self.dfa is not None'], ensures=['result == self.dfa.from_rule'], props=['C02'])

contract('parso.python.parser.Parser._stack_removal', params={'self': 'ref:Parser', 'start_index': 'int'}, returns='bool',
         requires=['self.stack is not None', '1 <= start_index', 'start_index <= len(self.stack)', STACK_WF, NODES_NN],
         ensures=['len(self.stack) == start_index',
                  'forall(lambda k: implies(0 <= k and k < start_index, self.stack[k] is old(self.stack[k])), trigger=lambda k: self.stack[k])',
                  STACK_WF, NODES_NN,
                  # the removed entries' nodes are not dropped: when there were any, exactly one (error) node is
                  # added to the entry that stays on top; otherwise nothing is added
                  'len(self.stack[start_index - 1].nodes) == old(len(self.stack[start_index - 1].nodes)) + ite(result, 1, 0)',
                  'implies(result, isinstance(self.stack[start_index - 1].nodes[len(self.stack[start_index - 1].nodes) - 1], tree.PythonErrorNode))'],
         modifies=['parent', 'children'], lists=['self.stack', 'self.stack[start_index - 1].nodes'], props=['C02'])

contract('parso.python.parser.Parser.error_recovery.current_suite', closure_of='parso.python.parser.Parser.error_recovery',
         params={'stack': 'list:ref:StackNode'}, returns='int',
         requires=['stack is not None', 'len(stack) >= 1',
                   'forall(lambda k: implies(0 <= k and k < len(stack), stack[k] is not None and stack[k].dfa is not None '
                   'and stack[k].nodes is not None), trigger=lambda k: stack[k])'],
         ensures=['0 <= result', 'result < len(stack)',
                  # C05 "errors only where a statement or block is expected": recovery cuts the stack back to a
                  # file_input or suite entry (or to the root entry)
                  'result == 0 or stack[result].dfa.from_rule == "file_input" or stack[result].dfa.from_rule == "suite"'],
         loops={0: dict(invariant=['implies(_i > 0, until_index == len(stack) - _i)'])}, props=['C02', 'C05'])

contract('parso.python.parser.Parser.error_recovery#recover', params={'self': 'ref:Parser', 'token': 'ref:PythonToken'},
         requires=['self._error_recovery', 'self._start_nonterminal == "file_input"',
                   'token is not None', 'token.type is not None', 'token.type.value is not None',
                   'self._pgen_grammar is not None', 'self.stack is not None', 'len(self.stack) >= 1', STACK_WF,
                   TABLES_WF, PUSHES_WF, DISJOINT, ROOT_OPEN, NODES_NN, ARCS_WF,
                   'self._omit_dedent_list is not None',
                   # the list of ints is none of the lists of objects (separate Python types)
                   'self._omit_dedent_list is not self.stack',
                   "forall(lambda p: implies(p is not None, p.dfa_pushes is not self._omit_dedent_list), kinds=dict(p='ref:DFAPlan'))",
                   'forall(lambda k: implies(0 <= k and k < len(self.stack), self.stack[k].nodes is not self._omit_dedent_list), '
                   'trigger=lambda k: self.stack[k])',
                   'len(%s.nodes) >= 1 or token.type is not DEDENT' % TOP,
                   'self.stack[0].dfa.from_rule == self._start_nonterminal'],
         ensures=['self.stack is not None', 'len(self.stack) >= 1', STACK_WF, NODES_NN, PUSHES_WF],
         raises=['ParserSyntaxError', 'NotImplementedError', 'InternalParseError'],
         raises_ensures={'ParserSyntaxError': LEAF_IS_TOKEN},
         modifies=['dfa', 'parent', 'children', 'nodes', '_omit_dedent_list'], lists='*', frame_assumed=NODE_CTOR,
         call_keys=LAST_LEAF_NN, globals_={'DEDENT': 'ref:PythonTokenTypes', 'INDENT': 'ref:PythonTokenTypes'},
         props=['C02'])


# ---- C02: the driver.  BaseParser.parse feeds every token to _add_token and then pops the finished entries.
# Assumed about one iteration (token stream / grammar facts, not proved here): while a token is still to be fed the root
# entry is not complete (ENDMARKER is the last token and is what completes the start rule), and the push lists of the
# generated tables are not the parser's working lists.
class_fields('Grammar', nonterminal_to_dfas='map:str:list:ref:DFAState')
contract('parso.parser.BaseParser.parse', params={'self': 'ref:BaseParser', 'tokens': 'list:ref:PythonToken'}, returns='ref:BaseNode',
         requires=['self._pgen_grammar is not None', 'tokens is not None', 'len(tokens) >= 1',
                   'forall(lambda k: implies(0 <= k and k < len(tokens), tokens[k] is not None and tokens[k].type is not None '
                   'and tokens[k].type.value is not None), trigger=lambda k: tokens[k])',
                   'self._start_nonterminal in self._pgen_grammar.nonterminal_to_dfas',
                   'self._pgen_grammar.nonterminal_to_dfas[self._start_nonterminal] is not None',
                   'len(self._pgen_grammar.nonterminal_to_dfas[self._start_nonterminal]) >= 1',
                   'self._pgen_grammar.nonterminal_to_dfas[self._start_nonterminal][0] is not None',
                   TABLES_WF, PUSHES_WF, ARCS_WF],
         ensures=['result is not None'],
         raises=['ParserSyntaxError', 'NotImplementedError', 'InternalParseError'],
         loops={0: dict(invariant=['implies(_i > 0, token is not None)',
                                   'self.stack is not None', 'len(self.stack) >= 1', 'self.stack is not tokens', STACK_WF, NODES_NN,
                                   TABLES_WF, PUSHES_WF, ARCS_WF],
                        assume_in_body=[ROOT_OPEN, DISJOINT], snapshot=True),
                1: dict(invariant=['self.stack is not None', 'len(self.stack) >= 1', STACK_WF, NODES_NN],
                        decreases='len(self.stack)')},
         modifies=['stack', 'dfa', 'parent', 'children', 'nodes', '_omit_dedent_list'], lists='*', frame_assumed=NODE_CTOR,
         call_keys={'parso.parser.BaseParser.convert_node': 'parso.parser.BaseParser.convert_node'},
         props=['C02'])

# ---- Parser.convert_node: builds the node for a finished rule (C02: never fails on a non-empty children list of nodes; C01: a
# suite drops exactly its INDENT / DEDENT leaves, children[1] and children[-1]).  The class comes from the constant table
# node_map (which class follows the rule name); Function / Lambda constructors are assumed (see contracts/tree_ctor.py).
contract('parso.python.parser.Parser.convert_node',
         params={'self': 'ref:Parser', 'nonterminal': 'str', 'children': 'list:ref:NodeOrLeaf'}, returns='ref:BaseNode',
         requires=['children is not None', 'len(children) >= 1',
                   'forall(lambda k: implies(0 <= k and k < len(children), children[k] is not None), trigger=lambda k: children[k])',
                   # grammar: a suite that is not a single simple_stmt is NEWLINE INDENT stmt+ DEDENT
                   'implies(nonterminal == "suite", len(children) >= 4)',
                   # grammar: a funcdef has a `parameters` child, an interior node (T: tab:*:funcdef-shape); like the suite shape
                   # this is a fact about the entry being popped that the dispatch site does not establish (I_stack not proved)
                   'implies(nonterminal == "funcdef", exists(lambda j: 0 <= j and j < len(children) and children[j] is not None and '
                   'children[j].type == "parameters" and not is_leaf(children[j])))',
                   'forall(lambda k: implies(0 <= k and k < len(children) and children[k].type == "parameters", not is_leaf(children[k]) and '
                   'children[k].children is not None), trigger=lambda k: children[k])'],
         ensures=['result is not None', 'isinstance(result, tree.BaseNode)',
                  'implies(nonterminal != "suite", result.children is children)',
                  'implies(nonterminal == "suite", len(result.children) == len(children) - 2 and result.children[0] is children[0] and '
                  'forall(lambda k: implies(1 <= k and k < len(result.children), result.children[k] is children[k + 1]), '
                  'trigger=lambda k: result.children[k]))'],
         modifies=['parent', 'children', 'type', '_used_names'], lists='*', frame_assumed=NODE_CTOR,
         refines='parso.parser.BaseParser.convert_node', props=['C02', 'C01'])
