"""C06 bounded stand-in: derivations generated from the independent grammar reading, one per automaton arc of every
rule reachable from file_input / eval_input, rendered to text; contract on Grammar.parse(error_recovery=False):
accepts, and returns exactly the collapsed derivation; the recovering parser returns the identical tree.

  python -m harness.c06_run --versions 3.6,3.14 --variants 1 --out result.json
"""
import argparse
import json
import multiprocessing as mp
import os
import sys
import time

sys.path.insert(0, os.path.dirname(os.path.dirname(os.path.abspath(__file__))))
sys.setrecursionlimit(5000)

from harness import grammar_oracle as GO  # noqa
from harness.treeutil import crash_signature  # noqa


def token_labels(g, text, version):
    import parso
    from parso.python.tokenize import tokenize
    from parso.utils import parse_version_string
    res = GO.reserved(g)
    out = []
    for t in tokenize(text, version_info=parse_version_string(version)):
        n = t.type.name
        if n in ('NAME', 'OP') and t.string in res:
            out.append("'" + t.string)
        else:
            out.append(n)
    return out


def _strip(sh):
    """leaf texts are compared modulo surrounding blanks (f-string literal parts swallow the layout blanks)"""
    if sh[0] == 'L':
        return ('L', sh[1].strip(' ')) + tuple(sh[2:])       # (text, leaf kind)
    return ('N', sh[1], [_strip(k) for k in sh[2]])


def run_version(args):
    version, variants, repo, pairs = args
    import parso
    from parso.parser import ParserSyntaxError
    g = GO.spec_grammar(repo, version)
    gram = parso.load_grammar(version=version)
    dv = GO.Deriver(g)
    fails = {}
    n_sent = n_checked = n_skipped = 0
    arcs = set()
    sites = set()
    samples = []

    def fail(ob, sig, detail, text):
        k = (ob, sig)
        if k not in fails:
            fails[k] = dict(ob=ob, sig=sig, detail=detail[:500], inp=text, version=version, count=0)
        fails[k]['count'] += 1

    # every spelling used for the token classes is, on its own, exactly one token of its class: a sentence whose rendering the
    # tokenizer does not reproduce is skipped below (layout reasons), so a mis-tokenized lexeme must not hide there
    from parso.python.tokenize import tokenize as _tok
    from parso.utils import parse_version_string as _pv
    for cls in ('NAME', 'NUMBER', 'STRING'):
        for sp in GO.SPELL[cls]:
            try:
                toks = [(t.type.name, t.string) for t in _tok(sp, version_info=_pv(version))]
            except Exception as e:  # noqa
                fail('bnd:C06.lexemes', cls + ':' + sp, repr(e), sp)
                continue
            if toks[:1] != [(cls, sp)] or [t[0] for t in toks[1:]] not in (['ENDMARKER'], ['NEWLINE', 'ENDMARKER']):
                fail('bnd:C06.lexemes', cls + ':' + sp, 'the %s spelling %r is tokenized as %r' % (cls, sp, toks[:4]), sp)
    for start in ('file_input', 'eval_input'):
        if start not in g.nfa:
            continue
        import itertools
        gens = [dv.sentences([start]), dv.sentences_in_sites([start])]
        if pairs:
            gens.append(dv.sentences_pairs([start]))
        for arc, tree in itertools.chain(*gens):
            for var in range(variants):
                n_sent += 1
                text, labels, leaves = GO.render(tree, var)
                try:
                    got = token_labels(g, text, version)
                except Exception as e:  # noqa
                    fail('bnd:C06.tokenize', crash_signature(e), repr(e), text)
                    continue
                if got != labels:
                    n_skipped += 1      # not a token sequence the tokenizer reproduces from this rendering
                    continue
                n_checked += 1
                arcs.add((start,) + arc[:3])
                sites.add((start,) + arc)
                if len(samples) < 4 and n_checked % 211 == 5:
                    samples.append(dict(version=version, arc=list(arc), text=text[:160]))
                exp = _strip(GO.normalise_params(GO.expected_shape(tree, iter([t for _, t in leaves]))))
                kw = dict(error_recovery=False)
                if start != 'file_input':
                    kw['start_symbol'] = start
                try:
                    m = gram.parse(text, **kw)
                except ParserSyntaxError as e:
                    fail('bnd:C06.strict_accepts', '%s:%s' % (arc[0], arc[2]),
                         'sentence of %s (arc %r) rejected at %r' % (start, arc, e.error_leaf), text)
                    continue
                except RecursionError:
                    continue
                except Exception as e:  # noqa
                    fail('bnd:C06.strict_accepts', crash_signature(e), repr(e), text)
                    continue
                act = _strip(GO.normalise_params(GO.actual_shape(m)))
                if act != exp:
                    fail('bnd:C06.tree_is_derivation', '%s:%s' % (arc[0], arc[2]),
                         'returned tree is not the collapsed derivation: %r vs expected %r' % (str(act)[:200], str(exp)[:200]), text)
                if start == 'file_input':
                    try:
                        r = gram.parse(text)
                        if r.dump(indent=None) != m.dump(indent=None):
                            fail('bnd:C06.recovering_identical', '%s:%s' % (arc[0], arc[2]), 'recovering parse differs', text)
                    except Exception as e:  # noqa
                        fail('bnd:C06.recovering_identical', crash_signature(e), repr(e), text)
    return dict(version=version, sentences=n_sent, checked=n_checked, skipped=n_skipped, arcs=len(arcs), site_arcs=len(sites),
                fails=list(fails.values()), samples=samples,
                total_arcs=sum(len(tr) for n in g.names for tr in g.dfa[n].trans))


def main():
    ap = argparse.ArgumentParser()
    ap.add_argument('--versions', default='3.6,3.8,3.10,3.12,3.14')
    ap.add_argument('--variants', type=int, default=1)
    ap.add_argument('--pairs', action='store_true')
    ap.add_argument('--out', required=True)
    ap.add_argument('--repo', default=os.environ.get('PARSO_REPO', '/repo'))
    a = ap.parse_args()
    t0 = time.time()
    vs = a.versions.split(',')
    with mp.Pool(min(16, len(vs))) as pool:
        res = pool.map(run_version, [(v, a.variants, a.repo, a.pairs) for v in vs])
    fails = []
    for r in res:
        fails += r.pop('fails')
    out = dict(prop='C06', evaluations=sum(r['checked'] for r in res), distinct_nontrivial=sum(r['arcs'] for r in res),
               failures=fails, per_version=res, wall_s=round(time.time() - t0, 2),
               samples=[s for r in res for s in r['samples']][:8],
               scope=dict(versions=vs, variants=a.variants),
               rule='per version: one derivation per automaton arc of every rule reachable from file_input and eval_input '
                    '(shortest completion), and one per (arc, rule that refers to this rule) so that every arc is also taken '
                    'inside every context that uses the rule' + (', and one per pair of consecutive arcs of a rule' if a.pairs else '') + '; %d spelling/layout variants; sentences whose rendering the tokenizer does not '
                    'reproduce token for token are skipped (counted); distinct_nontrivial = distinct (start, rule, state, '
                    'label) arcs exercised by an accepted sentence' % a.variants)
    with open(a.out, 'w') as f:
        json.dump(out, f)


if __name__ == '__main__':
    main()
