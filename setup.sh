#!/bin/sh
# Tool sanity only: nothing is built, nothing is fetched.
set -e
cd "$(dirname "$0")"
python3-vt - <<'PY'
import z3, cvc5, sys
assert sys.version_info[:2] >= (3, 10)
print("z3", z3.get_version_string(), "cvc5", cvc5.__version__)
PY
/venv/bin/python -c "import parso, sys; print('parso', parso.__version__, 'py', sys.version.split()[0])"
mkdir -p evidence replay
echo setup-ok
