"""C10 bounded stand-in: parso's token stream equals the running CPython's tokenize on programs CPython compiles.
Only the interpreter running the harness is a reference (3.12 in /venv); see the manifest note."""
import io
import sys
import tokenize as ref
import token as reftok
import warnings

from harness.treeutil import Fail, crash_signature

PYV = '%d.%d' % sys.version_info[:2]
STATS = {'compared_with_cpython': 0}
FLAGS = set()
SIGNIFICANT = {'NAME', 'NUMBER', 'STRING', 'OP', 'NEWLINE', 'INDENT', 'DEDENT', 'ENDMARKER'}


def _inner(toks, cooked):
    """Normal form of the tokens of one (possibly nested) f-string, FSTRING_START .. FSTRING_END inclusive:
    ('F<', opening text), ('FTXT', literal text with adjacent pieces merged and '{{' / '}}' read as one brace),
    (type, text, position) for the tokens of replacement fields, ('F>', closing quote)."""
    out = []
    lit = []

    def flush():
        if ''.join(lit):            # CPython emits empty FSTRING_MIDDLE tokens after a nested field of a format spec
            out.append(('FTXT', ''.join(lit)))
        del lit[:]
    for name, string, pos in toks:
        if name == 'FSTRING_START':
            flush()
            out.append(('F<', string))
        elif name == 'FSTRING_END':
            flush()
            out.append(('F>', string))
        elif name in ('FSTRING_MIDDLE', 'FSTRING_STRING'):
            lit.append(string if cooked else string.replace('{{', '{').replace('}}', '}'))
        elif name in ('COMMENT', 'NL') or (name == 'NEWLINE' and string == ''):
            continue
        else:
            flush()
            out.append((name, string, pos))
    flush()
    return out


def reference(code):
    out = []
    lines = code.splitlines(True)
    toks = list(ref.generate_tokens(io.StringIO(code).readline))
    i = 0
    n = len(toks)
    while i < n:
        t = toks[i]
        name = reftok.tok_name[t.type]
        if name in ('COMMENT', 'NL'):
            i += 1
            continue
        if name == 'FSTRING_START':
            depth = 0
            j = i
            while j < n:
                nm = reftok.tok_name[toks[j].type]
                if nm == 'FSTRING_START':
                    depth += 1
                elif nm == 'FSTRING_END':
                    depth -= 1
                    if depth == 0:
                        break
                j += 1
            out.append(('STRING', None, t.start))
            if j < n and toks[j].start[0] != t.start[0] and not t.string.endswith(('\'\'\'', '"""')):
                FLAGS.add('pep701-multiline-single-quoted-fstring')
            q = t.string[-1:]
            if any(reftok.tok_name[x.type] in ('FSTRING_START', 'STRING') and x.string.lstrip('rRbBuUfF')[:1] == q
                   for x in toks[i + 1:j]):
                FLAGS.add('pep701-quote-reuse')
            if any(reftok.tok_name[x.type] == 'COMMENT' for x in toks[i + 1:j]):
                FLAGS.add('pep701-comment-in-replacement-field')
            # the inside of the f-string: literal text (adjacent pieces merged; CPython reports '{{' as '{') and the tokens
            # of the replacement fields
            out.extend(_inner([(reftok.tok_name[x.type], x.string, x.start) for x in toks[i:j + 1]], cooked=True))
            i = j + 1
            continue
        if name == 'NEWLINE' and t.string == '':
            i += 1
            continue
        if name in ('INDENT', 'DEDENT'):
            out.append((name, None, None))
        elif name == 'ENDMARKER':
            out.append((name, None, None))
        elif name in SIGNIFICANT:
            out.append((name, t.string, t.start))
        else:
            out.append((name, t.string, t.start))
        i += 1
    return out


def parso_stream(code, version):
    from parso.python.tokenize import tokenize
    from parso.utils import parse_version_string
    out = []
    toks = list(tokenize(code, version_info=parse_version_string(version)))
    i = 0
    n = len(toks)
    while i < n:
        t = toks[i]
        name = t.type.name
        if name == 'FSTRING_START':
            depth = 0
            j = i
            while j < n:
                if toks[j].type.name == 'FSTRING_START':
                    depth += 1
                elif toks[j].type.name == 'FSTRING_END':
                    depth -= 1
                    if depth == 0:
                        break
                j += 1
            out.append(('STRING', None, t.start_pos))
            out.extend(_inner([(x.type.name, x.string, x.start_pos) for x in toks[i:j + 1]], cooked=False))
            i = j + 1
            continue
        if name in ('INDENT', 'DEDENT', 'ENDMARKER'):
            out.append((name, None, None))
        else:
            out.append((name, t.string, t.start_pos))
        i += 1
    return out


def check(code, version, env):
    if version != PYV:
        return []
    if '\x00' in code or '\x0c' in code or '\ufeff' in code or '\r' in code.replace('\r\n', ''):
        return []      # form feeds reset CPython's column count; BOM and lone CR are handled by the decoder
    try:
        with warnings.catch_warnings():
            warnings.simplefilter('ignore')
            compile(code, '<c10>', 'exec')
        FLAGS.clear()
        exp = reference(code)
    except (SyntaxError, ValueError, ref.TokenError, RecursionError, MemoryError, IndentationError):
        return []
    STATS['compared_with_cpython'] += 1
    try:
        got = parso_stream(code, version)
    except Exception as e:  # noqa
        return [Fail('bnd:C10.tokenize.total', crash_signature(e), repr(e), code)]
    if got != exp:
        k = next((i for i in range(min(len(got), len(exp))) if got[i] != exp[i]), min(len(got), len(exp)))
        g = got[k] if k < len(got) else None
        e = exp[k] if k < len(exp) else None
        sig = '%s/%s' % (g[0] if g else '-', e[0] if e else '-')
        import re as _re
        if _re.search(r'(?:^|\n)[ \t]+\\\r?\n', code) and 'INDENT' in sig or 'DEDENT' in sig and _re.search(r'(?:^|\n)[ \t]+\\\r?\n', code):
            FLAGS.add('indent-from-continuation-line')
        if FLAGS:
            sig = sorted(FLAGS)[0]
        return [Fail('bnd:C10.same_tokens', sig, 'token %d: parso %r, CPython %s %r' % (k, g, PYV, e), code)]
    return []
