"""parso.utils contracts (C15)."""
from pv.contract import contract

# str input is returned unchanged (bytes input: decoding through the cookie regex obligations + trusted str(bytes, enc))
contract('parso.utils.python_bytes_to_unicode', params={'source': 'str', 'encoding': 'str', 'errors': 'str'},
         returns='str', ensures=['result == source'], props=['C15', 'C01'])
