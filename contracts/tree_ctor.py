"""Constructors of tree objects (C19 protocol, C11 parent links, C01 one-leaf-per-token)."""
from pv.contract import contract

contract('parso.tree.Leaf.__init__',
         params={'self': 'ref:Leaf', 'value': 'str', 'start_pos': 'pos', 'prefix': 'str'},
         ensures=['self.value == value', 'self.prefix == prefix', 'self.line == start_pos[0]', 'self.column == start_pos[1]',
                  'self.parent is None'],
         modifies=['self.value', 'self.prefix', 'self.line', 'self.column', 'self.parent'],
         inline=['parso.tree.Leaf.start_pos.setter'], props=['C19', 'C01'])
contract('parso.tree.TypedLeaf.__init__',
         params={'self': 'ref:TypedLeaf', 'type': 'str', 'value': 'str', 'start_pos': 'pos', 'prefix': 'str'},
         ensures=['self.value == value', 'self.prefix == prefix', 'self.line == start_pos[0]', 'self.column == start_pos[1]',
                  'self.type == type', 'self.parent is None'],
         modifies=['self.value', 'self.prefix', 'self.line', 'self.column', 'self.parent', 'self.type'], props=['C19'])
contract('parso.tree.ErrorLeaf.__init__',
         # token_type is a str (Parser.error_recovery: typ.name) or a token type object (BaseParser.error_recovery):
         # declared opaque, nothing is promised about the stored field
         params={'self': 'ref:ErrorLeaf', 'token_type': 'any', 'value': 'str', 'start_pos': 'pos', 'prefix': 'str'},
         ensures=['self.value == value', 'self.prefix == prefix', 'self.line == start_pos[0]', 'self.column == start_pos[1]',
                  'self.parent is None'],
         modifies=['self.value', 'self.prefix', 'self.line', 'self.column', 'self.parent', 'self.token_type'], props=['C19', 'C07'])

# every child's parent is the new node, the children list is the one given, nothing else changes
contract('parso.tree.BaseNode.__init__', params={'self': 'ref:BaseNode', 'children': 'list:ref:NodeOrLeaf'},
         requires=['children is not None',
                   'forall(lambda k: implies(0 <= k and k < len(children), children[k] is not None and children[k] is not self), '
                   'trigger=lambda k: children[k])'],
         ensures=['self.children is children', 'self.parent is None',
                  'forall(lambda k: implies(0 <= k and k < len(children), children[k].parent is self), trigger=lambda k: children[k])',
                  # frame of the parent links: whoever's parent changed is now a child of self
                  'forall(lambda x: implies(x is not self and x.parent is not old(x.parent), x.parent is self), kinds=dict(x="ref:NodeOrLeaf"), trigger=lambda x: x.parent)'],
         loops={0: dict(invariant=['self.children is children', 'self.parent is None', 'forall(lambda x: implies(x is not self and x.parent is not old(x.parent), x.parent is self), kinds=dict(x="ref:NodeOrLeaf"), trigger=lambda x: x.parent)',
                                   'forall(lambda k: implies(0 <= k and k < _i, children[k].parent is self), trigger=lambda k: children[k])',
                                   'forall(lambda k: implies(0 <= k and k < len(children), children[k] is not None and children[k] is not self), '
                                   'trigger=lambda k: children[k])'])},
         modifies=['self.children', 'self.parent', 'parent'], props=['C19', 'C11'])
contract('parso.tree.Node.__init__', params={'self': 'ref:Node', 'type': 'str', 'children': 'list:ref:NodeOrLeaf'},
         requires=['children is not None',
                   'forall(lambda k: implies(0 <= k and k < len(children), children[k] is not None and children[k] is not self), '
                   'trigger=lambda k: children[k])'],
         ensures=['self.children is children', 'self.type == type',
                  'forall(lambda k: implies(0 <= k and k < len(children), children[k].parent is self), trigger=lambda k: children[k])'],
         modifies=['self.type', 'self.children', 'self.parent', 'parent'], props=['C19'])

# ---- Param regrouping (C11 parent links, C19): Param.__init__ and the parent discipline of _create_params
contract('parso.python.tree.Param.__init__',
         params={'self': 'ref:Param', 'children': 'list:ref:NodeOrLeaf', 'parent': 'ref:BaseNode'},
         requires=['children is not None',
                   'forall(lambda k: implies(0 <= k and k < len(children), children[k] is not None and children[k] is not self), '
                   'trigger=lambda k: children[k])'],
         ensures=['self.children is children', 'self.parent is parent',
                  'forall(lambda k: implies(0 <= k and k < len(children), children[k].parent is self), trigger=lambda k: children[k])',
                  # nothing else is re-parented: whoever's parent changed is now a child of self (or is self)
                  'forall(lambda x: implies(x is not self and x.parent is not old(x.parent), x.parent is self), '
                  'kinds=dict(x="ref:NodeOrLeaf"), trigger=lambda x: x.parent)'],
         modifies=['self.children', 'self.parent', 'parent'], call_keys={'parso.tree.BaseNode.__init__': 'parso.tree.BaseNode.__init__'},
         props=['C11', 'C19'])
