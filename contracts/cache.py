"""parso.cache contracts (C16): the in-memory cache is keyed by (grammar hash, path); garbage collection only drops
entries; a cached tree is handed out only while the file's modification time is not newer than the entry's stamp."""
import z3

from pv.contract import contract, class_fields, specfn
from pv.values import VInt, I

class_fields('_NodeCacheItem', node='ref:Module', lines='any', change_time='int', last_used='int')
class_fields('FileIO', path='any')
class_fields('Module', ver='int')

CACHE = {'parser_cache': 'map:any:map:any:ref:_NodeCacheItem'}

_ver_at = z3.Function('ver_at', I, I, I)      # content version of the file at a path when its mtime is m (the proviso
#                                               "a change is observable as a newer mtime" makes this a function)


_cur = z3.Function('cur_mtime', I, I)          # the file's modification time now (mtimes only grow)


@specfn('ver_at')
def sp_ver_at(eng, st, p, m):
    return VInt(_ver_at(p.t, m.t))


@specfn('allocated')
def sp_allocated(eng, st, x):
    from pv.values import VBool
    return VBool(st.is_alloc(x.t))


@specfn('new_object')
def sp_new_object(eng, st, x):
    """x (evaluated now) did not exist when the function was entered"""
    from pv.values import VBool
    from pv.state import ARR_II  # noqa: F401
    al0 = eng.init_heap.get('$alloc')
    if al0 is None:
        al0 = st.arr('$alloc', z3.ArraySort(I, z3.BoolSort()))
    return VBool(z3.Not(z3.Select(al0, x.t)))


@specfn('cur_mtime')
def sp_cur(eng, st, p):
    return VInt(_cur(p.t))


# ---- C16: entries of different paths / grammars are never confused; GC only removes entries
contract('parso.cache._set_cache_item',
         params={'hashed_grammar': 'any', 'path': 'any', 'module_cache_item': 'ref:_NodeCacheItem'},
         globals_=CACHE,
         requires=['module_cache_item is not None', 'parser_cache is not None', 'allocated(parser_cache)',
                   # the inner dicts are distinct objects (one per grammar), none of them is the outer dict
                   'forall(lambda g: implies(g in parser_cache, parser_cache[g] is not None and parser_cache[g] is not parser_cache '
                   'and allocated(parser_cache[g])))',
                   'forall(lambda g1, g2: implies(g1 in parser_cache and g2 in parser_cache and g1 != g2, '
                   'parser_cache[g1] is not parser_cache[g2]))'],
         ensures=['hashed_grammar in parser_cache and path in parser_cache[hashed_grammar]',
                  'parser_cache[hashed_grammar][path] is module_cache_item',
                  # every other entry that exists afterwards existed before with the same item
                  'forall(lambda g, p: implies(g in parser_cache and p in parser_cache[g] and not (g == hashed_grammar and p == path), '
                  'old(g in parser_cache and p in parser_cache[g]) and parser_cache[g][p] is old(parser_cache[g][p])))'],
         loops={0: dict(invariant=['parser_cache is not None',
                                   'forall(lambda g: implies(g in parser_cache, parser_cache[g] is not None and parser_cache[g] is not parser_cache '
                                   'and allocated(parser_cache[g])))',
                                   'forall(lambda g1, g2: implies(g1 in parser_cache and g2 in parser_cache and g1 != g2, '
                                   'parser_cache[g1] is not parser_cache[g2]))',
                                   'forall(lambda g, p: implies(g in parser_cache and p in parser_cache[g], '
                                   'old(g in parser_cache and p in parser_cache[g]) and parser_cache[g][p] is old(parser_cache[g][p])))'])},
         modifies=['parser_cache', '$maps'], props=['C16'])

contract('parso.file_io.FileIO.get_last_modified', params={'self': 'ref:FileIO'}, returns='opt:int',
         ensures=['implies(not (result is None), result == cur_mtime(self.path))'], raises=['OSError'],
         note='what os.path.getmtime reports (assumed contract ext:genericpath.getmtime); a missing file gives None, other '
              'OSErrors escape')
# ---- the disk branch.  Ghost file system: file_mtime(p) is the modification time of the file at p, file_obj(p) the
# object its pickle holds, path_of(h) the path a file handle was opened on, hashed_path(g, p, c) the cache file name.
_fm = _cur        # one ghost: the modification time of the file at a path now (source files and pickles alike)
# file_obj is state: the ghost heap array $fobj (path -> object the file's bytes unpickle to), written by pickle.dump,
# by opening a file for writing and by os.remove; everything else leaves it alone
from pv.contract import GHOST_ARRAYS  # noqa: E402
GHOST_ARRAYS['$fobj'] = z3.ArraySort(I, I)


def _fo_rd(st, p):
    return z3.Select(st.arr('$fobj', z3.ArraySort(I, I)), p)
_po = z3.Function('path_of', I, I)
_hp = z3.Function('hashed_path', I, I, I, I)


@specfn('file_mtime')
def sp_fm(eng, st, p):
    return VInt(_fm(p.t))


@specfn('file_obj')
def sp_fo(eng, st, p):
    from pv.values import VRef
    return VRef(_fo_rd(st, p.t), None)


@specfn('file_item')
def sp_fi(eng, st, p):
    from pv.values import VRef
    return VRef(_fo_rd(st, p.t), '_NodeCacheItem')      # the same object, viewed as a cache item (for field access)


@specfn('path_of')
def sp_po(eng, st, h):
    from pv.values import VAny
    return VAny(_po(h.t))


@specfn('hashed_path')
def sp_hp(eng, st, g, p, c):
    from pv.values import VAny, VNoneT
    return VAny(_hp(g.t, p.t, z3.IntVal(0) if isinstance(c, VNoneT) else c.t))


contract('ext:genericpath.getmtime', params={'filename': 'any'}, returns='int', trusted=True, raises=['OSError'],
         ensures=['result == file_mtime(filename)'], note='environment: the modification time of that file now')
for _k in ('ext:io.open', 'ext:_io.open'):
    contract(_k, params={'file': 'any', 'mode': 'str'}, returns='any', trusted=True, raises=['OSError'],
             ensures=['path_of(result) == file'], fresh_result=False, note='environment: a handle on that file')
contract('ext:_pickle.load', params={'file': 'any'}, returns='ref', trusted=True, raises=['Exception'],
         ensures=['result is file_obj(path_of(file))'],
         note='environment: whatever object the bytes of the file unpickle to (any class, or any exception)')
contract('ext:gc.disable', params={}, trusted=True, note='no effect on the modelled state')
contract('ext:gc.enable', params={}, trusted=True, note='no effect on the modelled state')
contract('ext:logging.Logger.debug', params={'msg': 'str', 'a1': 'any'}, trusted=True, note='no effect on the modelled state')
contract('parso.cache._get_hashed_path', params={'hashed_grammar': 'any', 'path': 'any', 'cache_path': 'any'}, returns='any',
         trusted=True, raises=['OSError'], ensures=['result == hashed_path(hashed_grammar, path, cache_path)'],
         note='a function of its arguments (sha256 of the path under the cache directory); may create the directory')

# A tree is served from disk only if the cache file is not older than the source (p_time) and unpickles to a
# _NodeCacheItem; every failure is a miss (None), never an exception (C17).  DISK-INV (assumed of the writer,
# try_to_save_module): a cache file that is not older than source mtime p holds the tree of the source version at p.
HP = 'hashed_path(hashed_grammar, path, cache_path)'
contract('parso.cache._load_from_file_system',
         params={'hashed_grammar': 'any', 'path': 'any', 'p_time': 'int', 'cache_path': 'any'}, returns='ref:Module',
         globals_=CACHE,
         requires=['parser_cache is not None', 'allocated(parser_cache)',
                   'forall(lambda g: implies(g in parser_cache, parser_cache[g] is not None and parser_cache[g] is not parser_cache '
                   'and allocated(parser_cache[g])))',
                   'forall(lambda g1, g2: implies(g1 in parser_cache and g2 in parser_cache and g1 != g2, '
                   'parser_cache[g1] is not parser_cache[g2]))',
                   # DISK-INV, stated like the invariant of the memory entries (from the property, not from what the code tests):
                   # a pickled item holds the tree of the version the source had at the modification time recorded *in the
                   # item*, an mtime observed earlier (hence <= the mtime now) -- whatever the cache file's own mtime is
                   'implies(isinstance(file_obj(%s), _NodeCacheItem), file_item(%s).node is not None and '
                   'file_item(%s).change_time <= p_time and '
                   'file_item(%s).node.ver == ver_at(path, file_item(%s).change_time))' % (HP, HP, HP, HP, HP)],
         ensures=['implies(result is not None, result.ver == ver_at(path, p_time))',
                  'implies(result is not None, result is file_item(%s).node)' % HP],
         # (the loop reads the attributes a usable item needs: a damaged file may unpickle to an instance that lacks some -- the heap
         # model gives every instance of a class all its fields, so that part is decided by the bounded incomplete-item patterns only)
         loops={0: dict(invariant=[])},
         raises=[], modifies=['parser_cache', '$maps'], props=['C16', 'C17'])

# ---- a tree from the in-memory cache is returned only while the entry's stamp is not older than the file's mtime.
# Representation invariant: an entry stamped t (an mtime observed earlier, hence t <= the mtime now) holds the tree
# of the content version the file has at mtime t.
contract('parso.cache.load_module',
         params={'hashed_grammar': 'any', 'file_io': 'ref:FileIO', 'cache_path': 'any'}, returns='ref:Module',
         globals_=CACHE,
         requires=['file_io is not None', 'parser_cache is not None', 'allocated(parser_cache)',
                   'forall(lambda g: implies(g in parser_cache, parser_cache[g] is not None and parser_cache[g] is not parser_cache '
                   'and allocated(parser_cache[g])))',
                   'forall(lambda g1, g2: implies(g1 in parser_cache and g2 in parser_cache and g1 != g2, '
                   'parser_cache[g1] is not parser_cache[g2]))',
                   # DISK-INV for this source file (assumed of the writer), see _load_from_file_system
                   'implies(isinstance(file_obj(hashed_path(hashed_grammar, file_io.path, cache_path)), _NodeCacheItem), '
                   'file_item(hashed_path(hashed_grammar, file_io.path, cache_path)).node is not None and '
                   'file_item(hashed_path(hashed_grammar, file_io.path, cache_path)).change_time <= cur_mtime(file_io.path) and '
                   'file_item(hashed_path(hashed_grammar, file_io.path, cache_path)).node.ver == '
                   'ver_at(file_io.path, file_item(hashed_path(hashed_grammar, file_io.path, cache_path)).change_time))',
                   'forall(lambda g, p: implies(g in parser_cache and p in parser_cache[g], '
                   'parser_cache[g][p] is not None and parser_cache[g][p].node is not None and '
                   'parser_cache[g][p].change_time <= cur_mtime(p) and '
                   'parser_cache[g][p].node.ver == ver_at(p, parser_cache[g][p].change_time)))'],
         ensures=['implies(result is not None, result.ver == ver_at(file_io.path, cur_mtime(file_io.path)))'],
         raises=['OSError'], modifies=['parser_cache', '$maps', 'last_used'], props=['C16'])


# ---- try_to_save_module (C17: a failed save never fails the parse; C16: what the memory entry holds).
# The entry is stored in memory before the disk is touched, so it is there whatever the disk does; nothing escapes.
contract('parso.cache._NodeCacheItem.__init__',
         params={'self': 'ref:_NodeCacheItem', 'node': 'ref:Module', 'lines': 'any', 'change_time': 'opt:int'},
         ensures=['self.node is node', 'self.lines == lines',
                  'implies(not (change_time is None), self.change_time == change_time)', 'self.last_used == self.change_time'],
         modifies=['self.node', 'self.lines', 'self.change_time', 'self.last_used'], props=['C16'])
OTHER_FILES = 'forall(lambda q: implies(not (q == %s), file_obj(q) is old(file_obj(q))))'
contract('ext:io.open#write', params={'file': 'any', 'mode': 'str'}, returns='any', trusted=True, raises=['OSError'],
         requires=['mode == "wb"'], ensures=['path_of(result) == file', OTHER_FILES % 'file'], modifies=['$fobj'],
         note='environment: a handle on that file, which is truncated (its content is unknown from here on); no other file changes')
contract('ext:_pickle.dump', params={'obj': 'ref', 'file': 'any', 'protocol': 'any'}, trusted=True, raises=['Exception'],
         ensures=['file_obj(path_of(file)) is obj', OTHER_FILES % 'path_of(file)'], modifies=['$fobj'],
         note='environment: on normal return the file unpickles to that object (the with block closes and flushes the '
              'handle before _save_to_file_system returns); any exception may escape (unpicklable tree, full disk, recursion)')
# C17 "a later successful save repairs the entry": whatever was in the cache file before, a save that returns normally
# has written the item there, and no other file changed
contract('parso.cache._save_to_file_system',
         params={'hashed_grammar': 'any', 'path': 'any', 'item': 'ref:_NodeCacheItem', 'cache_path': 'any'},
         requires=['item is not None'],
         ensures=['file_obj(%s) is item' % HP, OTHER_FILES % HP],
         raises=['Exception', 'OSError'], modifies=['$fobj'], lists=[],
         call_keys={'ext:io.open': 'ext:io.open#write'}, props=['C17'],
         note='writing the pickle may fail in any way (full disk, permissions, unpicklable tree, recursion)')
contract('ext:_warnings.warn', params={'message': 'any', 'category': 'any'}, trusted=True,
         note='ASSUMED not to raise: under the default warning filters a warning is printed; with -W error a failed save '
              'would surface as an exception (configuration outside the property)')
contract('parso.cache.try_to_save_module',
         params={'hashed_grammar': 'any', 'file_io': 'ref:FileIO', 'module': 'ref:Module', 'lines': 'any', 'pickling': 'bool',
                 'cache_path': 'any'},
         globals_=dict(CACHE, _default_cache_path='ref:Path'),
         requires=['file_io is not None', 'module is not None', 'parser_cache is not None', 'allocated(parser_cache)',
                   '_default_cache_path is not None',
                   'forall(lambda g: implies(g in parser_cache, parser_cache[g] is not None and parser_cache[g] is not parser_cache '
                   'and allocated(parser_cache[g])))',
                   'forall(lambda g1, g2: implies(g1 in parser_cache and g2 in parser_cache and g1 != g2, '
                   'parser_cache[g1] is not parser_cache[g2]))'],
         ensures=['hashed_grammar in parser_cache and file_io.path in parser_cache[hashed_grammar]',
                  'parser_cache[hashed_grammar][file_io.path] is not None',
                  'parser_cache[hashed_grammar][file_io.path].node is module',
                  # every other entry that exists afterwards existed before with the same item
                  'forall(lambda g, p: implies(g in parser_cache and p in parser_cache[g] and not (g == hashed_grammar and p == file_io.path), '
                  'old(g in parser_cache and p in parser_cache[g]) and parser_cache[g][p] is old(parser_cache[g][p])))'],
         raises=[], modifies=['parser_cache', '$maps', 'node', 'lines', 'change_time', 'last_used', '$fobj'], props=['C16', 'C17'])


# ---- cache maintenance (C17: clean-up never deletes an entry that is in use).  Ghost environment: file_atime(p) is the
# last access time of the file at p, path_exists(p) / path_is_dir(p) what the file system says, joined(d, n) the path
# d/n, clock_read(t) says t was returned by time.time() during this call.  "In use" is what the module defines: accessed
# within the last _CACHED_FILE_MAXIMUM_SURVIVAL seconds.  The policy obligation sits on the call of os.remove in
# clear_inactive_cache (contract key ext:posix.remove#inactive-only): whatever path is handed to it has been inactive for
# that long at some clock reading of this call.
from pv.contract import ext_class, fields  # noqa: E402
from pv.values import VBool, VAny  # noqa: E402

ext_class('Path', 'pathlib', ['exists', 'joinpath', 'is_dir'])
ext_class('DirEntry', 'posix', ['stat'])
fields(st_atime='int', st_mtime='int', st_ctime='int')
class_fields('DirEntry', path='any')

_fa = z3.Function('file_atime', I, I)
_pe = z3.Function('path_exists', I, z3.BoolSort())
_pd = z3.Function('path_is_dir', I, z3.BoolSort())
_jn = z3.Function('joined', I, I, I)
_cr = z3.Function('clock_read', I, z3.BoolSort())
_ss = z3.Function('str_obj', z3.StringSort(), I)


def _ref_of(v):
    from pv.values import VStr
    return _ss(v.t) if isinstance(v, VStr) else v.t


@specfn('file_atime')
def sp_fa(eng, st, p):
    return VInt(_fa(_ref_of(p)))


@specfn('path_exists')
def sp_pe(eng, st, p):
    return VBool(_pe(_ref_of(p)))


@specfn('path_is_dir')
def sp_pd(eng, st, p):
    return VBool(_pd(_ref_of(p)))


@specfn('joined')
def sp_jn(eng, st, d, n):
    from pv.values import VRef
    return VRef(_jn(_ref_of(d), _ref_of(n)), 'Path')


@specfn('clock_read')
def sp_cr(eng, st, t):
    return VBool(_cr(t.t))


SURVIVAL = 60 * 60 * 24 * 30
contract('ext:pathlib.Path.exists', params={'self': 'ref:Path'}, returns='bool', trusted=True,
         ensures=['result == path_exists(self)'], note='environment: whether the path exists now')
contract('ext:pathlib.Path.is_dir', params={'self': 'ref:Path'}, returns='bool', trusted=True,
         ensures=['result == path_is_dir(self)'], note='environment: whether the path is a directory now')
contract('ext:pathlib.Path.joinpath', params={'self': 'ref:Path', 'other': 'any'}, returns='ref:Path', trusted=True,
         ensures=['result is not None', 'result is joined(self, other)'], note='pure: the path self/other')
contract('ext:posix.listdir', params={'path': 'any'}, returns='list:str', trusted=True, raises=['OSError'], fresh_result=True,
         note='environment: the names in that directory, as a new list')
contract('ext:posix.scandir', params={'path': 'any'}, returns='list:ref:DirEntry', trusted=True, raises=['OSError'], fresh_result=True,
         ensures=['forall(lambda i: implies(0 <= i and i < len(result), result[i] is not None))'],
         note='environment: the directory entries; ASSUMED: iterating the scandir iterator is iterating a list of entries')
contract('ext:posix.DirEntry.stat', params={'self': 'ref:DirEntry'}, returns='ref:stat_result', trusted=True, raises=['OSError'],
         ensures=['result is not None', 'result.st_atime == file_atime(self.path)', 'result.st_mtime == file_mtime(self.path)'],
         note='environment: the stat record of the entry (times as mathematical numbers, not floats)')
contract('ext:time.time', params={}, returns='int', trusted=True, ensures=['clock_read(result)'],
         note='environment: a clock reading of this call (a mathematical number, not a float)')
contract('ext:posix.remove', params={'path': 'any'}, trusted=True, raises=['OSError'],
         note='environment: deletes the file at that path')
contract('ext:posix.remove#inactive-only', params={'path': 'any'}, trusted=True, raises=['OSError'],
         requires=['not forall(lambda t: not (clock_read(t) and (file_atime(path) + %d <= t or '
                   'file_atime(path) + inactivity_threshold <= t)))' % SURVIVAL],
         free={'inactivity_threshold': 'int'},
         note='os.remove with the policy obligation of the clean-up: at some clock reading of this call the file has not been '
              'accessed for _CACHED_FILE_MAXIMUM_SURVIVAL seconds (what the code tests today) or for the caller\'s '
              'inactivity_threshold (what the parameter, unused today, asks for)')

MAINT = {'_default_cache_path': 'ref:Path'}
contract('parso.cache.clear_inactive_cache', params={'cache_path': 'ref:Path', 'inactivity_threshold': 'int'}, returns='bool',
         globals_=MAINT, requires=['_default_cache_path is not None'],
         ensures=['implies(cache_path is not None, result == path_exists(cache_path))',
                  'implies(cache_path is None, result == path_exists(_default_cache_path))'],
         raises=['OSError'], modifies=[], lists=[],
         call_keys={'ext:posix.remove': 'ext:posix.remove#inactive-only'},
         loops={0: dict(invariant=['True']), 1: dict(invariant=['True'])}, props=['C17'])

# the lock file: touched (utime, or created by an append-mode open that cannot truncate), never anything else
contract('ext:posix.utime', params={'path': 'any', 'times': 'any'}, trusted=True, raises=['OSError'],
         note='environment: sets the times of that file; FileNotFoundError (an OSError) when it is missing')
contract('ext:io.open#append', params={'file': 'any', 'mode': 'str'}, returns='ref:FileHandle', trusted=True, raises=['OSError'],
         requires=['mode == "a"'], ensures=['result is not None'],
         note='open() with the policy obligation of _touch: append mode, which creates a missing file and never truncates an '
              'existing one')
ext_class('FileHandle', '_io', ['close'])
contract('ext:_io.FileHandle.close', params={'self': 'ref:FileHandle'}, trusted=True, raises=['OSError'],
         note='environment: closing may flush and fail with OSError')
contract('parso.cache._touch', params={'path': 'any'}, returns='bool', raises=['OSError'], modifies=[], lists=[],
         call_keys={'ext:io.open': 'ext:io.open#append'}, props=['C17'])

contract('parso.cache._get_cache_clear_lock_path', params={'cache_path': 'ref:Path'}, returns='ref:Path', globals_=MAINT,
         requires=['_default_cache_path is not None'],
         ensures=['result is not None',
                  'implies(cache_path is not None, result is joined(cache_path, "PARSO-CACHE-LOCK"))',
                  'implies(cache_path is None, result is joined(_default_cache_path, "PARSO-CACHE-LOCK"))'],
         modifies=[], lists=[], props=['C17'])

contract('parso.cache._touch#lock', params={'path': 'any'}, returns='bool', raises=['OSError'], modifies=[], lists=[],
         requires=['implies(cache_path is not None, path is joined(cache_path, "PARSO-CACHE-LOCK"))',
                   'implies(cache_path is None, path is joined(_default_cache_path, "PARSO-CACHE-LOCK"))'],
         free={'cache_path': 'ref:Path', '_default_cache_path': 'ref:Path'}, refines='parso.cache._touch', trusted=True,
         note='_touch (verified under its own key) with the policy obligation of the clean-up driver: the only file it is '
              'pointed at is the lock file of this cache directory')
contract('parso.cache.clear_inactive_cache#auto', params={'cache_path': 'ref:Path', 'inactivity_threshold': 'int'}, returns='bool',
         requires=['inactivity_threshold >= %d' % SURVIVAL],
         raises=['OSError'], modifies=[], lists=[], trusted=True, refines='parso.cache.clear_inactive_cache',
         note='clear_inactive_cache (verified under its own key) with the policy obligation of the automatic clean-up: it runs '
              'with a threshold not below the default')
contract('parso.cache._remove_cache_and_update_lock', params={'cache_path': 'ref:Path'}, globals_=MAINT,
         requires=['_default_cache_path is not None'], raises=['OSError'], modifies=['$fobj'], lists=[],
         call_keys={'parso.cache._touch': 'parso.cache._touch#lock',
                    'parso.cache.clear_inactive_cache': 'parso.cache.clear_inactive_cache#auto'},
         locals_={}, props=['C17'])
