"""C13 coverage of error *nodes*: the rule registered for `error_node` files an issue for the line of the token that
follows the error node -- unless that token is an error leaf (which reports itself: ErrorFinder.visit_leaf#error_leaf) or
the f-string variant applies (versions >= 3.9: the issue is filed on the error node's own line; known finding).

Chain under contract: Rule.feed_node -> _InvalidSyntaxRule.is_issue / get_node -> Rule.add_issue -> SyntaxRule._get_message
-> Rule._get_message, and on to the verified ErrorFinder.add_issue (first issue of a line wins, the line is a key
afterwards).  The following token is named through the ghost leaf numbering: leaf_at(root(node), hi(node) + 1)."""
import z3

from pv.contract import contract, class_fields, specfn
from pv.values import VBool, I, B

from contracts.errors import EF_DISPATCH

class_fields('Rule', _normalizer='ref:ErrorFinder', code='int', message='str')
class_fields('_InvalidSyntaxRule', fstring_message='str')

_fserr = z3.Function('fstring_error', I, I, I, B)


@specfn('fstring_error')
def sp_fserr(eng, st, version, node):
    """uninterpreted: what _any_fstring_error(version, node) answers on the (unchanged) tree"""
    return VBool(_fserr(version.items[0].t, version.items[1].t, node.t))


NXT = 'leaf_at(root(node), hi(node) + 1)'
ED = 'self._normalizer._error_dict'
TH = dict(theories=['tree', 'treepos', 'leafnum'], props=['C13'])
RULE_DISPATCH = {'add_issue': ['parso.normalizer.Rule.add_issue', 'parso.python.errors.ErrorFinder.add_issue'],
                 '_get_message': ['parso.python.errors.SyntaxRule._get_message', 'parso.normalizer.Rule._get_message'],
                 'is_issue': ['parso.python.errors._InvalidSyntaxRule.is_issue'],
                 'get_node': ['parso.python.errors._InvalidSyntaxRule.get_node']}
GROW = ('forall(lambda l: implies(old(l in %s), l in %s and %s[l] == old(%s[l])))' % (ED, ED, ED, ED))

contract('parso.python.errors._any_fstring_error', params={'version': 'pos', 'node': 'ref:NodeOrLeaf'}, returns='bool',
         ensures=['result == fstring_error(version, node)'], trusted=True, modifies=[], lists=[],
         note='ASSUMED: a pure function of the version and the (unchanged) tree; its answer is left uninterpreted')

contract('parso.normalizer.Rule._get_message', params={'self': 'ref:Rule', 'message': 'opt:str', 'node': 'ref:NodeOrLeaf'},
         returns='str',
         ensures=['implies(message is not None, result == message)', 'implies(message is None, result == self.message)'],
         raises=[], modifies=[], lists=[], props=['C13'])

contract('parso.python.errors.SyntaxRule._get_message', params={'self': 'ref:SyntaxRule', 'message': 'opt:str', 'node': 'ref:NodeOrLeaf'},
         returns='str', requires=['self._normalizer is not None'],
         ensures=['result.startswith("SyntaxError: ")'],
         raises=[], modifies=[], lists=[], props=['C13'])

contract('parso.normalizer.Rule.add_issue#syntax',
         params={'self': 'ref:SyntaxRule', 'node': 'ref:NodeOrLeaf', 'code': 'opt:int', 'message': 'opt:str'},
         requires=['node is not None', 'self.code == 901', 'code is None', 'self._normalizer is not None', ED + ' is not None'],
         ensures=[ED + ' is not None', 'spos(node)[0] in ' + ED, GROW],
         call_keys={'parso.normalizer.Rule._get_message': 'parso.python.errors.SyntaxRule._get_message'},
         frame_dispatch=RULE_DISPATCH, raises=[], modifies=['_error_dict', '$maps'], **TH)

contract('parso.python.errors._InvalidSyntaxRule.get_node', params={'self': 'ref:_InvalidSyntaxRule', 'node': 'ref:NodeOrLeaf'},
         returns='ref:NodeOrLeaf', requires=['node is not None', 'hi(node) != hi(root(node))'],
         ensures=['result is ' + NXT, 'result is not None'], raises=[], modifies=[], lists=[], **TH)

# what the rule decides for an (outermost) error node that is followed by a token:
#   following token is an error leaf           -> falsy, nothing filed here (the leaf reports itself)
#   otherwise, no f-string involved             -> True (feed_node then files the issue at the following token)
#   otherwise (f-string error, versions >= 3.9) -> falsy, the issue is filed on the error node's own line
contract('parso.python.errors._InvalidSyntaxRule.is_issue', params={'self': 'ref:_InvalidSyntaxRule', 'node': 'ref:NodeOrLeaf'},
         returns='opt:bool',
         requires=['node is not None', 'hi(node) != hi(root(node))', 'self.code == 901', 'self._normalizer is not None',
                   ED + ' is not None'],
         ensures=[ED + ' is not None',
                  'implies(%s.type != "error_leaf" and not fstring_error(self._normalizer.version, node), result is not None and result)' % NXT,
                  'implies(%s.type != "error_leaf" and fstring_error(self._normalizer.version, node), spos(node)[0] in %s)' % (NXT, ED),
                  'implies(%s.type == "error_leaf", result is not None and not result)' % NXT,
                  'implies(%s.type != "error_leaf" and fstring_error(self._normalizer.version, node), result is None)' % NXT,
                  GROW],
         call_keys={'parso.normalizer.Rule.add_issue': 'parso.normalizer.Rule.add_issue#syntax'},
         frame_dispatch=RULE_DISPATCH, raises=[], modifies=['_error_dict', '$maps'], **TH)

# the coverage clause itself: after the rule has been fed an error node whose following token is not an error leaf, the line
# of that token carries an issue (or, in the f-string variant, the error node's own line does)
contract('parso.normalizer.Rule.feed_node#invalid_syntax', params={'self': 'ref:_InvalidSyntaxRule', 'node': 'ref:NodeOrLeaf'},
         requires=['node is not None', 'hi(node) != hi(root(node))', 'self.code == 901', 'self._normalizer is not None',
                   ED + ' is not None'],
         ensures=['implies(%s.type != "error_leaf" and not fstring_error(self._normalizer.version, node), spos(%s)[0] in %s)' % (NXT, NXT, ED),
                  'implies(%s.type != "error_leaf" and fstring_error(self._normalizer.version, node), spos(node)[0] in %s)' % (NXT, ED),
                  GROW],
         call_keys={'parso.normalizer.Rule.add_issue': 'parso.normalizer.Rule.add_issue#syntax',
                    'parso.normalizer.Rule.is_issue': 'parso.python.errors._InvalidSyntaxRule.is_issue',
                    'parso.normalizer.Rule.get_node': 'parso.python.errors._InvalidSyntaxRule.get_node'},
         frame_dispatch=RULE_DISPATCH, raises=[], modifies=['_error_dict', '$maps'], **TH)
