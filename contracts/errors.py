"""C13 / C20: issue construction contracts."""
from pv.contract import contract, class_fields, CLASS_INV

class_fields('Normalizer', issues='list:ref:Issue')
class_fields('ErrorFinder', issues='list:ref:Issue', _error_dict='map:int:any')

# signature / well-formedness contract of the error finder's add_issue: a caller obligation (pre@...) at every call site
# class invariant (established by ErrorFinder.__init__: `self._error_dict = {}`; the constructor itself, which forwards
# *args / **kwargs, is outside the subset): the per-line table exists
CLASS_INV.setdefault('ErrorFinder', []).append('self._error_dict is not None')

# the first issue of a line wins: the line is a key afterwards, an existing entry is kept, no other line is touched
contract('parso.python.errors.ErrorFinder.add_issue',
         params={'self': 'ref:ErrorFinder', 'node': 'ref:NodeOrLeaf', 'code': 'int', 'message': 'str'},
         requires=['(code == 901 and message.startswith("SyntaxError: ")) or '
                   '(code == 903 and message.startswith("IndentationError: "))',
                   'node is not None', 'self._error_dict is not None'],
         ensures=['spos(node)[0] in self._error_dict',
                  'implies(old(spos(node)[0] in self._error_dict), self._error_dict[spos(node)[0]] == old(self._error_dict[spos(node)[0]]))',
                  'forall(lambda l: implies(l != spos(node)[0], (l in self._error_dict) == old(l in self._error_dict) and '
                  'implies(l in self._error_dict, self._error_dict[l] == old(self._error_dict[l]))))'],
         modifies=['_error_dict', '$maps'], theories=['tree', 'treepos'], props=['C13'])
contract('parso.python.errors.ErrorFinder._add_syntax_error',
         params={'self': 'ref:ErrorFinder', 'node': 'ref', 'message': 'str'}, requires=['node is not None'],
         modifies=['issues', '_error_dict', '$maps'], lists='*', props=['C13'])
contract('parso.python.errors.ErrorFinder._add_indentation_error',
         params={'self': 'ref:ErrorFinder', 'spacing': 'ref', 'message': 'str'}, requires=['spacing is not None'],
         modifies=['issues', '_error_dict', '$maps'], lists='*', props=['C13'])

# an Issue copies its range from the node it is given
contract('parso.normalizer.Issue.__init__',
         params={'self': 'ref:Issue', 'node': 'ref:NodeOrLeaf', 'code': 'int', 'message': 'str'},
         requires=['node is not None'],
         ensures=['self.code == code', 'self.message == message'],
         modifies=['self.code', 'self.message', 'self.start_pos', 'self.end_pos'], props=['C13', 'C20'])
contract('parso.normalizer.Issue.__eq__', params={'self': 'ref:Issue', 'other': 'ref:Issue'}, returns='bool',
         requires=['other is not None'],
         ensures=['result == (self.start_pos == other.start_pos and self.code == other.code)'],
         eq_on_ref='contract', props=['C20'])
# Normalizer.add_issue appends only if no equal (code, start_pos) issue exists: no (code, position) pair twice
contract('parso.normalizer.Normalizer.add_issue',
         params={'self': 'ref:Normalizer', 'node': 'ref:NodeOrLeaf', 'code': 'int', 'message': 'str'}, returns='bool',
         requires=['node is not None', 'self.issues is not None',
                   'forall(lambda i, j: implies(0 <= i and i < j and j < len(self.issues), '
                   'not (self.issues[i].code == self.issues[j].code and self.issues[i].start_pos == self.issues[j].start_pos)))'],
         ensures=['forall(lambda i, j: implies(0 <= i and i < j and j < len(self.issues), '
                  'not (self.issues[i].code == self.issues[j].code and self.issues[i].start_pos == self.issues[j].start_pos)))'],
         modifies=['issues'], lists=['self.issues'], props=['C20'])
