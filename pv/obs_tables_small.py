"""C08, second quantifier domain (bounded): all small EBNF grammars over a fixed symbol set.

contract of generate_grammar: raises ValueError  <=>  the independent analysis finds a FIRST/FIRST conflict or
left recursion; otherwise the table certificates of obs_tables hold."""
import importlib
import itertools
import multiprocessing as mp
import time

from pv.core import Ob, DISCHARGED, REFUTED, UNDECIDED
from spec import ebnf

# '"x"' is a second spelling of the terminal 'x': two arcs of one state may claim the same token under different labels
SYMS = ['NAME', 'NUMBER', "'x'", '"x"', 'b', 'a']
SYMS4 = ['NAME', "'x'", '"x"', "'y'", 'b']
SYMS3 = ['NAME', "'x'", 'b']


LEAF_WRAPS = ['%s', '%s*', '%s+', '[%s]']
OUTER_WRAPS = ['%s', '[%s]', '(%s)*', '(%s)+']


def trees(size, syms, wraps=None):
    """All EBNF bodies with exactly `size` symbol occurrences; every symbol occurrence may carry * + or [] itself."""
    wraps = wraps or LEAF_WRAPS
    if size == 1:
        for s in syms:
            for w in wraps:
                yield w % s
        return
    for k in range(1, size):
        for l in trees(k, syms, wraps):
            for r in trees(size - k, syms, wraps):
                yield '%s %s' % (l, r)
                yield '(%s | %s)' % (l, r)


def grammars(max_size, full=False):
    # bodies of the second rule; the last two refer back to the first rule (indirect left recursion / mutual FIRST sets)
    bs = ['NAME', "'x' NAME", "NUMBER | 'x'", 'a NUMBER', "NAME | a 'x'"]
    seen = set()
    for size in range(1, max_size + 1):
        if size < 3:
            gen = trees(size, SYMS)
        elif full:
            gen = trees(size, SYMS4)
        else:
            gen = trees(size, SYMS3, LEAF_WRAPS[:3])
        for t in gen:
            for w in OUTER_WRAPS:
                d = w % t
                for b in (bs if size < 3 else [bs[0], bs[3]]):
                    txt = 'a: %s NEWLINE\nb: %s\n' % (d, b)
                    if txt not in seen:
                        seen.add(txt)
                        yield txt


def check_one(txt):
    gen = importlib.import_module('parso.pgen2.generator')
    from parso.python.token import PythonTokenTypes
    try:
        g = ebnf.Grammar(txt)
    except Exception as e:  # noqa
        return ('spec-error', txt, repr(e))
    if g.nullable():
        return ('skip', txt, 'nullable')
    expect_reject = bool(g.first_conflicts()) or bool(g.left_recursive()) or bool(g.spelling_conflicts())
    try:
        pg = gen.generate_grammar(txt, token_namespace=PythonTokenTypes)
        raised = None
    except ValueError as e:
        raised = e
    except RecursionError:
        return ('fail', txt, 'RecursionError instead of ValueError (left recursion not detected)')
    except Exception as e:  # noqa
        return ('fail', txt, 'generate_grammar raised %s: %s' % (type(e).__name__, e))
    if expect_reject and raised is None:
        return ('fail', txt, 'not LL(1) (conflicts %r, left recursion %r) but accepted silently'
                % ((g.first_conflicts() + g.spelling_conflicts())[:2], sorted(g.left_recursive())))
    if not expect_reject and raised is not None:
        return ('fail', txt, 'LL(1) grammar rejected: %s' % raised)
    if raised is not None:
        return ('rejected', txt, '')
    # certificates on the accepted grammar
    from pv import obs_tables as T

    class L:
        pass
    L = T.Live.__new__(T.Live)
    L.version, L.text, L.ns, L.pg, L.spec = 'small', txt, PythonTokenTypes, pg, g
    L.ids = {}
    for n in g.names:
        d, order = L.to_dfa(n)
        eq, w = ebnf.equivalent(ebnf.trim(d)[0], ebnf.trim(g.dfa[n])[0])
        if not eq:
            return ('fail', txt, 'rule %s: automaton language differs, word %r' % (n, w))
    for o in T.plan_obligations(L):
        if o.status != DISCHARGED:
            return ('fail', txt, o.detail[:300])
    return ('ok', txt, '')


def small_grammar_obligations(max_size=3, procs=16, full=False, also_size4=False):
    t0 = time.time()
    gs = list(grammars(max_size, full))
    if also_size4:
        have = set(gs)
        gs += [x for x in grammars(4, False) if x not in have]      # four symbol occurrences over the 3-symbol set
    ctx = mp.get_context('fork')
    with ctx.Pool(procs) as pool:
        res = pool.map(check_one, gs, chunksize=64)
    cnt = {}
    fails = []
    for k, txt, info in res:
        cnt[k] = cnt.get(k, 0) + 1
        if k in ('fail', 'spec-error'):
            fails.append((txt, info))
    dt = time.time() - t0
    name = 'bnd:C08.small-grammars'
    F = ['parso.pgen2.generator.generate_grammar']
    stats = dict(evaluations=len(gs), distinct_nontrivial=cnt.get('ok', 0) + cnt.get('rejected', 0), counts=cnt,
                 samples=gs[:3] + gs[-2:],
                 rule=('(plus every such grammar with 4 symbol occurrences over %r) ' % (SYMS3,) if also_size4 else '') +
                      'every 2-rule grammar a: <rhs> NEWLINE / b: <one of 5 bodies, two of which start with a> with <rhs> an EBNF tree of <= %d symbol '
                      'occurrences over %r (each occurrence plain, starred or optional) combined by sequence, alternation and one outer [] ()* ()+; grammars with a '
                      'nullable rule are skipped; non-trivial = accepted with certificates or rejected as expected' % (max_size, SYMS))
    if not fails:
        return [Ob(name, 'B', 'runtime-contract', DISCHARGED, dt,
                   '%d grammars: %r' % (len(gs), cnt), functions=F)], stats
    obs = []
    seen = set()
    for txt, info in fails:
        sig = info.split(':')[0][:60]
        if sig in seen:
            continue
        seen.add(sig)
        obs.append(Ob(name, 'B', 'runtime-contract', REFUTED, dt, info, dict(grammar=txt, input=txt), functions=F,
                      signature=sig, replayed=True))
    return obs, stats
