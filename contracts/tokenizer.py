"""Tokenizer helper contracts (C09 prefix purity, C01 tiling of the f-string end token)."""
from pv.contract import contract, class_fields

class_fields('FStringNode', quote='str', parentheses_count='int', previous_lines='str', format_spec_count='int',
             last_string_start_pos='any')

# If an f-string on the stack closes here: the token is the quote, its prefix is the pending prefix plus *only blanks,
# tabs and form feeds* of the rest of the line (prefix purity), and exactly that text is consumed (tiling).
contract('parso.python.tokenize._close_fstring_if_necessary',
         params={'fstring_stack': 'list:ref:FStringNode', 'string': 'str', 'line_nr': 'int', 'column': 'int',
                 'additional_prefix': 'str'},
         returns='tuple:ref:PythonToken,str,int',
         requires=['forall(lambda k: implies(0 <= k and k < len(fstring_stack), fstring_stack[k] is not None and '
                   'len(fstring_stack[k].quote) >= 1 and fstring_stack[k].previous_lines == ""), trigger=lambda k: fstring_stack[k])'],
         ensures=['implies(result[0] is None, result[1] == additional_prefix and result[2] == 0 and '
                  'len(fstring_stack) == old(len(fstring_stack)))',
                  'implies(result[0] is not None, result[1] == "" and result[2] >= 1 and result[2] <= len(string) and '
                  'len(fstring_stack) < old(len(fstring_stack)))',
                  # tiling: the token's prefix is the pending prefix plus the skipped part of the line, and the token's
                  # text is literally the next part of the line; together they are the consumed part string[:result[2]]
                  'implies(result[0] is not None, result[0].prefix == additional_prefix + string[:result[2] - len(result[0].string)])',
                  'implies(result[0] is not None, string[result[2] - len(result[0].string):result[2]] == result[0].string and '
                  'len(result[0].string) >= 1 and len(result[0].string) <= result[2])',
                  # purity: what the token adds to the prefix is blanks, tabs, form feeds only
                  'implies(result[0] is not None, forall(lambda j: implies(0 <= j and j < result[2] - len(result[0].string), '
                  'string[j] == " " or string[j] == "\\t" or string[j] == "\\x0c")))',
                  'implies(result[0] is not None, result[0].start_pos == (line_nr, column + result[2] - len(result[0].string)))'],
         raises=[],
         loops={0: dict(invariant=['len(fstring_stack) == old(len(fstring_stack))', 'additional_prefix == old(additional_prefix)',
                                   'forall(lambda k: implies(0 <= k and k < len(fstring_stack), fstring_stack[k] is not None and '
                                   'len(fstring_stack[k].quote) >= 1 and fstring_stack[k].previous_lines == ""), trigger=lambda k: fstring_stack[k])'],
                        len_stable=True)},
         props=['C09', 'C01'])
