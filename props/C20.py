from props.common import run_bounded, verify_keys, add_obs
from pv import obs_effects as E
from pv import obs_classes as C

KEYS = ['parso.normalizer.Issue.__init__', 'parso.normalizer.Issue.__eq__', 'parso.normalizer.Normalizer.add_issue',
        'parso.python.prefix.PrefixPart.end_pos', 'parso.python.prefix.PrefixPart.create_spacing_part',
        # 292 is exact: recorded by the visit of the root  <=>  the text does not end in a line break
        'parso.normalizer.Normalizer.add_issue#records', 'parso.python.pep8.PEP8Normalizer.add_issue#first',
        'parso.python.pep8.PEP8Normalizer._visit_node#file_input']


def run(report):
    add_obs(report, lambda: E.tree_purity_obligations('C20', ['parso.grammar.Grammar._get_normalizer_issues']))
    add_obs(report, C.add_issue_callsite_obligations, 'parso.python.pep8', 'C20')
    verify_keys(report, KEYS)
    report.assume("E292 exactness (PEP8Normalizer._visit_node#file_input) assumes, as preconditions: the lemma that consecutive leaves are "
                  "adjacent in the ghost text and the first leaf starts at offset 0 (tile + tree theories, induction over the height; "
                  "not machine-checked), that on an error-free tree every token before the end marker has text, and that a token "
                  "ending in a line break is a NEWLINE token",
                  "that _visit_node is entered for the root before any leaf was visited (_previous_leaf is None, no 292 issue yet) "
                  "follows from Normalizer.walk / visit order and PEP8Normalizer.__init__, which are not under contract")
    report.assume("nullability obligations of the PEP 8 visitor (the bracket/suite stack discipline of _indentation_tos) "
                  "are not discharged deductively; totality rests on the bounded stand-in, where the crash sites of the "
                  "unchanged tree are listed as known findings")
    run_bounded(report, ['pep8', 'blk'], scale=0.6)
