#!/bin/sh
# tools/seed_matrix.sh <prop> ...: runs tools/try_seed.sh for every collected seed of the given properties (own property only)
# and writes seeded/matrix.json: which seeds the current checks report (development aid; not a registered check).
cd "$(dirname "$0")/.."
out=/tmp/seed_matrix_$$; mkdir -p $out
for d in seeded/*/; do
  id=$(basename $d); prop=$(echo $id | cut -c1-3)
  case " $* " in *" $prop "*) ;; *) continue;; esac
  echo "$id $prop"
done > $out/list
cat $out/list | xargs -P 6 -L 1 sh -c 'tools/try_seed.sh /verif/seeded/$0 $1 > '$out'/$0.log 2>&1'
python3 - $out <<'PY'
import json, os, sys, glob
out = sys.argv[1]
res = {}
for f in sorted(glob.glob(out + '/*.log')):
    sid = os.path.basename(f)[:-4]
    txt = open(f).read()
    if 'patch does not apply' in txt:
        res[sid] = dict(result='patch-no-longer-applies')
        continue
    vio = sorted({l.split('obligation=')[1].split()[0] for l in txt.splitlines() if l.startswith('VIOLATION') and 'obligation=' in l})
    res[sid] = dict(result='caught' if vio else 'NOT-CAUGHT', D=[v for v in vio if not v.startswith('bnd:')][:6], B=[v for v in vio if v.startswith('bnd:')][:6])
p = 'seeded/matrix.json'
old = json.load(open(p)) if os.path.exists(p) else {}
old.update(res)
json.dump(old, open(p, 'w'), indent=1, sort_keys=True)
print({k: v['result'] for k, v in res.items()})
PY
rm -rf $out
