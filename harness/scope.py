"""Input scopes of the bounded back end (DESIGN 2.10).  Runs under any Python >= 3.8.

Three sources, all deterministic given (tier, seed):
  exh   - every concatenation of <= n atoms of a 12..14-atom alphabet (exhaustive small scope)
  rnd   - seeded random concatenations of 1..14 atoms of a 70-atom adversarial alphabet
  tpl   - structured programs from templates, with 0..3 seeded mutations
  corpus- files of the repository (test/normalizer_issue_files, parso's own sources), failing_examples
A chunk is a tuple that a worker expands itself (no program lists cross process boundaries).
"""
import os
import random

BOM = '\ufeff'

# 12-atom core alphabets, per focus.  Every atom is lexically adversarial for the property using it.
ALPHA = {
    'parse': ['a', ' ', '\n', '(', ')', ':', 'if', '"', "f'", '{', '\\', '#'],
    'pos': ['a', ' ', '\n', '\r', '\f', "'''", '\\', '#', BOM, '\x85', '(', 'if'],
    'tok': ['a', ' ', '\n', '\r', '\f', '#', '\\', BOM, 'f"', '{', '"', '\xa0'],
    'fstr': ['f"', '{', '}', '"', 'a', ':', '!r', '\f', ' ', '\n', "'", '\\'],
    'blk': ['if a:\n', ' a', ' ', '\n', '#c', 'a', '\\\n', '\t', '(', ')', 'def f():\n', '  b'],
    'stmt': ['a', ' ', '\n', ':', 'if', 'def', '(', ')', '=', ',', '*', '1'],
    'err': ['a', ' ', '\n', ':', 'if', '(', ')', "f'", '{', '}', "'", '='],
    'pep8': ['a', ' ', '\n', ':', 'if', '(', ')', '#', '\\', '=', ',', BOM],
}

EXT = [
    'a', 'b', 'x1', '_', '\xe9', 'None',
    'def', 'class', 'if', 'else', 'elif', 'for', 'in', 'while', 'return', 'import', 'from', 'lambda',
    'with', 'as', 'try', 'except', 'finally', 'async', 'await', 'not', 'is', 'pass', 'yield', 'del',
    'global', 'nonlocal', 'match', 'case',
    '1', '0x', '1.', '1e', '1j', '0_0',
    '=', '==', ':=', '->', '**', '*', '.', '...', ',', ';', '@', '~', '!', '<>', '$', '?', '+', '-', '%',
    '(', ')', '[', ']', '{', '}', '{{', '}}', ':',
    "'", '"', "'''", '"""', 'f"', "f'", "f'''", 'rb"', "b'", 'u"', 'F"', "fr'",
    '\\', '\\\n', '#', '# c', '\n', '\r\n', '\r',
    ' ', '    ', '\t', '\f', '\v', '\x1c', '\x85', '\u2028', '\xa0', BOM, '\xb2', '\x00',
]

VERSIONS = ['3.6', '3.7', '3.8', '3.9', '3.10', '3.11', '3.12', '3.13', '3.14']


def exh_count(k, n):
    return sum(k ** i for i in range(0, n + 1))


def exh_program(alpha, n, idx):
    """idx-th program of the enumeration of all words of length <= n (length-lexicographic)."""
    k = len(alpha)
    length = 0
    while idx >= k ** length:
        idx -= k ** length
        length += 1
    atoms = []
    for _ in range(length):
        atoms.append(alpha[idx % k])
        idx //= k
    return ''.join(reversed(atoms))


def rnd_program(rng, maxlen=14):
    n = rng.randint(1, maxlen)
    return ''.join(rng.choice(EXT) for _ in range(n))


# ---------------------------------------------------------------- templates
_EXPR = ['a', '1', 'a.b', 'a(b)', 'a[1]', '(a, b)', '[a for a in b]', 'a if b else c', 'lambda x: x',
         "f'{a}'", "f'{a!r:>{b}}'", "'s'", '"""d\nd"""', 'a + b * c', 'not a', '-a', 'a == b', '{a: b}',
         'await a', '*a', 'a := 1', 'yield', "f'''{\na}'''", 'x\\\n  + y', 'a\xe9', "b'x'", '...',
         'lambda: (yield)', "f'{x=}'", '(a for a in b if c)', 'a @ b', 'a < b > c', '[*a, *b]']
_SIMPLE = ['pass', 'a = %s', 'return %s', 'import a.b as c', 'from . import (a, b)', 'del a', 'global a',
           'assert %s, %s', 'raise %s from %s', '%s', 'a: int = %s', 'a += %s', 'break', 'continue',
           'nonlocal a', 'print %s', 'a = b = %s', 'from __future__ import annotations', 'x = yield %s',
           '%s; %s', 'a, *b = %s', 'import a, b', 'type X[T] = %s']
_COMPOUND = ['if %s:', 'while %s:', 'for a in %s:', 'def f(a, b=%s, *c, d, **e):', 'class C(%s):', 'with %s as a:',
             'try:', 'async def g():', 'def h(a, /, b): # c', '@%s\ndef k():', 'else:', 'elif %s:', 'except %s as e:',
             'finally:', 'async for a in %s:', 'match %s:', 'case %s:', 'lambda: %s', 'def m(*, a) -> %s:',
             'class D:', 'async with %s:', 'def t[T](a, b=%s):', 'class G[T, U]:', 'def u[T: int, *V](x: T) -> T:']


def _fill(rng, t):
    while '%s' in t:
        t = t.replace('%s', rng.choice(_EXPR), 1)
    return t


def tpl_program(rng):
    lines = []
    depth = 0
    n = rng.randint(1, 9)
    ind = rng.choice(['    ', '    ', '  ', '\t', ' '])
    for _ in range(n):
        r = rng.random()
        if r < 0.38:
            for piece in _fill(rng, rng.choice(_COMPOUND)).split('\n'):
                lines.append(ind * depth + piece)
            depth += 1
        else:
            lines.append(ind * depth + _fill(rng, rng.choice(_SIMPLE)))
            if depth and rng.random() < 0.45:
                depth -= rng.randint(1, depth)
        if rng.random() < 0.12:
            lines.append(rng.choice(['', '# comment', ind * depth + '# c', '   ', '\f']))
    nl = rng.choice(['\n', '\n', '\n', '\r\n', '\r'])
    code = nl.join(lines)
    if rng.random() < 0.7:
        code += nl
    else:
        # end of file without a final line break: decorate it (trailing blanks, comment, continuation)
        r = rng.random()
        if r < 0.5:
            code += rng.choice([' ', '  ', '\t', '  # c', '#', ' \\', '\f', ' \\\n', ';'])
    if rng.random() < 0.05:
        code = BOM + code
    # mutations
    for _ in range(rng.choice([0, 0, 1, 1, 2, 3])):
        code = mutate(rng, code)
    return code


def mutate(rng, code):
    r = rng.random()
    if not code:
        return rng.choice(EXT)
    i = rng.randrange(len(code) + 1)
    if r < 0.3:
        return code[:i] + rng.choice(EXT) + code[i:]
    if r < 0.5:
        j = min(len(code), i + rng.randint(1, 3))
        return code[:i] + code[j:]
    if r < 0.65:
        ls = code.split('\n')
        k = rng.randrange(len(ls))
        ls.insert(k, ls[k])
        return '\n'.join(ls)
    if r < 0.8:
        ls = code.split('\n')
        k = rng.randrange(len(ls))
        ls[k] = rng.choice(['', ' ', '  ', '    ', '\t']) + ls[k].lstrip() if rng.random() < 0.7 else ' ' + ls[k]
        return '\n'.join(ls)
    if r < 0.9:
        ls = code.split('\n')
        k = rng.randrange(len(ls))
        del ls[k]
        return '\n'.join(ls)
    return code.replace('\n', rng.choice(['\r\n', '\r', '\n\n', '\\\n']), 1)


# ---------------------------------------------------------------- regression inputs
# Inputs of defects that were repaired (known_findings.json, status fixed): always part of every scope, so that the
# violation is reported again if it ever returns (a fixed entry suppresses nothing).
REGRESSION_PROGRAMS = [
    "f'\\{x}'\n", "f'\\{{'\n", "f'a\\}}'\n", "rf'\\{x}'\n", "f'''\\{x}'''\n", "x = f'\\{a}' + f\"\\{{b\"\n",
    "f'{a:\\{b}}'\n", "f'\\\\{x}\\}}'\n",
    # a character that starts no token as the first thing on an indented / dedented line (the tokenizer's scan branch
    # does the indentation bookkeeping there); found unexecuted by a coverage run of the quick tier
    # rule branches of the error finder / PEP 8 checker a coverage run of the quick tier found unexecuted
    "for x in y:\n  try:\n    pass\n  finally:\n    continue\n", "b'\xe9'\n", "from __future__ import braces\n",
    "f'{f\"{f\'\'\'{1}\'\'\'}\"}'\n", "{a: b} = 1\n", "{**a} = 1\n", "{a: b} += 1\n", "for a, b() in c: pass\n", "del a, b()\n",
    "[a for a in b if (c := a) for c in d]\n", "[i := 1 for i in range(2)]\n", "(x := y for y in z)\n[(a, b) := 1]\n",
    "l = 1\nO = 2\ndef I(): pass\nclass l: pass\n", "def f(l): return l\nlambda O: O\n",
    "x = 1\n\n\n\n", "async def f():\n  [await a async for a in b]\n  yield from c\n",
    # identifiers whose NFKC form is a keyword (fullwidth / mathematical letters): names for tokenizer, parser and tree alike
    "\uff49\uff46 x: pass\n", "x = \uff4e\uff4f\uff54 y\n", "\U0001d41d\U0001d41e\U0001d41f f(): pass\n",
    "[b \uff46\uff4f\uff52 c \uff49\uff4e d]\n", "\uff50\uff41\uff53\uff53\n", "\uff32\uff45\uff54\uff55\uff52\uff4e = \uff4e\uff4f\uff4e\uff45\n",
    # a replacement field with its own format spec inside a format spec, followed by another field or text (the nested spec
    # is finished by its closing brace)
    'f"{x:{y:1}{z}}"\n', 'f"{x:{y:{z}}{w}}"\n', "f'{x:{y:>{w}}{z!r:{q}}}'\n", 'f"{a:{b:{c}}d{e}f}"\n', "x = f'''{x:{y:1}\n{z}}'''\n",
    # raw f-strings: \N is no escape there, the braces after it open a replacement field
    's = rf"\\N{x}"\n', "s = fr'''\\N{x}{y}'''\n", 's = Rf"a\\N{x}\\{y}"\n', 's = f"\\N{DASH}{x}"\n',
    # a named unicode escape inside a format spec is literal text (not a replacement field), except in raw f-strings
    "s = f'{x:\\N{BULLET}}'\n", "s = f'{x:\\N{EM DASH}>5}'\n", "s = f'{x:{y}\\N{BULLET}}'\n", "s = rf'{x:\\N{y}}'\n",
    # issues that are reported out of source order (scope checks at the end of a function, a keyword reported on the module):
    # a line that already has an issue is reported again after another line got one
    "def f(x):\n    break; global x\n    continue\n", "x = 1 +\ny = (\nreturn",
    # star import from __future__ (the future-import rule unpacked one-element paths)
    "from __future__ import *\n", "x = 1\nfrom __future__ import *\n",
    # a form feed in the indentation of a line (CPython restarts the column count there; open known finding of C10)
    "if x:\n    y\n\x0c    z\n",
    "if a:\n    b\n  $\nc\n", "  $", "if a:\n  ?\nb\n", "if a:\n    $\n    b\n$\n", "class C:\n  def f():\n    x\n  `\n",
]


# ---------------------------------------------------------------- corpus
def corpus_files(repo):
    out = []
    d = os.path.join(repo, 'test', 'normalizer_issue_files')
    if os.path.isdir(d):
        for fn in sorted(os.listdir(d)):
            if fn.endswith('.py'):
                out.append(os.path.join(d, fn))
    for sub in ('parso', os.path.join('parso', 'python'), os.path.join('parso', 'pgen2'), 'test'):
        d = os.path.join(repo, sub)
        if os.path.isdir(d):
            for fn in sorted(os.listdir(d)):
                if fn.endswith('.py'):
                    out.append(os.path.join(d, fn))
    return out


def corpus_snippets(repo):
    """Small programs: failing_examples of the repository, plus line-window cuts of corpus files."""
    out = []
    try:
        import importlib.util
        p = os.path.join(repo, 'test', 'failing_examples.py')
        spec = importlib.util.spec_from_file_location('_fe', p)
        m = importlib.util.module_from_spec(spec)
        spec.loader.exec_module(m)
        out.extend(str(x) for x in m.FAILING_EXAMPLES)
    except Exception:
        pass
    return out


def read_text(path):
    with open(path, 'rb') as f:
        b = f.read()
    try:
        return b.decode('utf-8')
    except UnicodeDecodeError:
        return b.decode('latin-1')


def expand(chunk, repo):
    """chunk -> iterator of (program, origin)"""
    kind = chunk[0]
    if kind == 'exh':
        _, alpha_name, n, lo, hi = chunk
        alpha = ALPHA[alpha_name]
        for i in range(lo, hi):
            yield exh_program(alpha, n, i)
    elif kind == 'rnd':
        _, seed, count, maxlen = chunk
        rng = random.Random(seed)
        for _ in range(count):
            yield rnd_program(rng, maxlen)
    elif kind == 'tpl':
        _, seed, count = chunk
        rng = random.Random(seed)
        for _ in range(count):
            yield tpl_program(rng)
    elif kind == 'files':
        for p in chunk[1]:
            yield read_text(p)
    elif kind == 'list':
        for s in chunk[1]:
            yield s
    elif kind == 'gram':
        for s in grammar_sentences(repo, chunk[1])[chunk[2]::chunk[3]]:
            yield s
    else:
        raise ValueError(kind)


_GS = {}


def grammar_sentences(repo, version):
    """Programs derived from the grammar file of `version`: one per automaton arc of every rule reachable from file_input and
    one per (arc, rule that uses the arc's rule) and one per pair of consecutive arcs -- every construct of the language in
    every context, every two steps of a rule in sequence (C06's generator)."""
    if version not in _GS:
        from harness import grammar_oracle as GO
        g = GO.spec_grammar(repo, version)
        dv = GO.Deriver(g)
        import itertools
        out = []
        seen = set()
        for _, tree in itertools.chain(dv.sentences(['file_input']), dv.sentences_in_sites(['file_input']),
                                       dv.sentences_pairs(['file_input'])):
            text = GO.render(tree, 0)[0]
            if text not in seen:
                seen.add(text)
                out.append(text)
        _GS[version] = out
    return _GS[version]


def nesting_programs():
    """Syntactic nesting up to 100 levels (the bound of C02): brackets, indentation, prefix operators, f-strings."""
    out = []
    for n in (1, 7, 30, 60, 100):
        for o, c in (('(', ')'), ('[', ']'), ('{', '}')):
            out.append(o * n + 'a' + c * n + '\n')
            out.append(o * n + 'a')                      # never closed
            out.append('a' + c * n)                      # never opened
            out.append((o + 'a,') * n + c * (n // 2))
        out.append('not ' * n + 'a\n')
        out.append('-' * n + 'a')
        out.append('~+' * (n // 2) + '1')
        out.append('await ' * n + 'a')
        out.append('lambda: ' * n + '0')
        out.append('a(' * n + ')' * n)
        out.append('a if ' * n + 'b' + ' else c' * n)
        out.append(''.join(' ' * i + 'if a:\n' for i in range(n)) + ' ' * n + 'pass\n')
        out.append(''.join(' ' * i + 'def f():\n' for i in range(n)) + ' ' * n + 'return\n' + 'x\n')
        out.append(''.join(' ' * i + 'class C:\n' for i in range(n)))          # bodies missing
        out.append(''.join(' ' * (n - i) + 'a\n' for i in range(n)))           # staircase of dedents
        out.append(''.join(' ' * i + 'try:\n' for i in range(n)) + ''.join(' ' * (n - i) + 'except:\n' for i in range(n)))
        out.append('x = ' * n + '1')
        out.append('a.' * n + 'b')
        out.append('[a for a in ' * min(n, 40) + 'b' + ']' * min(n, 40))
    for n in (1, 2, 3, 5):
        q = ['"', "'", '"""', "'''"]
        s = 'a'
        for i in range(n):
            s = 'f' + q[i % 4] + '{' + s + '}' + q[i % 4]
        out.append(s)
        out.append(s[:len(s) // 2])
    return out


def plan(alpha_name, n, rnd, tpl, seed, repo, files=True, nchunks=64, extra=''):
    """List of chunks covering the scope."""
    chunks = []
    if alpha_name:
        total = exh_count(len(ALPHA[alpha_name]), n)
        step = max(1, (total + nchunks - 1) // nchunks)
        for lo in range(0, total, step):
            chunks.append(('exh', alpha_name, n, lo, min(total, lo + step)))
    per = 500
    for i in range(0, rnd, per):
        chunks.append(('rnd', seed * 1000003 + i, min(per, rnd - i), 14))
    for i in range(0, tpl, per):
        chunks.append(('tpl', seed * 7919 + i + 17, min(per, tpl - i)))
    if extra.startswith('stdlib'):
        import sysconfig
        d = sysconfig.get_paths()['stdlib']
        cap = int(extra[6:] or 60)
        fs = sorted(os.path.join(d, f) for f in os.listdir(d) if f.endswith('.py'))[:cap]
        for i in range(0, len(fs), 3):
            chunks.append(('files', fs[i:i + 3]))
    if extra == 'nesting':
        np_ = nesting_programs()
        for i in range(0, len(np_), 8):
            chunks.append(('list', np_[i:i + 8]))
    chunks.append(('list', list(REGRESSION_PROGRAMS)))
    if files:
        for gv in ('3.8', '3.14'):
            for k in range(4):
                chunks.append(('gram', gv, k, 4))
        fs = corpus_files(repo)
        for i in range(0, len(fs), 4):
            chunks.append(('files', fs[i:i + 4]))
        sn = corpus_snippets(repo)
        for i in range(0, len(sn), 100):
            chunks.append(('list', sn[i:i + 100]))
    return chunks
