"""Constructors of tree objects (C19 protocol, C11 parent links, C01 one-leaf-per-token)."""
from pv.contract import contract

contract('parso.tree.Leaf.__init__',
         params={'self': 'ref:Leaf', 'value': 'str', 'start_pos': 'pos', 'prefix': 'str'},
         ensures=['self.value == value', 'self.prefix == prefix', 'self.line == start_pos[0]', 'self.column == start_pos[1]',
                  'self.parent is None'],
         modifies=['self.value', 'self.prefix', 'self.line', 'self.column', 'self.parent'],
         inline=['parso.tree.Leaf.start_pos.setter'], props=['C19', 'C01'])
contract('parso.tree.TypedLeaf.__init__',
         params={'self': 'ref:TypedLeaf', 'type': 'str', 'value': 'str', 'start_pos': 'pos', 'prefix': 'str'},
         ensures=['self.value == value', 'self.prefix == prefix', 'self.line == start_pos[0]', 'self.column == start_pos[1]',
                  'self.type == type', 'self.parent is None'],
         modifies=['self.value', 'self.prefix', 'self.line', 'self.column', 'self.parent', 'self.type'], props=['C19'])
contract('parso.tree.ErrorLeaf.__init__',
         # token_type is a str (Parser.error_recovery: typ.name) or a token type object (BaseParser.error_recovery):
         # declared opaque, nothing is promised about the stored field
         params={'self': 'ref:ErrorLeaf', 'token_type': 'any', 'value': 'str', 'start_pos': 'pos', 'prefix': 'str'},
         ensures=['self.value == value', 'self.prefix == prefix', 'self.line == start_pos[0]', 'self.column == start_pos[1]',
                  'self.parent is None'],
         modifies=['self.value', 'self.prefix', 'self.line', 'self.column', 'self.parent', 'self.token_type'], props=['C19', 'C07'])

# every child's parent is the new node, the children list is the one given, nothing else changes
contract('parso.tree.BaseNode.__init__', params={'self': 'ref:BaseNode', 'children': 'list:ref:NodeOrLeaf'},
         requires=['children is not None',
                   'forall(lambda k: implies(0 <= k and k < len(children), children[k] is not None and children[k] is not self), '
                   'trigger=lambda k: children[k])'],
         ensures=['self.children is children', 'self.parent is None',
                  'forall(lambda k: implies(0 <= k and k < len(children), children[k].parent is self), trigger=lambda k: children[k])',
                  # frame of the parent links: whoever's parent changed is now a child of self
                  'forall(lambda x: implies(x is not self and x.parent is not old(x.parent), x.parent is self), kinds=dict(x="ref:NodeOrLeaf"), trigger=lambda x: x.parent)'],
         loops={0: dict(invariant=['self.children is children', 'self.parent is None', 'forall(lambda x: implies(x is not self and x.parent is not old(x.parent), x.parent is self), kinds=dict(x="ref:NodeOrLeaf"), trigger=lambda x: x.parent)',
                                   'forall(lambda k: implies(0 <= k and k < _i, children[k].parent is self), trigger=lambda k: children[k])',
                                   'forall(lambda k: implies(0 <= k and k < len(children), children[k] is not None and children[k] is not self), '
                                   'trigger=lambda k: children[k])'])},
         modifies=['self.children', 'self.parent', 'parent'], props=['C19', 'C11'])
contract('parso.tree.Node.__init__', params={'self': 'ref:Node', 'type': 'str', 'children': 'list:ref:NodeOrLeaf'},
         requires=['children is not None',
                   'forall(lambda k: implies(0 <= k and k < len(children), children[k] is not None and children[k] is not self), '
                   'trigger=lambda k: children[k])'],
         ensures=['self.children is children', 'self.type == type',
                  'forall(lambda k: implies(0 <= k and k < len(children), children[k].parent is self), trigger=lambda k: children[k])'],
         modifies=['self.type', 'self.children', 'self.parent', 'parent'], props=['C19'])

# ---- Param regrouping (C11 parent links, C19): Param.__init__ and the parent discipline of _create_params
contract('parso.python.tree.Param.__init__',
         params={'self': 'ref:Param', 'children': 'list:ref:NodeOrLeaf', 'parent': 'ref:BaseNode'},
         requires=['children is not None',
                   'forall(lambda k: implies(0 <= k and k < len(children), children[k] is not None and children[k] is not self), '
                   'trigger=lambda k: children[k])'],
         ensures=['self.children is children', 'self.parent is parent',
                  'forall(lambda k: implies(0 <= k and k < len(children), children[k].parent is self), trigger=lambda k: children[k])',
                  # nothing else is re-parented: whoever's parent changed is now a child of self (or is self)
                  'forall(lambda x: implies(x is not self and x.parent is not old(x.parent), x.parent is self), '
                  'kinds=dict(x="ref:NodeOrLeaf"), trigger=lambda x: x.parent)'],
         modifies=['self.children', 'self.parent', 'parent'], call_keys={'parso.tree.BaseNode.__init__': 'parso.tree.BaseNode.__init__'},
         props=['C11', 'C19'])

# ---- the remaining node constructors reached through Parser.convert_node (C02: convert_node returns a node)
NODE_INIT = dict(requires=['children is not None',
                           'forall(lambda k: implies(0 <= k and k < len(children), children[k] is not None and children[k] is not self), '
                           'trigger=lambda k: children[k])'],
                 ensures=['self.children is children',
                          'forall(lambda k: implies(0 <= k and k < len(children), children[k].parent is self), trigger=lambda k: children[k])'],
                 modifies=['self.children', 'self.parent', 'parent'], props=['C02', 'C19'])
for _q, _cls in (('parso.python.tree.Scope.__init__', 'Scope'), ('parso.python.tree.Class.__init__', 'Class')):
    contract(_q, params={'self': 'ref:' + _cls, 'children': 'list:ref:NodeOrLeaf'}, **NODE_INIT)
contract('parso.python.tree.Module.__init__', params={'self': 'ref:Module', 'children': 'list:ref:NodeOrLeaf'},
         requires=NODE_INIT['requires'], ensures=NODE_INIT['ensures'],
         modifies=['self.children', 'self.parent', 'parent', 'self._used_names'], props=['C02', 'C19'])
# ---- Function / Lambda: parameters are regrouped into Param nodes exactly when none of them is a Param yet (C19: building a
# node again from already regrouped children -- what eval(dump()) and unpickling do -- keeps them as they are; C02: the
# constructors are total on the children convert_node hands them).  _create_params itself is the only ASSUMED callee (its
# VC was attempted and dropped: the solver does not converge on its invariants): total, returns a list of non-None
# children, re-parents only what it returns.
contract('parso.python.tree._create_params', params={'parent': 'ref:BaseNode', 'argslist_list': 'list:ref:NodeOrLeaf'},
         returns='list:ref:NodeOrLeaf', trusted=True, fresh_result=False,
         requires=['parent is not None', 'argslist_list is not None'],
         ensures=['result is not None',
                  'forall(lambda k: implies(0 <= k and k < len(result), result[k] is not None), trigger=lambda k: result[k])',
                  # it builds new lists and new Param nodes: the children of objects that existed before are what they were
                  'forall(lambda x: implies(old(allocated(x)), x.children is old(x.children)), kinds=dict(x="ref:BaseNode"), trigger=lambda x: x.children)'],
         modifies=['parent', 'children'], lists=[],
         note='ASSUMED: total on the parameters of a funcdef / lambdef; returns the regrouped children (Param nodes, bare star, '
              'slash, commas), none of them None')
# (The C19 clause "already regrouped parameters are kept as they are" was stated and attempted: its VC needs the instantiation
# slice element <-> original element that E-matching does not find; it stays with the bounded dump / eval round trip.)
contract('parso.python.tree.Lambda.__init__', params={'self': 'ref:Lambda', 'children': 'list:ref:NodeOrLeaf'},
         requires=NODE_INIT['requires'],
         ensures=['self.children is children'], raises=[],
         call_keys={'parso.python.tree.Scope.__init__': 'parso.python.tree.Scope.__init__'},
         modifies=['self.children', 'self.parent', 'parent', 'children'], lists='*', theories=['tree'], props=['C19', 'C02'])
# a funcdef production always has a `parameters` child (T: tab:*:shape facts of C02); it is an interior node
HAS_PARAMS = ('exists(lambda j: 0 <= j and j < len(%s) and %s[j] is not None and %s[j].type == "parameters" and not is_leaf(%s[j]))')
contract('parso.python.tree.Function._find_parameters', params={'self': 'ref:Function'}, returns='ref:BaseNode',
         requires=['self.children is not None', HAS_PARAMS % (('self.children',) * 4),
                   'forall(lambda k: implies(0 <= k and k < len(self.children), self.children[k] is not None), trigger=lambda k: self.children[k])',
                   'forall(lambda k: implies(0 <= k and k < len(self.children) and self.children[k].type == "parameters", not is_leaf(self.children[k])), trigger=lambda k: self.children[k])'],
         ensures=['result is not None', 'result.type == "parameters"', 'not is_leaf(result)', 'result is not self',
                  'exists(lambda j: 0 <= j and j < len(self.children) and self.children[j] is result)'],
         raises=[], modifies=[], lists=[], loops={0: dict(invariant=[
             'forall(lambda k: implies(0 <= k and k < _i, self.children[k].type != "parameters"), trigger=lambda k: self.children[k])'])},
         theories=['tree'], props=['C02', 'C05'])
contract('parso.python.tree.Function.__init__', params={'self': 'ref:Function', 'children': 'list:ref:NodeOrLeaf'},
         requires=NODE_INIT['requires'] + [HAS_PARAMS % (('children',) * 4),
                   'forall(lambda k: implies(0 <= k and k < len(children) and children[k].type == "parameters", not is_leaf(children[k]) and children[k].children is not None), trigger=lambda k: children[k])'],
         ensures=['self.children is children'], raises=[],
         call_keys={'parso.python.tree.Scope.__init__': 'parso.python.tree.Scope.__init__'},
         modifies=['self.children', 'self.parent', 'parent', 'children'], lists='*', theories=['tree'], props=['C19', 'C02'])
