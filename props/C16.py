from props.common import ASSUME_BOUNDED, verify_keys
from pv import bounded as B

NAMES = ['bnd:C16.parse_equals_fresh', 'bnd:C16.parse.total']


def run(report):
    verify_keys(report, ['parso.cache._set_cache_item', 'parso.cache.load_module', 'parso.cache._load_from_file_system',
                         'parso.cache.try_to_save_module', 'parso.cache._NodeCacheItem.__init__',
                         'parso.file_io.FileIO.get_last_modified',
                         # the API: whichever branch serves the request, the module is the tree of the text read, and what is
                         # filed in the cache is filed with the lines it is the tree of
                         'parso.grammar.Grammar.parse'])
    report.assume("Grammar.parse: ghost tv(x) (identity of a text, shared by bytes / decoded string / list of lines) and "
                  "Module.ver; the parser, the tokenizer and the diff parser are used through assumed contracts that state C01 / "
                  "C09 / C04 for them (Parser.parse#api, _tokenize_lines#api, DiffParser.update#api), the callables stored in "
                  "the grammar object are taken to be those PythonGrammar passes in; that load_module and try_to_save_module keep "
                  "the 'tree of its lines' invariant of the memory cache is assumed on top of their verified contracts")
    report.assume("ghost environment of the cache VCs: cur_mtime(path) (the file's mtime now, only grows) and "
                  "ver_at(path, mtime) (content version; a function of mtime by the property's proviso); get_last_modified "
                  "returns cur_mtime; representation invariant of parser_cache is a precondition of load_module; that "
                  "try_to_save_module establishes it is NOT proved (it does not hold: known finding, read-then-stat race)",
                  "disk branch: _load_from_file_system is proved against a ghost file system (file_mtime, file_obj, path_of, "
                  "hashed_path) through assumed contracts of os.path.getmtime / open / pickle.load / _get_hashed_path; DISK-INV "
                  "(a cache file not older than the source mtime holds the tree of that source version) is a precondition, "
                  "assumed of the writer try_to_save_module, not proved",
                  "A-DICTITER: iteration over a dict terminates; the filter of the GC dict comprehension is abstracted "
                  "(any subset of the entries may survive)")
    tier = report.tier
    res = B.run_script('harness.c16_run', ['--length', '3' if tier == 'quick' else '5',
                                          '--sample', '6000' if tier == 'quick' else '60000', '--seed', str(report.seed)])
    B.bounded_obligations(report, 'C16', NAMES, res, functions=['parso.cache.load_module', 'parso.cache.try_to_save_module',
                                                                 'parso.cache._load_from_file_system', 'parso.grammar.Grammar.parse'])
    report.assume(ASSUME_BOUNDED,
                  "environment model of the harness: a logical clock answers os.path.getmtime for sources and pickles, "
                  "every write advances it (the property's proviso 'a change is observable as a newer modification time')")
