"""Modular effect analysis over the real ASTs (DESIGN 2.7): per function, the abstract locations it may
write and the exception classes that may escape; closed over a name-based call graph.

Abstract locations
  global:<module>.<name>          rebinding or in-place mutation of a module-level object
  clsattr:<Class>.<attr>          store to a class attribute
  field:<Class>.<attr>            store to (or in-place mutation of the object held in) an instance field;
                                  <Class> is the enclosing class for `self.x`, otherwise every parso class that
                                  declares an attribute of that name ('?' if none does)
  default:<function>.<param>      in-place mutation of a parameter that has a mutable default value
  param:<function>.<param>        in-place mutation of a parameter object (caller's object)
Everything is computed for all inputs by construction (it never looks at values).
"""
import ast
import os

from pv import source
from pv.core import REPO

MUTATORS = {'append', 'extend', 'insert', 'pop', 'remove', 'clear', 'sort', 'reverse', 'add', 'discard', 'update',
            'setdefault', 'popitem', '__setitem__', '__delitem__'}
PKG_MODULES = ['parso', 'parso.cache', 'parso.file_io', 'parso.grammar', 'parso.normalizer', 'parso.parser',
               'parso.tree', 'parso.utils', 'parso._compatibility', 'parso.python.diff', 'parso.python.errors',
               'parso.python.parser', 'parso.python.pep8', 'parso.python.prefix', 'parso.python.token',
               'parso.python.tokenize', 'parso.python.tree', 'parso.pgen2', 'parso.pgen2.generator',
               'parso.pgen2.grammar_parser']


class FnInfo:
    def __init__(self, qual, node, mod, cls):
        self.qual, self.node, self.mod, self.cls = qual, node, mod, cls
        self.writes = set()        # own writes: (location, lineno, text)
        self.reads = []            # attribute reads: (attr, lineno, top-level stmt index)
        self.calls = set()         # resolved callee qualnames
        self.unresolved = set()    # textual description of dynamic calls that could not be resolved
        self.raises = set()        # own escaping exception class names: (exc, lineno, origin)
        self.constructs = set()    # class names constructed (Name(...) calls resolving to classes)
        self.is_property = False
        self.mutations = set()     # locations whose container is changed in place (append, pop, item store, del, ...)


class Program:
    def __init__(self, dynamic=None, prim_raises=None):
        self.fns = {}
        self.classes = {}          # class name -> (module, ClassDef, bases)
        self.cls_attrs = {}        # class name -> set of attribute names declared (slots, self.x = in methods, class body)
        self.mod_globals = {}      # module -> set of module-level names
        self.imports = {}          # module -> {local name: qualified target}
        self.methods_by_name = {}
        self.props_by_name = {}
        self.dynamic = dynamic or {}
        self.prim_raises = prim_raises or {}
        for m in PKG_MODULES:
            try:
                self._load(m)
            except source.BindingError:
                continue
        self._attrs()
        for f in list(self.fns.values()):
            self._analyse(f)

    # ------------------------------------------------------------------ loading
    def _load(self, mod):
        tree, _, _ = source.module_ast(mod)
        self.mod_globals[mod] = set()
        imp = self.imports[mod] = {}
        for s in tree.body:
            for n in self._stmts_flat(s):
                if isinstance(n, ast.Assign):
                    for t in n.targets:
                        for x in ast.walk(t):
                            if isinstance(x, ast.Name):
                                self.mod_globals[mod].add(x.id)
                elif isinstance(n, ast.AnnAssign) and isinstance(n.target, ast.Name):
                    self.mod_globals[mod].add(n.target.id)
                elif isinstance(n, ast.ImportFrom) and n.module:
                    base = n.module if n.level == 0 else self._rel(mod, n.level, n.module)
                    for a in n.names:
                        imp[a.asname or a.name] = base + '.' + a.name
                elif isinstance(n, ast.Import):
                    for a in n.names:
                        imp[a.asname or a.name.split('.')[0]] = a.name if a.asname else a.name.split('.')[0]
        self._defs(tree.body, mod, None, mod)

    @staticmethod
    def _rel(mod, level, name):
        parts = mod.split('.')
        return '.'.join(parts[:len(parts) - level] + ([name] if name else []))

    def _stmts_flat(self, s):
        yield s
        if isinstance(s, (ast.If, ast.Try)):
            for f in ('body', 'orelse', 'finalbody'):
                for x in getattr(s, f, []) or []:
                    yield from self._stmts_flat(x)
            for h in getattr(s, 'handlers', []):
                for x in h.body:
                    yield from self._stmts_flat(x)

    def _defs(self, body, mod, cls, prefix):
        for s in body:
            for n in self._stmts_flat(s):
                if isinstance(n, ast.ClassDef):
                    self.classes[n.name] = (mod, n, [self._basename(b) for b in n.bases])
                    self._defs(n.body, mod, n.name, prefix + '.' + n.name)
                elif isinstance(n, (ast.FunctionDef, ast.AsyncFunctionDef)):
                    q = prefix + '.' + n.name
                    deco = [ast.unparse(d) for d in n.decorator_list]
                    if any(d.endswith('.setter') for d in deco):
                        q += '.setter'
                    fi = FnInfo(q, n, mod, cls)
                    fi.is_property = any(d in ('property', 'abstractproperty') for d in deco)
                    self.fns[q] = fi
                    if cls:
                        (self.props_by_name if fi.is_property else self.methods_by_name).setdefault(n.name, []).append(q)
                    # nested functions
                    self._nested(n, mod, cls, q)

    def _nested(self, fn, mod, cls, prefix):
        for s in ast.walk(fn):
            if s is not fn and isinstance(s, (ast.FunctionDef, ast.AsyncFunctionDef)):
                q = prefix + '.<locals>.' + s.name
                if q not in self.fns:
                    fi = FnInfo(q, s, mod, cls)
                    fi.outer = prefix
                    self.fns[q] = fi

    @staticmethod
    def _basename(b):
        if isinstance(b, ast.Name):
            return b.id
        if isinstance(b, ast.Attribute):
            return b.attr
        if isinstance(b, ast.Subscript):
            return Program._basename(b.value)
        return ast.unparse(b)

    def mro(self, cls):
        out = []
        todo = [cls]
        while todo:
            c = todo.pop(0)
            if c in out or c not in self.classes:
                continue
            out.append(c)
            todo.extend(self.classes[c][2])
        return out

    def subclasses(self, cls):
        return [c for c in self.classes if cls in self.mro(c)]

    def _attrs(self):
        for c, (mod, node, bases) in self.classes.items():
            at = self.cls_attrs.setdefault(c, set())
            for s in node.body:
                if isinstance(s, ast.Assign):
                    for t in s.targets:
                        if isinstance(t, ast.Name):
                            if t.id == '__slots__':
                                try:
                                    v = ast.literal_eval(s.value)
                                    at.update([v] if isinstance(v, str) else v)
                                except Exception:  # noqa
                                    pass
                            else:
                                at.add(t.id)
                elif isinstance(s, ast.AnnAssign) and isinstance(s.target, ast.Name):
                    at.add(s.target.id)
                elif isinstance(s, (ast.FunctionDef, ast.AsyncFunctionDef)):
                    for n in ast.walk(s):
                        if isinstance(n, ast.Attribute) and isinstance(n.ctx, ast.Store) and \
                                isinstance(n.value, ast.Name) and n.value.id == 'self':
                            at.add(n.attr)
            if any(b == 'NamedTuple' for b in bases):
                pass

    def classes_with_attr(self, attr):
        out = []
        for c in self.classes:
            if any(attr in self.cls_attrs.get(k, ()) for k in self.mro(c)):
                out.append(c)
        return out

    # ------------------------------------------------------------------ per-function facts
    def _analyse(self, f):
        fn = f.node
        params = {a.arg for a in fn.args.posonlyargs + fn.args.args + fn.args.kwonlyargs}
        if fn.args.vararg:
            params.add(fn.args.vararg.arg)
        if fn.args.kwarg:
            params.add(fn.args.kwarg.arg)
        mutable_defaults = set()
        pos = fn.args.posonlyargs + fn.args.args
        for a, d in zip(pos[len(pos) - len(fn.args.defaults):], fn.args.defaults):
            if isinstance(d, (ast.List, ast.Dict, ast.Set)) or (isinstance(d, ast.Call) and getattr(d.func, 'id', '') in ('list', 'dict', 'set')):
                mutable_defaults.add(a.arg)
        for a, d in zip(fn.args.kwonlyargs, fn.args.kw_defaults):
            if d is not None and isinstance(d, (ast.List, ast.Dict, ast.Set)):
                mutable_defaults.add(a.arg)
        declared_global = set()
        local_names = set(params)
        alias = {}       # local name -> root description ('self.attr' / 'global:x')
        body_nodes = list(self._own_nodes(fn))
        for n in body_nodes:
            if isinstance(n, ast.Global):
                declared_global.update(n.names)
        for n in body_nodes:
            if isinstance(n, ast.Name) and isinstance(n.ctx, ast.Store) and n.id not in declared_global:
                local_names.add(n.id)
            if isinstance(n, (ast.FunctionDef, ast.AsyncFunctionDef)) and n is not fn:
                local_names.add(n.name)
        # closures see the locals of their outer function as non-globals
        outer = getattr(f, 'outer', None)
        while outer:
            of = self.fns.get(outer)
            if of is None:
                break
            for n in self._own_nodes(of.node):
                if isinstance(n, ast.Name) and isinstance(n.ctx, ast.Store):
                    local_names.add(n.id)
            local_names.update(a.arg for a in of.node.args.posonlyargs + of.node.args.args + of.node.args.kwonlyargs)
            outer = getattr(of, 'outer', None)
        for n in body_nodes:
            if isinstance(n, ast.Assign) and len(n.targets) == 1 and isinstance(n.targets[0], ast.Name):
                r = self._root(n.value, f, local_names, alias)
                if r and not r.startswith('local'):
                    alias[n.targets[0].id] = r
        top_index = {}
        for i, s in enumerate(fn.body):
            for n in ast.walk(s):
                top_index[id(n)] = i

        def loc_of_attr_store(recv, attr):
            if isinstance(recv, ast.Name) and recv.id == 'self' and f.cls:
                return ['field:%s.%s' % (f.cls, attr)]
            if isinstance(recv, ast.Name) and recv.id == 'cls' and f.cls:
                return ['clsattr:%s.%s' % (f.cls, attr)]
            if isinstance(recv, ast.Name) and recv.id in self.classes and recv.id not in local_names:
                return ['clsattr:%s.%s' % (recv.id, attr)]
            if isinstance(recv, ast.Name) and recv.id not in local_names and recv.id in self.mod_globals.get(f.mod, ()):
                return ['global:%s.%s' % (f.mod, recv.id)]
            cs = self.classes_with_attr(attr)
            return ['field:%s.%s' % (c, attr) for c in cs] or ['field:?.%s' % attr]

        for n in body_nodes:
            ln = getattr(n, 'lineno', 0)
            if isinstance(n, ast.Attribute):
                if isinstance(n.ctx, (ast.Store, ast.Del)):
                    for l in loc_of_attr_store(n.value, n.attr):
                        f.writes.add((l, ln, self._line(f, ln)))
                else:
                    f.reads.append((n.attr, ln, top_index.get(id(n), -1)))
                    for q in self.props_by_name.get(n.attr, []):
                        f.calls.add(q)
            elif isinstance(n, ast.Name) and isinstance(n.ctx, (ast.Store, ast.Del)) and n.id in declared_global:
                f.writes.add(('global:%s.%s' % (f.mod, n.id), ln, self._line(f, ln)))
            elif isinstance(n, ast.Subscript) and isinstance(n.ctx, (ast.Store, ast.Del)):
                self._mutation(f, n.value, ln, local_names, alias, params, mutable_defaults)
            elif isinstance(n, ast.AugAssign) and isinstance(n.target, ast.Name) and n.target.id in alias \
                    and isinstance(n.op, ast.Add):
                pass
            elif isinstance(n, ast.Call):
                if isinstance(n.func, ast.Attribute) and n.func.attr in MUTATORS:
                    self._mutation(f, n.func.value, ln, local_names, alias, params, mutable_defaults)
                self._call(f, n, local_names)
            elif isinstance(n, ast.Raise):
                pass
            elif isinstance(n, (ast.With, ast.AsyncWith)):
                pass
        f.raises = self._raises_block(f, fn.body, local_names)

    def _own_nodes(self, fn):
        """All nodes of the function body except nested function bodies."""
        todo = list(fn.body)
        while todo:
            n = todo.pop()
            yield n
            for c in ast.iter_child_nodes(n):
                if isinstance(c, (ast.FunctionDef, ast.AsyncFunctionDef, ast.Lambda)):
                    yield c
                    continue
                todo.append(c)

    def _line(self, f, ln):
        try:
            _, src, _ = source.module_ast(f.mod)
            return src.splitlines()[ln - 1].strip()
        except Exception:  # noqa
            return ''

    def _root(self, e, f, local_names, alias):
        """Where does the object denoted by e live?"""
        while isinstance(e, (ast.Subscript,)):
            e = e.value
        if isinstance(e, ast.Attribute):
            base = e.value
            if isinstance(base, ast.Name) and base.id == 'self' and f.cls:
                return 'field:%s.%s' % (f.cls, e.attr)
            if isinstance(base, ast.Name) and base.id in self.classes and base.id not in local_names:
                return 'clsattr:%s.%s' % (base.id, e.attr)
            if isinstance(base, ast.Name) and base.id == 'cls' and f.cls:
                return 'clsattr:%s.%s' % (f.cls, e.attr)
            cs = self.classes_with_attr(e.attr)
            return 'field:%s.%s' % ('|'.join(sorted(cs)) or '?', e.attr)
        if isinstance(e, ast.Name):
            if e.id in alias:
                return alias[e.id]
            if e.id in local_names:
                return 'local:' + e.id
            if e.id in self.mod_globals.get(f.mod, ()):
                return 'global:%s.%s' % (f.mod, e.id)
            tgt = self.imports.get(f.mod, {}).get(e.id)
            if tgt:
                m, _, nm = tgt.rpartition('.')
                if nm in self.mod_globals.get(m, ()):
                    return 'global:%s.%s' % (m, nm)
            return 'local:' + e.id
        if isinstance(e, ast.Call):
            return 'local:<call>'
        return None

    def _mutation(self, f, recv, ln, local_names, alias, params, mutable_defaults):
        r = self._root(recv, f, local_names, alias)
        if r is None:
            return
        if r.startswith('local:'):
            name = r[6:]
            base = recv
            while isinstance(base, ast.Subscript):
                base = base.value
            if isinstance(base, ast.Name) and base.id in params:
                kind = 'default' if base.id in mutable_defaults else 'param'
                f.writes.add(('%s:%s.%s' % (kind, f.qual, base.id), ln, self._line(f, ln)))
                f.mutations.add('%s:%s.%s' % (kind, f.qual, base.id))
            return
        for part in (r.split('|') if r.startswith('field:') and '|' in r else [r]):
            if r.startswith('field:') and '|' in r:
                attr = r.rsplit('.', 1)[1]
                part = part if part.startswith('field:') else 'field:' + part
                if not part.endswith('.' + attr):
                    part = part + '.' + attr
            f.writes.add((part, ln, self._line(f, ln)))
            f.mutations.add(part)

    # ------------------------------------------------------------------ calls
    def _call(self, f, n, local_names):
        fn = n.func
        if isinstance(fn, ast.Name):
            name = fn.id
            if name in local_names:
                # local function / parameter holding a callable
                q = f.qual + '.<locals>.' + name
                if q in self.fns:
                    f.calls.add(q)
                    return
                outer = getattr(f, 'outer', None)
                while outer:
                    q = outer + '.<locals>.' + name
                    if q in self.fns:
                        f.calls.add(q)
                        return
                    outer = getattr(self.fns.get(outer), 'outer', None)
                dyn = self.dynamic.get((f.qual, name))
                if dyn is not None:
                    f.calls.update(dyn)
                else:
                    f.unresolved.add('%s(...)' % name)
                return
            tgt = None
            if name in self.classes and self.classes[name][0] == f.mod:
                tgt = ('class', name)
            elif (f.mod + '.' + name) in self.fns:
                tgt = ('fn', f.mod + '.' + name)
            else:
                imp = self.imports.get(f.mod, {}).get(name)
                if imp:
                    if imp in self.fns:
                        tgt = ('fn', imp)
                    elif imp.rsplit('.', 1)[-1] in self.classes:
                        tgt = ('class', imp.rsplit('.', 1)[-1])
                    else:
                        tgt = ('ext', imp)
            if tgt is None:
                tgt = ('ext', name)
            self._add_target(f, tgt)
        elif isinstance(fn, ast.Attribute):
            attr = fn.attr
            base = fn.value
            if isinstance(base, ast.Call) and isinstance(base.func, ast.Name) and base.func.id == 'super' and f.cls:
                mro = self.mro(f.cls)[1:]
                if base.args and isinstance(base.args[0], ast.Name) and base.args[0].id in self.mro(f.cls):
                    # super(Class, self): the search starts after Class
                    mro = self.mro(f.cls)[self.mro(f.cls).index(base.args[0].id) + 1:]
                for c in mro:
                    q = '%s.%s.%s' % (self.classes[c][0], c, attr)
                    if q in self.fns:
                        f.calls.add(q)
                        break
                return
            if isinstance(base, ast.Name) and base.id == 'self' and f.cls:
                hit = False
                for c in self.mro(f.cls) + self.subclasses(f.cls):
                    q = '%s.%s.%s' % (self.classes[c][0], c, attr)
                    if q in self.fns:
                        f.calls.add(q)
                        hit = True
                if hit:
                    return
                dyn = self.dynamic.get((f.qual, 'self.' + attr))
                if dyn is not None:
                    f.calls.update(dyn)
                    return
                if attr in self.cls_attrs.get(f.cls, ()) or any(attr in self.cls_attrs.get(c, ()) for c in self.mro(f.cls)):
                    f.unresolved.add('self.%s(...)' % attr)
                    return
            if isinstance(base, ast.Name) and base.id not in local_names and base.id not in self.classes \
                    and base.id not in self.imports.get(f.mod, {}) and base.id not in self.mod_globals.get(f.mod, ()):
                import builtins
                if hasattr(builtins, base.id):
                    self._add_target(f, ('ext', 'builtins.%s.%s' % (base.id, attr)))
                    return
            if isinstance(base, ast.Name) and base.id in self.ext_locals(f):
                self._add_target(f, ('ext', 'io.' + attr))
                return
            # module attribute: tree.PythonErrorNode(...), os.path.getmtime(...)
            dotted = self._dotted(fn)
            if dotted:
                head = dotted.split('.')[0]
                imp = self.imports.get(f.mod, {}).get(head)
                if imp and head not in local_names:
                    full = imp + dotted[len(head):]
                    last = full.rsplit('.', 1)[-1]
                    if full in self.fns:
                        f.calls.add(full)
                        return
                    if last in self.classes and full.startswith('parso'):
                        self._add_target(f, ('class', last))
                        return
                    if not full.startswith('parso'):
                        self._add_target(f, ('ext', full))
                        return
            if attr in MUTATORS or attr in ('get', 'items', 'values', 'keys', 'join', 'startswith', 'endswith', 'split',
                                            'strip', 'lstrip', 'rstrip', 'format', 'encode', 'decode', 'match', 'search',
                                            'group', 'end', 'start', 'span', 'index', 'count', 'replace', 'lower', 'upper',
                                            'isidentifier', 'splitlines', 'rfind', 'find', 'copy', 'mro', 'hexdigest',
                                            'isalpha', 'isdigit', 'expanduser', 'joinpath', 'exists', 'is_dir', 'close',
                                            'read', 'write', 'stat', 'findall', 'partition', 'title', 'zfill', 'union',
                                            'intersection', 'issubset', 'difference', 'isspace', 'isupper', 'rsplit',
                                            'expandtabs', 'center', 'ljust', 'rjust', 'debug', 'warning', 'info', 'warn',
                                            'disable', 'enable', 'permutations', 'product', 'chain', 'is_file', 'unlink'):
                ms = [q for q in self.methods_by_name.get(attr, []) if self._sig_ok(q, n)]
                if not ms:
                    if attr in ('read', 'write', 'stat', 'exists', 'is_dir'):
                        self._add_target(f, ('ext', 'io.' + attr))
                    return
            ms = [q for q in self.methods_by_name.get(attr, []) if self._sig_ok(q, n)]
            if ms:
                f.calls.update(ms)
                return
            dyn = self.dynamic.get((f.qual, '.' + attr))
            if dyn is not None:
                f.calls.update(dyn)
                return
            f.unresolved.add('<expr>.%s(...)' % attr)
        else:
            key = ast.unparse(fn)
            dyn = self.dynamic.get((f.qual, key))
            if dyn is not None:
                f.calls.update(dyn)
            else:
                f.unresolved.add(key + '(...)')

    def ext_locals(self, f):
        """Local names bound to objects of external libraries (open(...) files, os.scandir entries)."""
        cached = getattr(f, '_ext_locals', None)
        if cached is not None:
            return cached
        out = set()
        ext_calls = {'open', 'os.scandir', 'os.listdir'}
        for n in self._own_nodes(f.node):
            val = tgt = None
            if isinstance(n, ast.Assign) and len(n.targets) == 1 and isinstance(n.targets[0], ast.Name):
                val, tgt = n.value, n.targets[0].id
            elif isinstance(n, ast.withitem) and isinstance(n.optional_vars, ast.Name):
                val, tgt = n.context_expr, n.optional_vars.id
            elif isinstance(n, ast.For) and isinstance(n.target, ast.Name):
                val, tgt = n.iter, n.target.id
            if isinstance(val, ast.Call):
                d = self._dotted(val.func) if isinstance(val.func, ast.Attribute) else getattr(val.func, 'id', None)
                if d in ext_calls:
                    out.add(tgt)
        f._ext_locals = out
        return out

    def _sig_ok(self, q, call):
        """Could this call be a call of method q?  (arity and keyword names; a mismatch would be a TypeError)"""
        a = self.fns[q].node.args
        names = [x.arg for x in a.posonlyargs + a.args][1:]      # without self
        npos = len([x for x in call.args if not isinstance(x, ast.Starred)])
        if any(isinstance(x, ast.Starred) for x in call.args) or any(k.arg is None for k in call.keywords):
            return True
        if npos > len(names) and a.vararg is None:
            return False
        kw = {k.arg for k in call.keywords}
        allowed = set(names) | {x.arg for x in a.kwonlyargs}
        if not kw <= allowed and a.kwarg is None:
            return False
        required = names[:len(names) - len(a.defaults)]
        given = set(names[:npos]) | kw
        if any(r not in given for r in required):
            return False
        for x, d in zip(a.kwonlyargs, a.kw_defaults):
            if d is None and x.arg not in kw:
                return False
        return True

    def _add_target(self, f, tgt):
        kind, name = tgt
        if kind == 'fn':
            f.calls.add(name)
        elif kind == 'class':
            f.constructs.add(name)
            for c in self.mro(name):
                q = '%s.%s.__init__' % (self.classes[c][0], c)
                if q in self.fns:
                    f.calls.add(q)
                    break
            for c in self.mro(name):
                for meth in ('__new__',):
                    q = '%s.%s.%s' % (self.classes[c][0], c, meth)
                    if q in self.fns:
                        f.calls.add(q)
        else:
            f.calls.add('ext:' + name)

    @staticmethod
    def _dotted(e):
        parts = []
        while isinstance(e, ast.Attribute):
            parts.append(e.attr)
            e = e.value
        if isinstance(e, ast.Name):
            parts.append(e.id)
            return '.'.join(reversed(parts))
        return None

    # ------------------------------------------------------------------ exceptions
    def _raises_block(self, f, body, local_names):
        """Own raise sites and external-primitive raise sites, with the handler context of each."""
        out = []

        def walk(stmts, handlers):
            for s in stmts:
                if isinstance(s, ast.Try):
                    hs = []
                    for h in s.handlers:
                        if h.type is None:
                            hs.append(None)
                        elif isinstance(h.type, ast.Tuple):
                            hs.extend(self._exc_name(x) for x in h.type.elts)
                        else:
                            hs.append(self._exc_name(h.type))
                    walk(s.body, handlers + [hs])
                    for h in s.handlers:
                        walk(h.body, handlers)
                    walk(s.orelse, handlers)
                    walk(s.finalbody, handlers)
                    continue
                if isinstance(s, (ast.FunctionDef, ast.AsyncFunctionDef, ast.ClassDef)):
                    continue
                for n in self._shallow(s):
                    if isinstance(n, ast.Raise):
                        if n.exc is None:
                            out.append(('<reraise>', n.lineno, handlers))
                        else:
                            x = n.exc.func if isinstance(n.exc, ast.Call) else n.exc
                            out.append((self._exc_name(x), n.lineno, handlers))
                    elif isinstance(n, ast.Assert):
                        out.append(('AssertionError', n.lineno, handlers))
                    elif isinstance(n, ast.Call):
                        out.append(('<call>', n, handlers))
                for fld in ('body', 'orelse'):
                    sub = getattr(s, fld, None)
                    if isinstance(sub, list) and sub and isinstance(sub[0], ast.stmt):
                        walk(sub, handlers)
        walk(body, [])
        return out

    def _shallow(self, s):
        """Expression nodes of a statement itself (not of nested statement bodies)."""
        todo = []
        for fld, val in ast.iter_fields(s):
            if fld in ('body', 'orelse', 'finalbody', 'handlers'):
                continue
            if isinstance(val, list):
                todo.extend(v for v in val if isinstance(v, ast.AST))
            elif isinstance(val, ast.AST):
                todo.append(val)
        if isinstance(s, (ast.Raise, ast.Assert)):
            yield s
        while todo:
            n = todo.pop()
            yield n
            for c in ast.iter_child_nodes(n):
                if isinstance(c, (ast.Lambda,)):
                    continue
                todo.append(c)

    @staticmethod
    def _exc_name(x):
        if isinstance(x, ast.Name):
            return x.id
        if isinstance(x, ast.Attribute):
            return x.attr
        return ast.unparse(x)

    # ------------------------------------------------------------------ closure
    def reachable(self, entries, prune=None):
        """Functions reachable from the entries.  prune: {qualname: set of names assumed False} removes the calls
        under `if <name>` / `if <name> and ...` in that function (entry-specific constant arguments)."""
        seen = set()
        todo = list(entries)
        while todo:
            q = todo.pop()
            if q in seen or q.startswith('ext:'):
                continue
            f = self.fns.get(q)
            if f is None:
                continue
            seen.add(q)
            calls = f.calls
            if prune and q in prune:
                calls = self._pruned_calls(f, prune[q])
            todo.extend(calls)
        return seen

    def _pruned_calls(self, f, false_names):
        import copy
        fn = copy.deepcopy(f.node)

        def dead(test):
            if isinstance(test, ast.Name):
                return test.id in false_names
            if isinstance(test, ast.BoolOp) and isinstance(test.op, ast.And):
                return any(dead(v) for v in test.values)
            if isinstance(test, ast.BoolOp) and isinstance(test.op, ast.Or):
                return all(dead(v) for v in test.values)
            return False

        class P(ast.NodeTransformer):
            def visit_If(self, node):
                self.generic_visit(node)
                if dead(node.test):
                    return node.orelse or [ast.Pass()]
                return node
        fn = P().visit(fn)
        g = FnInfo(f.qual, fn, f.mod, f.cls)
        if hasattr(f, 'outer'):
            g.outer = f.outer
        self._analyse(g)
        return g.calls

    def writes_closure(self, entries, prune=None):
        out = []
        for q in sorted(self.reachable(entries, prune)):
            for w in sorted(self.fns[q].writes):
                out.append((q,) + w)
        return out

    def escaping(self, q, _stack=None, _memo=None):
        """Exception class names that may escape function q (own raises, primitive raises, callee raises,
        minus what enclosing handlers catch).  '<any>' stands for arbitrary exceptions."""
        from pv.engine2 import exc_matches
        _memo = {} if _memo is None else _memo
        _stack = _stack or []
        if q in _memo:
            return _memo[q]
        if q in _stack:
            return set()
        f = self.fns.get(q)
        if f is None:
            return set()
        res = set()
        for exc, where, handlers in f.raises:
            if exc == '<call>':
                call = where
                sub = FnInfo(q, f.node, f.mod, f.cls)
                if hasattr(f, 'outer'):
                    sub.outer = f.outer
                self._call(sub, call, self._locals(f))
                names = set()
                for c in sub.calls:
                    if c.startswith('ext:'):
                        names |= set(self.prim_raises.get(c[4:], ()))
                    else:
                        names |= {e for e, _ in self.escaping(c, _stack + [q], _memo)}
                ln = call.lineno
                origin = ast.unparse(call.func)
            else:
                names = {exc}
                ln = where
                origin = 'raise'
            for e in names:
                caught = False
                for hs in reversed(handlers):
                    if e == '<any>':
                        if None in hs or 'Exception' in hs or 'BaseException' in hs:
                            caught = True
                            break
                        continue
                    if exc_matches(e, [h for h in hs if h is not None]) or None in hs:
                        caught = True
                        break
                if not caught and e != '<reraise>':
                    res.add((e, '%s@%s' % (origin, self._line(f, ln))))
        _memo[q] = res
        return res

    def _locals(self, f):
        names = {a.arg for a in f.node.args.posonlyargs + f.node.args.args + f.node.args.kwonlyargs}
        for n in self._own_nodes(f.node):
            if isinstance(n, ast.Name) and isinstance(n.ctx, ast.Store):
                names.add(n.id)
        return names
