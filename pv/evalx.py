"""Expression evaluation of the VC generator (Python subset of DESIGN 2.3)."""
import ast

import z3

from pv import classes, smt
from pv.values import (VMap, V, VInt, VBool, VStr, VNONE, VNoneT, VTuple, VRef, VList, VOpt, VPy, VFn, VAny,
                       OutOfSubset, fresh, fresh_name, kind_of, I, B, S)


class _EmptyDict:
    def __repr__(self):
        return '{}'

    def __bool__(self):
        return False


EMPTY_DICT = _EmptyDict()


def lit_of(v):
    """Concrete python value of a V if it is a literal, else raises KeyError."""
    if isinstance(v, VPy):
        return v.obj
    if isinstance(v, VStr) and v.lit() is not None:
        return v.lit()
    if isinstance(v, VInt) and z3.is_int_value(v.t):
        return v.t.as_long()
    if isinstance(v, VNoneT):
        return None
    if isinstance(v, VTuple):
        return tuple(lit_of(x) for x in v.items)
    raise KeyError


def from_py(o):
    if o is None:
        return VNONE
    if isinstance(o, bool):
        return VBool(o)
    if isinstance(o, int):
        return VInt(o)
    if isinstance(o, str):
        return VStr(o)
    if isinstance(o, bytes):
        return VStr(o.decode('latin-1'), b=True)
    return VPy(o)


class Evaluator:
    def __init__(self, eng):
        self.eng = eng

    # ------------------------------------------------------------ basic predicates
    def truthy(self, st, v):
        if isinstance(v, VBool):
            return v.t
        if isinstance(v, VInt):
            return v.t != 0
        if isinstance(v, VStr):
            return z3.Length(v.t) > 0
        if isinstance(v, VNoneT):
            return z3.BoolVal(False)
        if isinstance(v, VRef):
            return v.t != 0      # tree / token objects define neither __bool__ nor __len__ (class-table check)
        if isinstance(v, VList):
            return st.llen(v.t) > 0
        if isinstance(v, VMap):
            raise OutOfSubset('truthiness of a dict')
        if isinstance(v, VTuple):
            return z3.BoolVal(len(v.items) > 0)
        if isinstance(v, VOpt):
            return z3.And(z3.Not(v.isnone), self.truthy(st, v.val))
        if isinstance(v, VPy):
            return z3.BoolVal(bool(v.obj))
        raise OutOfSubset('truthiness of %r' % (v,))

    def is_none(self, st, v):
        if isinstance(v, VNoneT):
            return z3.BoolVal(True)
        if isinstance(v, VRef):
            return v.t == 0
        if isinstance(v, VOpt):
            return v.isnone
        if isinstance(v, (VInt, VBool, VStr, VTuple, VList, VPy, VFn)):
            return z3.BoolVal(False)
        if isinstance(v, (VMap, VAny)):
            return v.t == 0             # an opaque value may be None: None is the value 0 of every reference-like sort
        raise OutOfSubset('is None of %r' % (v,))

    def identical(self, st, a, b):
        if isinstance(a, VNoneT) or isinstance(b, VNoneT):
            return self.is_none(st, b if isinstance(a, VNoneT) else a)
        if isinstance(a, (VRef, VList, VAny, VMap)) and isinstance(b, (VRef, VList, VAny, VMap)):
            return a.t == b.t
        if isinstance(a, VPy) and isinstance(b, VPy):
            return z3.BoolVal(a.obj is b.obj)
        if isinstance(a, VRef) and isinstance(b, VPy) or isinstance(a, VPy) and isinstance(b, VRef):
            r, p = (a, b) if isinstance(a, VRef) else (b, a)
            return r.t == self.eng.intern(p.obj)
        raise OutOfSubset('identity of %s and %s' % (kind_of(a), kind_of(b)))

    def equal(self, st, a, b):
        """Python == (for refs: through the __eq__ contracts of the class table)."""
        if isinstance(a, VOpt) or isinstance(b, VOpt):
            if isinstance(a, VOpt) and isinstance(b, VOpt):
                return z3.Or(z3.And(a.isnone, b.isnone),
                             z3.And(z3.Not(a.isnone), z3.Not(b.isnone), self.equal(st, a.val, b.val)))
            o, x = (a, b) if isinstance(a, VOpt) else (b, a)
            if isinstance(x, VNoneT):
                return o.isnone
            return z3.And(z3.Not(o.isnone), self.equal(st, o.val, x))
        if isinstance(a, VNoneT) or isinstance(b, VNoneT):
            o = b if isinstance(a, VNoneT) else a
            if isinstance(o, VRef):
                return self.ref_eq_none(st, o)
            return self.is_none(st, o)
        if isinstance(a, VInt) and isinstance(b, VInt):
            return a.t == b.t
        if isinstance(a, (VInt, VAny)) and isinstance(b, (VInt, VAny)):
            return a.t == b.t          # opaque values are identified by an integer term
        if isinstance(a, VBool) and isinstance(b, VBool):
            return a.t == b.t
        if isinstance(a, VStr) and isinstance(b, VStr):
            return a.t == b.t
        if isinstance(a, VTuple) and isinstance(b, VTuple):
            if len(a.items) != len(b.items):
                return z3.BoolVal(False)
            return z3.And([self.equal(st, x, y) for x, y in zip(a.items, b.items)] or [z3.BoolVal(True)])
        if isinstance(a, VPy) and isinstance(b, VPy):
            return z3.BoolVal(a.obj == b.obj)
        if isinstance(a, VRef) and isinstance(b, VRef):
            return self.eng.ref_eq(st, a, b)
        if isinstance(a, VRef) and isinstance(b, VStr) or isinstance(a, VStr) and isinstance(b, VRef):
            r, s = (a, b) if isinstance(a, VRef) else (b, a)
            return self.eng.ref_eq_str(st, r, s)
        if isinstance(a, (VRef, VAny)) and isinstance(b, (VPy, VAny, VRef)) or isinstance(a, VPy) and isinstance(b, (VRef, VAny)):
            return self.identical(st, a, b)     # enum members / token types: default identity __eq__
        if isinstance(a, VList) and isinstance(b, VList):
            if a.ek != b.ek:
                raise OutOfSubset('== of lists of different element kinds')
            i = z3.Int(fresh_name('k'))
            if a.ek.startswith('ref'):
                raise OutOfSubset('== of lists of references')
            return z3.And(st.llen(a.t) == st.llen(b.t),
                          z3.ForAll([i], z3.Implies(z3.And(0 <= i, i < st.llen(a.t)),
                                                    st.lget(a.t, i, a.ek) == st.lget(b.t, i, b.ek))))
        if kind_of(a) != kind_of(b) and not isinstance(a, (VAny, VFn)) and not isinstance(b, (VAny, VFn)):
            ka, kb = kind_of(a), kind_of(b)
            scal = {'int', 'bool', 'str', 'tuple', 'list'}
            if ka in scal and kb in scal and {ka, kb} != {'int', 'bool'}:
                return z3.BoolVal(False)
        raise OutOfSubset('== of %s and %s' % (kind_of(a), kind_of(b)))

    def ref_eq_none(self, st, r):
        return r.t == 0

    def compare(self, st, op, a, b):
        """<, <=, >, >= on ints, strings of length<=1 are not needed; tuples lexicographic."""
        if isinstance(a, VBool):
            a = VInt(z3.If(a.t, 1, 0))
        if isinstance(b, VBool):
            b = VInt(z3.If(b.t, 1, 0))
        if isinstance(a, VInt) and isinstance(b, VInt):
            return {ast.Lt: a.t < b.t, ast.LtE: a.t <= b.t, ast.Gt: a.t > b.t, ast.GtE: a.t >= b.t}[op]
        if isinstance(a, VTuple) and isinstance(b, VTuple):
            if len(a.items) != len(b.items):
                raise OutOfSubset('ordering of tuples of different length')
            strict = op in (ast.Lt, ast.Gt)
            lt = op in (ast.Lt, ast.LtE)
            res = z3.BoolVal(not strict)
            for x, y in reversed(list(zip(a.items, b.items))):
                if not (isinstance(x, VInt) and isinstance(y, VInt)):
                    raise OutOfSubset('ordering of non-int tuple components')
                first = (x.t < y.t) if lt else (x.t > y.t)
                res = z3.Or(first, z3.And(x.t == y.t, res))
            return res
        if isinstance(a, VOpt) or isinstance(b, VOpt):
            # comparing None with a number raises TypeError in Python 3
            oa = a if isinstance(a, VOpt) else None
            ob = b if isinstance(b, VOpt) else None
            for o in (oa, ob):
                if o is not None:
                    st.may_raise(o.isnone, 'TypeError', 'ordering comparison with None')
            return self.compare(st, op, oa.val if oa else a, ob.val if ob else b)
        raise OutOfSubset('ordering of %s and %s' % (kind_of(a), kind_of(b)))

    # ------------------------------------------------------------ expressions
    def ev(self, st, e):
        m = getattr(self, 'ev_' + type(e).__name__, None)
        if m is None:
            raise OutOfSubset('expression %s' % type(e).__name__)
        return m(st, e)

    def ev_Constant(self, st, e):
        v = e.value
        if v is None or isinstance(v, (bool, int, str, bytes)):
            return from_py(v)
        if isinstance(v, float):
            return VPy(v)
        raise OutOfSubset('constant %r' % (v,))

    def ev_Name(self, st, e):
        return self.eng.lookup_name(st, e.id)

    def ev_Set(self, st, e):
        """a set display of literals is only supported as the right operand of `in` / `not in`: read as the tuple of
        its elements (membership is the same; anything else done with it is outside the subset for a VTuple)"""
        if not all(isinstance(x, ast.Constant) for x in e.elts):
            raise OutOfSubset('set display with non-literal elements')
        return VTuple([self.ev(st, x) for x in e.elts])

    def ev_Tuple(self, st, e):
        return VTuple([self.ev(st, x) for x in e.elts])

    def ev_List(self, st, e):
        items = [self.ev(st, x) for x in e.elts]
        return self.eng.new_list(st, items)

    def ev_Dict(self, st, e):
        if e.keys:
            raise OutOfSubset('non-empty dict literal')
        return VPy(EMPTY_DICT)

    def ev_DictComp(self, st, e):
        return self.eng.dict_comp(st, e)

    def ev_JoinedStr(self, st, e):
        return fresh('str', 'fstr')

    def ev_IfExp(self, st, e):
        c = self.truthy(st, self.ev(st, e.test))
        st.guards.append(c)
        a = self.ev(st, e.body)
        st.guards.pop()
        st.guards.append(z3.Not(c))
        b = self.ev(st, e.orelse)
        st.guards.pop()
        return self.ite(st, c, a, b)

    def ite(self, st, c, a, b):
        if isinstance(a, VInt) and isinstance(b, VInt):
            return VInt(z3.If(c, a.t, b.t))
        if isinstance(a, VBool) and isinstance(b, VBool):
            return VBool(z3.If(c, a.t, b.t))
        if isinstance(a, VStr) and isinstance(b, VStr):
            return VStr(z3.If(c, a.t, b.t))
        if isinstance(a, VTuple) and isinstance(b, VTuple) and len(a.items) == len(b.items):
            return VTuple([self.ite(st, c, x, y) for x, y in zip(a.items, b.items)])
        if isinstance(a, (VRef, VNoneT)) and isinstance(b, (VRef, VNoneT)):
            ta = z3.IntVal(0) if isinstance(a, VNoneT) else a.t
            tb = z3.IntVal(0) if isinstance(b, VNoneT) else b.t
            cls = getattr(a, 'cls', None) or getattr(b, 'cls', None)
            return VRef(z3.If(c, ta, tb), cls)
        if isinstance(a, VList) and isinstance(b, VList) and a.ek == b.ek:
            return VList(z3.If(c, a.t, b.t), a.ek)
        if isinstance(a, VPy) and isinstance(b, VPy) and a.obj is b.obj:
            return a
        if isinstance(a, VPy) and isinstance(b, VPy):
            return VRef(z3.If(c, self.eng.intern(a.obj), self.eng.intern(b.obj)), None)
        if isinstance(a, (VOpt, VNoneT)) and isinstance(b, (VOpt, VNoneT)) and not (isinstance(a, VNoneT) and isinstance(b, VNoneT)):
            # None / optional value: an optional whose none-flag follows the condition
            oa = a if isinstance(a, VOpt) else VOpt(z3.BoolVal(True), b.val)
            ob = b if isinstance(b, VOpt) else VOpt(z3.BoolVal(True), a.val)
            return VOpt(z3.If(c, oa.isnone, ob.isnone), self.ite(st, c, oa.val, ob.val))
        if isinstance(a, VOpt) or isinstance(b, VOpt):
            o, x, flip = (a, b, False) if isinstance(a, VOpt) else (b, a, True)
            ox = VOpt(z3.BoolVal(False), x)
            return self.ite(st, c, ox, o) if flip else self.ite(st, c, o, ox)
        raise OutOfSubset('conditional expression of %s / %s' % (kind_of(a), kind_of(b)))

    def ev_BoolOp(self, st, e):
        vals = []
        n0 = len(st.guards)
        is_and = isinstance(e.op, ast.And)
        for x in e.values:
            if vals and not st.spec and not smt.feasible(list(st.pc) + list(st.guards)):
                break       # short circuit: this operand is never evaluated on this path
            v = self.ev(st, x)
            vals.append(v)
            t = self.truthy(st, v)
            st.guards.append(t if is_and else z3.Not(t))
        del st.guards[n0:]
        if all(isinstance(v, VBool) for v in vals):
            ts = [v.t for v in vals]
            return VBool(z3.And(ts) if is_and else z3.Or(ts))
        # value-returning and/or: fold from the right
        res = vals[-1]
        for v in reversed(vals[:-1]):
            t = self.truthy(st, v)
            if isinstance(v, VBool) and not isinstance(res, VBool):
                res = VBool(self.truthy(st, res))
            elif isinstance(res, VBool) and not isinstance(v, VBool):
                v = VBool(t)
            try:
                res = self.ite(st, t, res, v) if is_and else self.ite(st, t, v, res)
            except OutOfSubset:
                # operands of unrelated kinds (`stack or counter`): only the truth value can matter
                rb, vb = self.truthy(st, res), t
                res = VBool(z3.And(vb, rb) if is_and else z3.Or(vb, rb))
        return res

    def ev_UnaryOp(self, st, e):
        v = self.ev(st, e.operand)
        if isinstance(e.op, ast.Not):
            return VBool(z3.Not(self.truthy(st, v)))
        if isinstance(e.op, ast.USub) and isinstance(v, VInt):
            return VInt(-v.t)
        raise OutOfSubset('unary %s' % type(e.op).__name__)

    def ev_BinOp(self, st, e):
        a = self.ev(st, e.left)
        b = self.ev(st, e.right)
        return self.binop(st, e.op, a, b)

    def binop(self, st, op, a, b):
        if isinstance(a, VBool):
            a = VInt(z3.If(a.t, 1, 0))
        if isinstance(b, VBool):
            b = VInt(z3.If(b.t, 1, 0))
        if isinstance(a, VInt) and isinstance(b, VInt):
            if isinstance(op, ast.Add):
                return VInt(a.t + b.t)
            if isinstance(op, ast.Sub):
                return VInt(a.t - b.t)
            if isinstance(op, ast.Mult):
                return VInt(a.t * b.t)
            if isinstance(op, ast.FloorDiv):
                st.may_raise(b.t == 0, 'ZeroDivisionError', 'floor division')
                return VInt(self.floordiv(a.t, b.t))
            if isinstance(op, ast.Div):
                st.may_raise(b.t == 0, 'ZeroDivisionError', 'division')
                return VPy(('float-div', a.t, b.t))
        if isinstance(op, ast.Add):
            if isinstance(a, VStr) and isinstance(b, VStr):
                return VStr(self.eng.concat(st, a.t, b.t))
            if isinstance(a, VTuple) and isinstance(b, VTuple):
                return VTuple(a.items + b.items)
            if isinstance(a, VList) and isinstance(b, VList):
                return self.eng.list_concat(st, a, b)
            if isinstance(a, (VNoneT, VOpt)) or isinstance(b, (VNoneT, VOpt)):
                st.may_raise(z3.Or(self.is_none(st, a), self.is_none(st, b)), 'TypeError', '+ with None')
                return self.binop(st, op, a.val if isinstance(a, VOpt) else a, b.val if isinstance(b, VOpt) else b)
        if isinstance(op, ast.Mult) and isinstance(a, VStr) and isinstance(b, VInt):
            lit = a.lit()
            if lit is not None and len(lit) == 1:
                r = fresh('str', 'rep')
                st.assume(z3.Length(r.t) == z3.If(b.t > 0, b.t, 0))
                return r
        if isinstance(op, ast.Mod) and isinstance(a, VStr):
            return fresh('str', 'fmt')
        raise OutOfSubset('binary %s on %s, %s' % (type(op).__name__, kind_of(a), kind_of(b)))

    @staticmethod
    def floordiv(a, b):
        # z3 '/' on Int is Euclidean-style div (rounds so remainder >= 0); Python floors.
        q = a / b
        return z3.If(z3.And(b < 0, a % b != 0), q + 1, q) if not z3.is_int_value(b) else (q if b.as_long() > 0 else z3.If(a % b != 0, q + 1, q))

    def ev_Compare(self, st, e):
        left = self.ev(st, e.left)
        res = []
        n0 = len(st.guards)
        for op, rx in zip(e.ops, e.comparators):
            right = self.ev(st, rx)
            t = self.cmp1(st, op, left, right)
            res.append(t)
            st.guards.append(t)
            left = right
        del st.guards[n0:]
        return VBool(z3.And(res) if len(res) > 1 else res[0])

    def cmp1(self, st, op, a, b):
        k = type(op)
        if k is ast.Eq:
            return self.equal(st, a, b)
        if k is ast.NotEq:
            return z3.Not(self.equal(st, a, b))
        if k is ast.Is:
            return self.identical(st, a, b)
        if k is ast.IsNot:
            return z3.Not(self.identical(st, a, b))
        if k in (ast.Lt, ast.LtE, ast.Gt, ast.GtE):
            return self.compare(st, k, a, b)
        if k is ast.In:
            return self.contains(st, b, a)
        if k is ast.NotIn:
            return z3.Not(self.contains(st, b, a))
        raise OutOfSubset('comparison %s' % k.__name__)

    def contains(self, st, cont, x):
        """x in cont"""
        if isinstance(cont, VPy) and isinstance(cont.obj, (tuple, list, set, frozenset)):
            items = list(cont.obj)
            return z3.Or([self.equal(st, x, from_py(i)) for i in items] or [z3.BoolVal(False)])
        if isinstance(cont, VTuple):
            return z3.Or([self.equal(st, x, i) for i in cont.items] or [z3.BoolVal(False)])
        if isinstance(cont, VStr) and isinstance(x, VStr):
            return z3.Contains(cont.t, x.t)
        if isinstance(cont, VPy) and isinstance(cont.obj, dict):
            return z3.Or([self.equal(st, x, from_py(i)) for i in cont.obj] or [z3.BoolVal(False)])
        if isinstance(cont, VList):
            return self.eng.list_contains(st, cont, x)
        if isinstance(cont, VMap):
            return st.mhas(cont.t, self.eng.map_key(cont, x), cont.kk)
        if isinstance(cont, VRef):
            return self.eng.map_contains(st, cont, x)
        if isinstance(cont, VAny) and isinstance(x, VStr):
            return z3.Function('$in_opaque', I, S, B)(cont.t, x.t)      # an opaque container of strings: membership is uninterpreted
        raise OutOfSubset('membership in %s' % kind_of(cont))

    def ev_Attribute(self, st, e):
        recv = self.ev(st, e.value)
        return self.eng.get_attr(st, recv, e.attr)

    def ev_Subscript(self, st, e):
        recv = self.ev(st, e.value)
        sl = e.slice
        if isinstance(sl, ast.Slice):
            lo = self.ev(st, sl.lower) if sl.lower is not None else None
            hi = self.ev(st, sl.upper) if sl.upper is not None else None
            if sl.step is not None:
                raise OutOfSubset('slice step')
            return self.eng.get_slice(st, recv, lo, hi)
        idx = self.ev(st, sl)
        return self.eng.get_item(st, recv, idx)

    def ev_Call(self, st, e):
        return self.eng.call_expr(st, e)

    def ev_Lambda(self, st, e):
        return VFn('lambda', node=e, env=dict(st.env))

    def ev_GeneratorExp(self, st, e):
        return VFn('genexp', node=e, env=dict(st.env))

    def ev_ListComp(self, st, e):
        return self.eng.list_comp(st, e)
