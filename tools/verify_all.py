#!/usr/bin/env python3
"""Development aid: discharge the VCs of every registered contract that is not trusted (or of the keys
given), in parallel, and print everything that is not discharged.   python3-vt tools/verify_all.py [key ...]"""
import importlib
import multiprocessing as mp
import os
import sys
import time

HERE = os.path.dirname(os.path.dirname(os.path.abspath(__file__)))
sys.path.insert(0, HERE)
sys.path.insert(0, os.environ.get('PARSO_REPO', '/repo'))


def one(key):
    from pv.engine3 import verify_function
    t0 = time.time()
    try:
        obs = verify_function(key)
    except BaseException as e:  # noqa
        return key, [('crash', repr(e)[:300], 0)], time.time() - t0
    return key, [(o.status, o.name + ' ' + (o.detail or '')[:200], o.time_s) for o in obs], time.time() - t0


def main():
    keys = sys.argv[1:]
    from pv.contract import load_all, REG
    load_all()
    if not keys:
        keys = [k for k, c in REG.items() if not c.trusted]
    with mp.get_context('fork').Pool(14, maxtasksperchild=1) as pool:  # one key per process, as in the checks
        res = pool.map(one, keys, chunksize=1)
    bad = 0
    tot = 0
    for key, obs, dt in res:
        tot += len(obs)
        nb = [o for o in obs if o[0] != 'discharged']
        print('%-70s %3d obligations %5.1fs %s' % (key, len(obs), dt, 'OK' if not nb else '%d NOT DISCHARGED' % len(nb)))
        for o in obs:
            if 'dropped' in o[1]:
                print('      note', o[1])
        for o in nb:
            bad += 1
            print('     ', o[0], o[1])
    print('keys %d obligations %d not-discharged %d' % (len(keys), tot, bad))


if __name__ == '__main__':
    main()
